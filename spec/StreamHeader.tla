---------------------------- MODULE StreamHeader ----------------------------
(* C30 - the stream header protocol of network/quicstream/header/broker.go.  *)
(*                                                                            *)
(* Two endpoints and two FIFOs of tokens (one token = one Write call of the   *)
(* code): the client writes a request (handler prefix, head) and bodies, the  *)
(* handler reads them and writes response heads and bodies, the client reads. *)
(* Wire grammar (writeHead / writeBody):                                      *)
(*   head  = DT(1 request | 3 response) L ENC L HDR      (two lengthed parts) *)
(*   body  = DT(2) BT(1 empty | 2 fixed | 3 stream) [L(n)] [DATA(n)]          *)
(* A stream body ends with the stream (the writer closes).  Readers parse the *)
(* token FIFO with the reference parser Parse below - written from the        *)
(* grammar; the invariants say that what is parsed is what was written.  An   *)
(* adversary may rewrite one type or length token or cut a FIFO; messages     *)
(* before that point must still be read identically, from there on the        *)
(* statement only demands "a message or an error, never a panic".             *)
(*                                                                            *)
(* Binding A: every completed run (pc = "done") is a case: the client's       *)
(* messages, the handler's calls in the order chosen here, the client's read  *)
(* calls, each with the value it must return, and the adversary action.  The  *)
(* harness performs them on real ClientBroker / HandlerBroker (real JSON      *)
(* encoder, real headers) over in-memory streams delivered in chunks.         *)
EXTENDS Integers, Sequences, FiniteSets, TLC, Json

CONSTANTS MaxC,        \* bodies the client writes after the request head
          MaxH,        \* messages the handler writes
          Sizes,       \* body sizes
          Tamper,      \* BOOLEAN: one adversary action per run
          LenVals      \* names of values written into a length token

Data(n) == SubSeq(<<2, 3, 1, 2, 3>>, 1, n)       \* body bytes that look like type bytes
Bodies  == {[t |-> "body", k |-> "empty", n |-> 0]}
             \cup {[t |-> "body", k |-> kk, n |-> n] : kk \in {"fixed", "stream"}, n \in Sizes}
Req     == [t |-> "req", k |-> "r1", n |-> 0]
Resps   == {[t |-> "res", k |-> kk, n |-> 0] : kk \in {"ok", "err"}}   \* ok / not ok with an error text

(* ---- tokens: one per Write call ---- *)
Tok(k, v) == [k |-> k, v |-> v]
BT(kind)  == CASE kind = "empty" -> 1 [] kind = "fixed" -> 2 [] kind = "stream" -> 3
Tokens(m) ==
  CASE m.t = "req"  -> <<Tok("PFX", 0), Tok("DT", 1), Tok("L", -1), Tok("ENC", 0), Tok("L", -1), Tok("HDR", 1)>>
    [] m.t = "res"  -> <<Tok("DT", 3), Tok("L", -1), Tok("ENC", 0), Tok("L", -1),
                         Tok("HDR", IF m.k = "ok" THEN 2 ELSE 3)>>
    [] m.t = "body" -> <<Tok("DT", 2), Tok("BT", BT(m.k))>>
                         \o (IF m.k = "fixed" THEN <<Tok("L", m.n)>> ELSE <<>>)
                         \o (IF m.n > 0 THEN <<Tok("DATA", m.n)>> ELSE <<>>)
RECURSIVE Flat(_)
Flat(ms) == IF Len(ms) = 0 THEN <<>> ELSE Tokens(Head(ms)) \o Flat(Tail(ms))

(* ---- reference parser: the next message of a token FIFO, or "bad" ---- *)
Bad == [ok |-> FALSE, m |-> Req, used |-> 0]
Parse(s, wantPrefix) ==
  LET p == IF wantPrefix THEN 1 ELSE 0 IN
  IF Len(s) < p + 1 \/ (wantPrefix /\ s[1].k # "PFX") \/ s[p+1].k # "DT" THEN Bad
  ELSE LET dt == s[p+1].v IN
    IF dt \in {1, 3}
    THEN IF /\ Len(s) >= p + 5 /\ s[p+2].k = "L" /\ s[p+3].k = "ENC" /\ s[p+4].k = "L" /\ s[p+5].k = "HDR"
            /\ (dt = 1 <=> s[p+5].v = 1)
         THEN [ok |-> TRUE, used |-> p + 5,
               m |-> IF dt = 1 THEN Req ELSE [t |-> "res", k |-> IF s[p+5].v = 2 THEN "ok" ELSE "err", n |-> 0]]
         ELSE Bad
    ELSE IF dt = 2 /\ Len(s) >= p + 2 /\ s[p+2].k = "BT"
    THEN LET bt == s[p+2].v IN
         IF bt = 1 THEN [ok |-> TRUE, used |-> p + 2, m |-> [t |-> "body", k |-> "empty", n |-> 0]]
         ELSE IF bt = 2 /\ Len(s) >= p + 3 /\ s[p+3].k = "L" /\ s[p+3].v >= 0
         THEN LET n == s[p+3].v IN
              IF n = 0 THEN [ok |-> TRUE, used |-> p + 3, m |-> [t |-> "body", k |-> "fixed", n |-> 0]]
              ELSE IF Len(s) >= p + 4 /\ s[p+4].k = "DATA" /\ s[p+4].v = n
              THEN [ok |-> TRUE, used |-> p + 4, m |-> [t |-> "body", k |-> "fixed", n |-> n]]
              ELSE Bad
         ELSE IF bt = 3                           \* everything up to the end of the stream
         THEN IF Len(s) = p + 2 THEN [ok |-> TRUE, used |-> p + 2, m |-> [t |-> "body", k |-> "stream", n |-> 0]]
              ELSE IF Len(s) = p + 3 /\ s[p+3].k = "DATA"
              THEN [ok |-> TRUE, used |-> p + 3, m |-> [t |-> "body", k |-> "stream", n |-> s[p+3].v]]
              ELSE Bad
         ELSE Bad
    ELSE Bad

-----------------------------------------------------------------------------
VARIABLES pc,     \* "cw" client writes, "h" handler runs, "cr" client reads, "done"
          cmsgs,  \* messages the client wrote
          hmsgs,  \* messages the handler wrote
          c2h, h2c,   \* token FIFOs as written (after the adversary)
          hpos, cpos, \* tokens consumed by the handler / the client
          hops,   \* the handler's calls in order, with what they must return
          cops,   \* the client's read calls in order, with what they must return
          hstop, cstop,  \* a reader met the adversary's token: its later calls are unconstrained
          tam,    \* the adversary action
          step
vars == <<pc, cmsgs, hmsgs, c2h, h2c, hpos, cpos, hops, cops, hstop, cstop, tam, step>>
view == <<pc, cmsgs, hmsgs, c2h, h2c, hpos, cpos, hops, cops, hstop, cstop, tam>>

NoTam == [dir |-> "", i |-> 0, a |-> "", x |-> "", msg |-> 0]

Init == /\ pc = "cw" /\ cmsgs = <<>> /\ hmsgs = <<>> /\ c2h = <<>> /\ h2c = <<>>
        /\ hpos = 0 /\ cpos = 0 /\ hops = <<>> /\ cops = <<>> /\ hstop = FALSE /\ cstop = FALSE
        /\ tam = NoTam /\ step = ""

Closed(ms) == Len(ms) > 0 /\ ms[Len(ms)].t = "body" /\ ms[Len(ms)].k = "stream"

(* index of the message a token belongs to *)
RECURSIVE MsgOfTok(_, _, _)
MsgOfTok(ms, i, base) == IF Len(ms) = 0 THEN base
                         ELSE IF i <= Len(Tokens(Head(ms))) THEN base + 1
                         ELSE MsgOfTok(Tail(ms), i - Len(Tokens(Head(ms))), base + 1)

(* ---- client writes ---- *)
CWriteReq ==                      \* ClientBroker.WriteRequestHead
  /\ pc = "cw" /\ cmsgs = <<>>
  /\ cmsgs' = <<Req>> /\ c2h' = Tokens(Req)
  /\ UNCHANGED <<pc, hmsgs, h2c, hpos, cpos, hops, cops, hstop, cstop, tam, step>>

CWriteBody(b) ==                  \* ClientBroker.WriteBody; a stream body closes the writer
  /\ pc = "cw" /\ Len(cmsgs) \in 1..MaxC /\ ~Closed(cmsgs)
  /\ cmsgs' = Append(cmsgs, b) /\ c2h' = c2h \o Tokens(b)
  /\ UNCHANGED <<pc, hmsgs, h2c, hpos, cpos, hops, cops, hstop, cstop, tam, step>>

CFinish ==                        \* the client closes its side
  /\ pc = "cw" /\ Len(cmsgs) >= 1
  /\ pc' = "h"
  /\ UNCHANGED <<cmsgs, hmsgs, c2h, h2c, hpos, cpos, hops, cops, hstop, cstop, tam, step>>

(* ---- adversary: one token of a FIFO rewritten, or the FIFO cut ---- *)
SetTok(dir, i, x, name) ==        \* a type byte becomes x / a length token gets the value called name
  LET f == IF dir = "c2h" THEN c2h ELSE h2c
      ms == IF dir = "c2h" THEN cmsgs ELSE hmsgs
      t == f[i]
      nf == [f EXCEPT ![i] = Tok(t.k, IF t.k = "L" THEN -2 ELSE x)]   \* -2: some other length
  IN /\ Tamper /\ tam = NoTam
     /\ \/ t.k \in {"DT", "BT"} /\ x # t.v /\ name = ""
        \/ t.k = "L" /\ x = 0 /\ name \in LenVals
     /\ tam' = [dir |-> dir, i |-> i, a |-> "set", x |-> IF t.k = "L" THEN name ELSE ToString(x),
                msg |-> MsgOfTok(ms, i, 0)]
     /\ IF dir = "c2h" THEN c2h' = nf /\ UNCHANGED h2c ELSE h2c' = nf /\ UNCHANGED c2h

Cut(dir, i, part) ==              \* the FIFO ends inside (part = 1) or before (part = 0) token i
  LET f == IF dir = "c2h" THEN c2h ELSE h2c
      ms == IF dir = "c2h" THEN cmsgs ELSE hmsgs
  IN /\ Tamper /\ tam = NoTam
     /\ tam' = [dir |-> dir, i |-> i, a |-> IF part = 1 THEN "cutin" ELSE "cut", x |-> "", msg |-> MsgOfTok(ms, i, 0)]
     /\ IF dir = "c2h" THEN c2h' = SubSeq(f, 1, i - 1) /\ UNCHANGED h2c
        ELSE h2c' = SubSeq(f, 1, i - 1) /\ UNCHANGED c2h

TamperC2H ==
  /\ pc = "h" /\ hops = <<>>
  /\ \/ \E i \in DOMAIN c2h, x \in 0..4, name \in LenVals \cup {""} : SetTok("c2h", i, x, name)
     \/ \E i \in DOMAIN c2h, part \in {0, 1} : (part = 1 => c2h[i].k # "DT") /\ Cut("c2h", i, part)
  /\ UNCHANGED <<pc, cmsgs, hmsgs, hpos, cpos, hops, cops, hstop, cstop, step>>

TamperH2C ==
  /\ pc = "cr" /\ cops = <<>>
  /\ \/ \E i \in DOMAIN h2c, x \in 0..4, name \in LenVals \cup {""} : SetTok("h2c", i, x, name)
     \/ \E i \in DOMAIN h2c, part \in {0, 1} : (part = 1 => h2c[i].k # "DT") /\ Cut("h2c", i, part)
  /\ UNCHANGED <<pc, cmsgs, hmsgs, hpos, cpos, hops, cops, hstop, cstop, step>>

Op(o, m, ok) == [op |-> o, t |-> m.t, k |-> m.k, n |-> m.n, ok |-> ok]
AnyRes(o) == [op |-> o, t |-> "any", k |-> "", n |-> 0, ok |-> FALSE]

(* ---- handler ---- *)
HRead(o) ==                       \* ReadRequestHead (first) / ReadBody
  /\ pc = "h" /\ ~hstop
  /\ (o = "readreq") <=> (hops = <<>>)
  /\ LET orig == Flat(cmsgs)                       \* what was written
         w == Parse(SubSeq(orig, hpos + 1, Len(orig)), hpos = 0)
     IN /\ hpos < Len(orig)
        /\ w.ok
        /\ IF tam.dir = "c2h" /\ (tam.i <= hpos + w.used)    \* the adversary touched this message
           THEN hstop' = TRUE /\ hops' = Append(hops, AnyRes(o)) /\ UNCHANGED hpos
           ELSE /\ hstop' = FALSE /\ hpos' = hpos + w.used
                /\ hops' = Append(hops, Op(o, Parse(SubSeq(c2h, hpos + 1, Len(c2h)), hpos = 0).m, TRUE))
  /\ UNCHANGED <<pc, cmsgs, hmsgs, c2h, h2c, cpos, cops, cstop, tam, step>>

HWrite(m) ==                      \* WriteResponseHead / WriteBody (after the request head was read)
  /\ pc = "h" /\ Len(hops) >= 1 /\ hops[1].t = "req"
  /\ Len(hmsgs) < MaxH /\ ~Closed(hmsgs)
  /\ hmsgs' = Append(hmsgs, m) /\ h2c' = h2c \o Tokens(m)
  /\ hops' = Append(hops, Op("write", m, TRUE))
  /\ UNCHANGED <<pc, cmsgs, c2h, hpos, cpos, cops, hstop, cstop, tam, step>>

HFinish ==                        \* the handler returns when it has read what the client sent (or lost the stream)
  /\ pc = "h" /\ Len(hops) >= 1 /\ (hstop \/ hpos = Len(Flat(cmsgs)))
  /\ pc' = "cr"
  /\ UNCHANGED <<cmsgs, hmsgs, c2h, h2c, hpos, cpos, hops, cops, hstop, cstop, tam, step>>

(* ---- client reads ---- *)
CRead(o) ==                       \* ReadResponseHead / ReadBody
  /\ pc = "cr" /\ ~cstop
  /\ LET orig == Flat(hmsgs)
         w == Parse(SubSeq(orig, cpos + 1, Len(orig)), FALSE)
     IN /\ cpos < Len(orig)
        /\ w.ok
        /\ IF tam.dir = "h2c" /\ (tam.i <= cpos + w.used)
           THEN cstop' = TRUE /\ cops' = Append(cops, AnyRes(o)) /\ UNCHANGED cpos
           ELSE LET r == Parse(SubSeq(h2c, cpos + 1, Len(h2c)), FALSE).m IN
                IF o = "readres" /\ r.t = "body"
                THEN \* a body where the head is demanded: an error, the stream is lost
                     cstop' = TRUE /\ cops' = Append(cops, Op(o, r, FALSE)) /\ UNCHANGED cpos
                ELSE cstop' = FALSE /\ cpos' = cpos + w.used /\ cops' = Append(cops, Op(o, r, TRUE))
  /\ UNCHANGED <<pc, cmsgs, hmsgs, c2h, h2c, hpos, hops, hstop, tam, step>>

Out == ToJson([cmsgs |-> cmsgs, hops |-> hops, cops |-> cops, tam |-> tam,
               ntok |-> [c2h |-> Len(Flat(cmsgs)), h2c |-> Len(Flat(hmsgs))]])

CFinishRead ==
  /\ pc = "cr" /\ (cstop \/ cpos = Len(Flat(hmsgs)))
  /\ pc' = "done"
  /\ UNCHANGED <<cmsgs, hmsgs, c2h, h2c, hpos, cpos, hops, cops, hstop, cstop, tam>>
  /\ step' = Out

Next ==
  \/ CWriteReq \/ CFinish \/ \E b \in Bodies : CWriteBody(b)
  \/ TamperC2H \/ TamperH2C
  \/ \E o \in {"readreq", "readbody"} : HRead(o)
  \/ \E m \in Resps \cup Bodies : HWrite(m)
  \/ HFinish
  \/ \E o \in {"readres", "readbody"} : CRead(o)
  \/ CFinishRead
Spec == Init /\ [][Next]_vars

-----------------------------------------------------------------------------
(* "read back identically": the constrained reads of a side are, in order, the *)
(* messages the other side wrote                                               *)
Reads(ops) == SelectSeq(ops, LAMBDA o : o.op # "write" /\ o.t # "any" /\ o.ok)
SameMsg(o, m) == o.t = m.t /\ o.k = m.k /\ o.n = m.n
ReadBackIdentically ==
  /\ \A i \in 1..Len(Reads(hops)) : i <= Len(cmsgs) /\ SameMsg(Reads(hops)[i], cmsgs[i])
  /\ \A i \in 1..Len(Reads(cops)) : i <= Len(hmsgs) /\ SameMsg(Reads(cops)[i], hmsgs[i])

(* "a response head arriving where a body was expected is returned as the response" *)
ResponseWhereBodyExpected ==
  \A i \in 1..Len(cops) : (cops[i].op = "readbody" /\ cops[i].t # "any" /\ hmsgs[i].t = "res")
                             => (cops[i].ok /\ cops[i].t = "res" /\ cops[i].k = hmsgs[i].k)

(* without an adversary every message that was written can be read: no reader is stopped *)
NoAdversaryNoStop == tam = NoTam => (~hstop /\ (cstop => \E i \in 1..Len(cops) : ~cops[i].ok))

(* the token grammar is unambiguous: re-parsing what was written yields the messages *)
RECURSIVE ParseAll(_, _)
ParseAll(s, first) == IF Len(s) = 0 THEN <<>>
                      ELSE LET w == Parse(s, first) IN
                           IF ~w.ok THEN <<Bad.m, Bad.m, Bad.m, Bad.m, Bad.m, Bad.m, Bad.m>>
                           ELSE <<w.m>> \o ParseAll(SubSeq(s, w.used + 1, Len(s)), FALSE)
GrammarRoundTrip == /\ pc # "cw" => ParseAll(Flat(cmsgs), TRUE) = cmsgs
                    /\ pc \in {"cr", "done"} => ParseAll(Flat(hmsgs), FALSE) = hmsgs

TypeOK == pc \in {"cw", "h", "cr", "done"}
=============================================================================
