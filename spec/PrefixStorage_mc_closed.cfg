SPECIFICATION Spec
CONSTANTS
  Alphabet = {0, 1, 255}
  Stores <- StoresSmall
  InitKeyLen = 2
  MaxInitKeys = 1
  UKLen = 1
  BoundLen = 1
  Limits = {0, 1}
  Stops = {0}
  Mode = "cases"
  L = 333
  Sizes = {}
  HistStores <- HistStoresQuick
  HistKinds = {}
  HistFillFirst = TRUE
  MaxSteps = 0
INVARIANTS ImplAgrees
CHECK_DEADLOCK FALSE
