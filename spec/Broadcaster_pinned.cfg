SPECIFICATION Spec
CONSTANTS
  Deliv = {"d1", "d2"}
  Handler = {}
  SP = {"i"}
  Fact = {"A", "B"}
  MaxAgain = 0
  SendKept = FALSE
  Record = TRUE
INVARIANTS NoEquivocation
CHECK_DEADLOCK FALSE
