SPECIFICATION Spec
CONSTANTS
  Node0 = {"n0", "n1"}
  Local0 = "n0"
  T100 = 670
  EmitStep = TRUE
  Heights = {1, 2, 3}
  Rounds = {0, 1}
  Stages = {1, 3}
  Facts = {"A", "B"}
  ExSets = {{}, {"n1"}}
  AllowSC = TRUE
  MaxId = 10
  MaxVotes = 14
  MaxChan = 3
  MaxSet = 2
  StoreSC = "sf-"
  CleanSC = "sf-"
  CountRule = "sound"
  EagerCount = FALSE
  Holds = FALSE
  MaxTick = 0
  TickGuard = "impl"
CHECK_DEADLOCK FALSE
