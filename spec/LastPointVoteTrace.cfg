SPECIFICATION TraceSpec
CONSTANTS
  MaxH = 9
  MaxR = 9
  NN0 = 3
  T100 = 670
  Ex0 = {}
  Facts = {"A", "B", "C"}
  MaxOps = 0
  StartAll = FALSE
  StartSuf = {TRUE}
  EvpAny = TRUE
  SymFirst = TRUE
  WithSetLast = TRUE
  Guard = "before"
CONSTRAINT HighWater
POSTCONDITION Accepted
CHECK_DEADLOCK FALSE
