SPECIFICATION Spec
CONSTANTS
  Node = {"n1", "n2"}
  MaxH = 3
  MaxOps = 2
  MaxRm = 1
  EarlyStop = TRUE
VIEW View
INVARIANTS TypeOK TraverseRefines LookupRefines RemoveRefines
CHECK_DEADLOCK FALSE
