SPECIFICATION Spec
CONSTANTS
  Member = {"n1", "n2", "n3", "n4"}
  Outsider = {"x"}
  Local = "n1"
  T10 = 670
  OpSet <- OpsQuick
  InState <- NoFacts
  Heights = {2, 3}
  MaxCalls = 4
  MaxFinds = 2
  Sim = FALSE
  Level = "abstract"
VIEW view
INVARIANTS TypeOK NeverLocal NoSelfSignature PoolIsUnionOfVotes ConsensusAccepts Idempotent
CHECK_DEADLOCK FALSE
