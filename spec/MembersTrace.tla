---------------------------- MODULE MembersTrace ----------------------------
(* Binding B for C37: executions recorded from the real membersPool are       *)
(* validated against Members.tla.                                             *)
(*                                                                            *)
(* 1. Sequential recordings (one goroutine; events Reset/Join/Leave/Empty/Obs):*)
(*    every step is deterministic: the spec action updates the abstract state *)
(*    from the event's arguments and every logged reply is compared with the  *)
(*    spec's answer; a mismatch is printed with its class (the driver turns   *)
(*    it into a verdict) and validation goes on.                              *)
(*                                                                            *)
(* 2. Concurrent histories (2-4 goroutines on a fresh table; many short       *)
(*    histories in one file), searched for a linearization over the           *)
(*    concurrent layer of Members.tla:                                        *)
(*      {"a":"HReset","i":12,"n":9, ...}  i = history number, n = its events  *)
(*      {"a":"Call","g":2,"op":"Leave","addr":"a1","node":"none",              *)
(*                  "r":{"b":1,"n":"none","l":0,"o":0}}                        *)
(*           logged (global order) before the real call starts; r = what the  *)
(*           call answered, attached afterwards                               *)
(*      {"a":"Ret","g":2}      logged after the real call returned            *)
(*      {"a":"Final", ...}     after all goroutines finished: every read of   *)
(*                             the table (same fields as Obs)                 *)
(*      {"a":"End"}            last line of the file                          *)
(*    TLin(g) is the internal step of Members!Lin between Call and Ret: the   *)
(*    sequential table must give the answer the real call gave; Final must be *)
(*    what the sequential table shows after the chosen order. A history is    *)
(*    explained iff some path consumes all of its events; GiveUp lets the     *)
(*    search go on with the next history; the histories without a             *)
(*    linearization are printed at the end (NOTLIN) with the first line no    *)
(*    order explains (HWT).                                                   *)
(*    ReadStrict = FALSE leaves the answers of the reads that look at the     *)
(*    per-node lists or at the length while other calls are in progress       *)
(*    unconstrained (the statement constrains what the lists contain, a       *)
(*    re-join under another node moves the address from one list to the       *)
(*    other in two steps); reads of the address table (Exists, Get), the      *)
(*    answers of Join and Leave, and the final observation are always         *)
(*    constrained.                                                            *)
EXTENDS Members, Json

CONSTANTS ReadStrict

Trace == ndJsonDeserialize("trace.ndjson")
VARIABLES l,       \* next trace line
          h0,      \* line of the HReset event of the current concurrent history (0: none)
          bad      \* the search has given the current history up
tvars == <<present, pend, l, h0, bad>>
Ev == Trace[l]

Expect(class, got, want) == IF got = want THEN TRUE
                            ELSE PrintT(<<"MISMATCH", class, l, got, want>>)

Consume == l <= Len(Trace) /\ l' = l + 1
SeqStep == UNCHANGED <<pend, h0, bad>>

(* ------------------------------ 1. sequential ------------------------------ *)
TReset == Consume /\ Ev.a = "Reset" /\ present' = [a \in Addr |-> None] /\ SeqStep
TJoin  == Consume /\ Ev.a = "Join" /\ Join(Ev.addr, Ev.node) /\ SeqStep
                  /\ Expect("Join-added", B2N(Ev.added), B2N(Added(Ev.addr)))
TLeave == Consume /\ Ev.a = "Leave" /\ Leave(Ev.addr) /\ SeqStep
                  /\ Expect("Leave-removed", B2N(Ev.removed), B2N(Removed(Ev.addr)))
TEmpty == Consume /\ Ev.a = "Empty" /\ Empty /\ SeqStep
(* observation of every read after a call: state unchanged *)
TObs ==
  /\ Consume
  /\ Ev.a = "Obs"
  /\ UNCHANGED present /\ SeqStep
  /\ Expect("Len", Ev.len, NLen)
  /\ \A x \in Addr :
        /\ Expect("Exists", B2N(Ev.exists[x]), B2N(Exists(x)))
        /\ Expect("Get-found", B2N(Ev.getfound[x]), B2N(Exists(x)))
        /\ Expect("Get-node", Ev.getnode[x], IF Ev.getfound[x] /\ Exists(x) THEN present[x] ELSE Ev.getnode[x])
  /\ \A n \in Node :
        /\ Expect("MembersLen", Ev.mlen[n], MembersLen(n))
        /\ \A y \in Addr :
              /\ Expect("MembersLenOthers-len", Ev.others[n][y][1], MembersLen(n))
              /\ Expect("MembersLenOthers-others", Ev.others[n][y][2], Others(n, y))
              /\ Expect("MembersLenOthers-found", Ev.others[n][y][3], B2N(FoundIn(n, y)))
  /\ Expect("Traverse", {Ev.trav[i] : i \in 1..Len(Ev.trav)}, {z \in Addr : present[z] # None})
  /\ Expect("Traverse-dup", Len(Ev.trav), NLen)

(* ------------------------------ 2. concurrent ------------------------------ *)
(* registers: 2 = histories seen, 3 = histories for which a linearization was found, *)
(* 100+i = furthest line of history i reached without giving up                      *)
Note(reg, i) == TLCSet(reg, TLCGet(reg) \cup {i})
Fresh == /\ present' = [a \in Addr |-> None]
         /\ pend' = [g \in Procs |-> Idle]

THReset == /\ Consume /\ Ev.a \in {"HReset", "End"}
           /\ IF h0 # 0 /\ ~bad THEN Note(3, Trace[h0].i) ELSE TRUE
           /\ IF Ev.a = "HReset" THEN Note(2, Ev.i) ELSE TRUE
           /\ Fresh /\ h0' = l /\ bad' = FALSE

CallOf(e) == [op |-> e.op, addr |-> e.addr, node |-> e.node]
Free(c) == ~ReadStrict /\ c.op \in {"Len", "MembersLen", "Others"}

TCall == /\ Consume /\ Ev.a = "Call"
         /\ pend[Ev.g] = Idle
         /\ pend' = [pend EXCEPT ![Ev.g] = [st |-> "called", c |-> CallOf(Ev), want |-> Ev.r]]
         /\ UNCHANGED <<present, h0, bad>>

(* Members!Lin(g) with the guard that the answer of the sequential table is the logged one *)
TLin(g) == /\ pend[g].st = "called"
           /\ Free(pend[g].c) \/ Answer(pend[g].c) = pend[g].want
           /\ Effect(pend[g].c)
           /\ pend' = [pend EXCEPT ![g] = [st |-> "done", c |-> pend[g].c, r |-> pend[g].want]]
           /\ UNCHANGED <<l, h0, bad>>

TRet == /\ Consume /\ Ev.a = "Ret"
        /\ pend[Ev.g].st = "done"
        /\ pend' = [pend EXCEPT ![Ev.g] = Idle]
        /\ UNCHANGED <<present, h0, bad>>

(* after the goroutines finished: every read is a function of the state the chosen order leads to *)
ObsIs(e) ==
  /\ e.len = NLen
  /\ \A x \in Addr :
        /\ e.exists[x] = Exists(x)
        /\ e.getfound[x] = Exists(x)
        /\ e.getnode[x] = present[x]
  /\ \A n \in Node :
        /\ e.mlen[n] = MembersLen(n)
        /\ \A y \in Addr : e.others[n][y] = <<MembersLen(n), Others(n, y), B2N(FoundIn(n, y))>>
  /\ {e.trav[i] : i \in 1..Len(e.trav)} = {z \in Addr : present[z] # None}
  /\ Len(e.trav) = NLen
TFinal == /\ Consume /\ Ev.a = "Final"
          /\ \A g \in Procs : pend[g] = Idle
          /\ ObsIs(Ev)
          /\ UNCHANGED <<present, pend, h0, bad>>

(* the search may give the current history up at any point: it jumps to the next  *)
(* HReset (Trace[h0].n = number of events of the history) and the history is not  *)
(* noted as linearizable unless another path explains it                          *)
GiveUp == /\ h0 # 0 /\ ~bad /\ l <= Len(Trace) /\ Ev.a \notin {"HReset", "End"}
          /\ l' = h0 + Trace[h0].n + 1 /\ bad' = TRUE
          /\ Fresh /\ UNCHANGED h0

TraceInit == Init /\ l = 1 /\ h0 = 0 /\ bad = FALSE
TraceNext == \/ TReset \/ TJoin \/ TLeave \/ TEmpty \/ TObs
             \/ THReset \/ TCall \/ TRet \/ TFinal \/ GiveUp
             \/ \E g \in Procs : TLin(g)
TraceSpec == TraceInit /\ [][TraceNext]_tvars

ASSUME TLCSet(1, 0) /\ TLCSet(2, {}) /\ TLCSet(3, {})
ASSUME \A k \in 1..Len(Trace) : Trace[k].a = "HReset" => TLCSet(100 + Trace[k].i, 0)
(* furthest line reached without giving up: of the whole file, and of each concurrent history *)
HighWater == /\ bad \/ TLCSet(1, IF l > TLCGet(1) THEN l ELSE TLCGet(1))
             /\ \/ bad \/ h0 = 0 \/ Trace[h0].a # "HReset"
                \/ LET r == 100 + Trace[h0].i IN TLCSet(r, IF l > TLCGet(r) THEN l ELSE TLCGet(r))
(* sequential recordings: the whole file must have been consumed *)
Accepted == \/ TLCGet(1) = Len(Trace) + 1
            \/ PrintT(<<"HW", TLCGet(1), Len(Trace)>>) /\ FALSE
(* concurrent histories: the verdict is per history *)
AcceptedC == /\ PrintT(<<"NOTLIN", TLCGet(2) \ TLCGet(3)>>)
             /\ \A i \in TLCGet(2) \ TLCGet(3) : PrintT(<<"HWT", i, TLCGet(100 + i)>>)
             /\ PrintT(<<"SEEN", Cardinality(TLCGet(2))>>)
             /\ PrintT(<<"HW", TLCGet(1), Len(Trace)>>)
=============================================================================
