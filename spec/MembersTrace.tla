---------------------------- MODULE MembersTrace ----------------------------
(* Binding B for C37: executions recorded from the real membersPool are       *)
(* validated against Members.tla. One event per call; the table is sequential *)
(* in the driver, so every step is deterministic: the spec action updates the *)
(* abstract state from the event's arguments and every logged reply is        *)
(* compared with the spec's answer; a mismatch is printed with its class      *)
(* (the driver turns it into a verdict) and validation goes on.               *)
EXTENDS Members, Json

Trace == ndJsonDeserialize("trace.ndjson")
VARIABLE l
tvars == <<present, l>>
Ev == Trace[l]

Expect(class, got, want) == IF got = want THEN TRUE
                            ELSE PrintT(<<"MISMATCH", class, l, got, want>>)

B2N(b) == IF b THEN 1 ELSE 0
Consume == l <= Len(Trace) /\ l' = l + 1

TReset == Consume /\ Ev.a = "Reset" /\ present' = [a \in Addr |-> None]
TJoin  == Consume /\ Ev.a = "Join" /\ Join(Ev.addr, Ev.node)
                  /\ Expect("Join-added", B2N(Ev.added), B2N(Added(Ev.addr)))
TLeave == Consume /\ Ev.a = "Leave" /\ Leave(Ev.addr)
                  /\ Expect("Leave-removed", B2N(Ev.removed), B2N(Removed(Ev.addr)))
TEmpty == Consume /\ Ev.a = "Empty" /\ Empty
(* observation of every read after a call: state unchanged *)
TObs ==
  /\ Consume
  /\ Ev.a = "Obs"
  /\ UNCHANGED present
  /\ Expect("Len", Ev.len, NLen)
  /\ \A x \in Addr :
        /\ Expect("Exists", B2N(Ev.exists[x]), B2N(Exists(x)))
        /\ Expect("Get-found", B2N(Ev.getfound[x]), B2N(Exists(x)))
        /\ Expect("Get-node", Ev.getnode[x], IF Ev.getfound[x] /\ Exists(x) THEN present[x] ELSE Ev.getnode[x])
  /\ \A n \in Node :
        /\ Expect("MembersLen", Ev.mlen[n], MembersLen(n))
        /\ \A y \in Addr :
              /\ Expect("MembersLenOthers-len", Ev.others[n][y][1], MembersLen(n))
              /\ Expect("MembersLenOthers-others", Ev.others[n][y][2], Others(n, y))
              /\ Expect("MembersLenOthers-found", Ev.others[n][y][3], B2N(FoundIn(n, y)))
  /\ Expect("Traverse", {Ev.trav[i] : i \in 1..Len(Ev.trav)}, {z \in Addr : present[z] # None})
  /\ Expect("Traverse-dup", Len(Ev.trav), NLen)

TraceInit == Init /\ l = 1
TraceNext == TReset \/ TJoin \/ TLeave \/ TEmpty \/ TObs
TraceSpec == TraceInit /\ [][TraceNext]_tvars

ASSUME TLCSet(1, 0)
HighWater == TLCSet(1, IF l > TLCGet(1) THEN l ELSE TLCGet(1))
Accepted == \/ TLCGet(1) = Len(Trace) + 1
            \/ PrintT(<<"HW", TLCGet(1), Len(Trace)>>) /\ FALSE
=============================================================================
