SPECIFICATION Spec
CONSTANTS
  AskSet <- AskHold
  MaxAsk = 1
  MaxToggle = 0
  MaxHold = 1
  MaxY = 0
  ExitOut = {"ok"}
  EnterKinds = {"ok", "redirect"}
  Redirects = {"SYNCING"}
  InitAllowed = {TRUE}
  Sched = TRUE
  Record = TRUE
INVARIANTS Emit
CHECK_DEADLOCK FALSE
