SPECIFICATION Spec
CONSTANTS
  MaxK = 5
  Gap = 3
  Sizes = {1, 2, 3, 4, 6, 7, 8, 13, 16, 21}
  Positions = {0, 1, 2, 3, 4, 5, 6, 7, 8, 9, 10, 11, 12, 13, 14, 15, 16, 17, 18, 19, 20}
  Variants = {"fixed"}
  Emit = FALSE
  Mode = "prove"
  Limits = {1}
  RespKinds = {}
INVARIANTS TypeOK AcceptedIffNotForged AcceptOnlyOK ValidAccepted NoPanic
PROPERTIES Terminates
CHECK_DEADLOCK FALSE
