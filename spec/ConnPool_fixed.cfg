SPECIFICATION Spec
CONSTANTS
  NA = 2
  MaxConn = 3
  MaxCalls = 5
  NT = 2
  Concurrent = TRUE
  ByIdentity = TRUE
  MaxHandles = 3
INVARIANTS TypeOK P1 P2 P3 P4
CHECK_DEADLOCK FALSE
