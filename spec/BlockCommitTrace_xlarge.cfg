SPECIFICATION TraceSpec
CONSTANTS
  NKeysX = 1214
  SufX = TRUE
  NKeysY = 5
  NKeysP = 7
  BWLimit = 128
  PermLimit = 333
  BlockMapLast = FALSE
  Keys = {"a", "b"}
  MaxLen = 4
CONSTRAINT HighWater
INVARIANTS Complete
POSTCONDITION Accepted
CHECK_DEADLOCK FALSE
