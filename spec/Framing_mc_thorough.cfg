SPECIFICATION Spec
CONSTANTS
  ByteVals = {0, 255}
  MaxItems = 3
  MaxItemLen = 2
  Trailers <- TrailersDef
  HdrMaxItems = 2
  RawBodies <- RawBodiesDef
  LenBodies <- LenBodiesBig
  LenVals = {"zero", "dec", "inc", "i31m", "i31", "i63", "max"}
  FlipMasks = {1, 128, 255}
  MaxTamper = 1
  UShapes <- UShapesBig
  UFills = {0, 255}
VIEW view
INVARIANTS TypeOK RoundTrip Sound Complete TruncatedIsError
CHECK_DEADLOCK FALSE
