---------------------------- MODULE BlockProcess ----------------------------
(* C10 - block production is deterministic.                                   *)
(*                                                                            *)
(* Models isaac/proposal_processor.go (collect, PreProcess in proposal order, *)
(* Process jobs on a bounded worker), isaac/block/writer.go +                 *)
(* states_merger.go (per-key mergers fed in arrival order, CloseStates) and   *)
(* the built-in processors of isaac/operation/*_processor.go with launch's    *)
(* candidate limiter, for the three built-in states (suffrage, suffrage       *)
(* candidates, network policy).                                               *)
(*                                                                            *)
(* Two levels:                                                                *)
(*  - SeqBlock: what one block does when every operation is taken to          *)
(*    completion in proposal order (the reference run of the statement:       *)
(*    "the same proposal ... over the same prior state").                     *)
(*  - the state machine PreNext / MergeStep / Finish / CloseStates: the       *)
(*    implementation's concurrency - PreProcess sequential, Process jobs in   *)
(*    any order limited by the worker size, merge values of one job appended  *)
(*    key by key (each append is one critical section of the sharded map),    *)
(*    CloseStates after all jobs.                                             *)
(* Property Confluent: every terminal state of the machine equals SeqBlock.   *)
(*                                                                            *)
(* Binding A (check/props/c10.py, harness/internal/c10): every terminal state *)
(* (proposal, worker size, order in which the jobs first merged, expected     *)
(* per-operation outcome and expected states) is replayed on the real         *)
(* DefaultProposalProcessor + processors + isaacblock.Writer + LocalFSWriter  *)
(* over a real database holding the world's chain: forced in that order, and  *)
(* unforced with worker sizes 1,2,7,64 under scheduling noise.                *)
EXTENDS Integers, Sequences, FiniteSets, TLC

CONSTANTS World,     \* "A" | "B": genesis members, threshold, chain before the block under test
          MaxOps,    \* operations in the block under test
          Workers,   \* worker sizes explored
          CatIds     \* catalogue entries that may be proposed (set of ids) or {} = all

----------------------------------------------------------------------------
(* nodes, keys, operations                                                   *)

NodeOrder == <<"c1", "c2", "m1", "m2", "m3", "m4", "x1", "x2">>   \* address order
Rank(n) == CHOOSE i \in 1..Len(NodeOrder) : NodeOrder[i] = n

S(n, k) == [n |-> n, k |-> k]      \* a signature: node, key tag own|alt|forged
Op(id, k, n, key, s, e, pol, signs) ==
  [id |-> id, k |-> k, n |-> n, key |-> key, s |-> s, e |-> e, pol |-> pol, signs |-> signs]

Join(id, n, s, signs)    == Op(id, "join", n, "", s, 0, "", signs)
Cand(id, n, key, signs)  == Op(id, "cand", n, key, 0, 0, "", signs)
Disjoin(id, n, s, signs) == Op(id, "disjoin", n, "", s, 0, "", signs)
Expel(id, n, s, e, signs) == Op(id, "expel", n, "", s, e, "", signs)
Pol(id, p, signs)        == Op(id, "policy", "", "", 0, 0, p, signs)
Unknown(id)              == Op(id, "unknown", "", "", 0, 0, "", <<>>)

Lifespan(p) == IF p = "p2" THEN 3 ELSE 2      \* SuffrageCandidateLifespan of the policy tags
CandLimit == 2                                \* FixedSuffrageCandidateLimiterRule(2)

Range(s) == {s[i] : i \in DOMAIN s}

----------------------------------------------------------------------------
(* worlds: genesis + the blocks before the block under test                  *)

Genesis == <<"m1", "m2", "m3">>
T10 == 670                                    \* threshold 67.0

M3 == <<S("m1", "own"), S("m2", "own"), S("m3", "own")>>
K4 == IF World = "A" THEN "own" ELSE "alt"     \* the key m4 is registered with
K4x == IF World = "A" THEN "alt" ELSE "own"    \* its other key
M4 == M3 \o <<S("m4", K4)>>

ScriptA == <<
  << Cand("w1a", "m4", "own", <<S("m4", "own")>>), Cand("w1b", "c2", "own", <<S("c2", "own")>>) >>,
  << Join("w2a", "m4", 2, <<S("m4", "own")>> \o M3) >>,
  << Cand("w3a", "c1", "own", <<S("c1", "own")>>) >>,
  << Pol("w4a", "p1", M3 \o <<S("m4", "own")>>) >> >>

(* B: m4 registers and joins with its other key, m3 leaves, two candidates are alive at *)
(* height 5; an empty block at height 4                                                 *)
ScriptB == <<
  << Cand("w1a", "m4", "alt", <<S("m4", "alt")>>), Cand("w1b", "c2", "own", <<S("c2", "own")>>) >>,
  << Join("w2a", "m4", 2, <<S("m4", "alt")>> \o M3) >>,
  << Cand("w3a", "c1", "own", <<S("c1", "own")>>), Disjoin("w3b", "m3", 1, <<S("m3", "own")>>),
     Cand("w3c", "x2", "own", <<S("x2", "own")>>) >>,
  << >> >>

Script == IF World = "A" THEN ScriptA ELSE ScriptB
H == 5                                        \* height of the block under test (four blocks before it)

(* the catalogue of operations that can be proposed at height H *)
Catalogue == <<
  \* joins of c1 (alive candidate, start 4)
  Join("j1", "c1", 4, <<S("c1", "own")>> \o M3),
  Join("j2", "c1", 4, <<S("c1", "own"), S("m1", "own"), S("m2", "own")>>),
  Join("j3", "c1", 4, <<S("c1", "own"), S("m1", "own"), S("m2", "own"), S("m3", "alt"), S("x1", "own")>>),
  Join("j4", "c1", 4, <<S("c1", "alt")>> \o M4),
  Join("j5", "c1", 4, M4),
  Join("j6", "c1", 4, <<S("c1", "own"), S("m1", "own"), S("m1", "own"), S("m2", "own")>>),
  Join("j7", "c1", 3, <<S("c1", "own")>> \o M4),
  Join("j8", "c2", 2, <<S("c2", "own")>> \o M4),
  Join("j9", "x1", 4, <<S("x1", "own")>> \o M4),
  Join("j10", "m2", 1, <<S("m2", "own")>> \o M4),
  Join("j11", "c1", 4, <<S("c1", "own"), S("m1", "own"), S("m2", "own"), S("m3", "forged")>>),
  Join("j12", "c1", 4, <<S("c1", "own"), S("m2", "own"), S("m3", "own"), S("m4", K4), S("m1", "own")>>),
  Join("j13", "c1", 4, <<S("m1", "own"), S("m2", "own"), S("m4", K4x), S("c1", "own")>>),
  Join("jx2", "x2", 4, <<S("x2", "own")>> \o M4),
  \* candidates
  Cand("cx1", "x1", "own", <<S("x1", "own")>>),
  Cand("cx2", "x2", "own", <<S("x2", "own")>>),
  Cand("cx1b", "x1", "alt", <<S("x1", "alt")>>),
  Cand("cc2", "c2", "alt", <<S("c2", "alt")>>),
  Cand("cc1", "c1", "own", <<S("c1", "own")>>),
  Cand("cm1", "m1", "own", <<S("m1", "own")>>),
  Cand("cbad", "x2", "own", <<S("x2", "alt")>>),
  \* disjoins
  Disjoin("d2", "m2", 1, <<S("m2", "own")>>),
  Disjoin("d4", "m4", 3, <<S("m4", "own")>>),
  Disjoin("d4a", "m4", 3, <<S("m4", "alt")>>),
  Disjoin("d3", "m3", 1, <<S("m3", "own")>>),
  Disjoin("d2w", "m2", 2, <<S("m2", "own")>>),
  Disjoin("d2k", "m2", 1, <<S("m2", "alt")>>),
  Disjoin("dx1", "x1", 1, <<S("x1", "own")>>),
  Disjoin("d2f", "m2", 1, <<S("m1", "own")>>),
  Disjoin("d2b", "m2", 1, <<S("m2", "own")>>),
  \* expels (carried by the INIT voteproof, processed after the proposal's operations)
  Expel("e1", "m1", 5, 6, <<S("m2", "own"), S("m4", "own")>>),
  Expel("e2", "m2", 4, 7, <<S("m1", "own"), S("m4", "own")>>),
  Expel("e1o", "m1", 2, 4, <<S("m2", "own")>>),
  Expel("e1f", "m1", 6, 8, <<S("m2", "own")>>),
  Expel("ex1", "x1", 5, 6, <<S("m1", "own")>>),
  Expel("e1b", "m1", 5, 7, <<S("m2", "own")>>),
  \* network policy
  Pol("p2", "p2", M4),
  Pol("p0", IF World = "A" THEN "p0" ELSE "p1", <<S("m1", "own"), S("m2", "own"), S("m4", K4)>>),
  Pol("psame", IF World = "A" THEN "p1" ELSE "p0", M4),
  Pol("pkey", "p2", M3 \o <<S("m4", K4x)>>),
  Pol("pfew", "p2", <<S("m1", "own"), S("x1", "own")>>),
  \* nobody has it / already in a block
  Unknown("u1"),
  Script[2][1]
>>

CatIndex == IF CatIds = {} THEN DOMAIN Catalogue
            ELSE {i \in DOMAIN Catalogue : Catalogue[i].id \in CatIds}

----------------------------------------------------------------------------
(* the three states, as the database holds them                              *)

Mem(n, key, start) == [n |-> n, key |-> key, start |-> start]
Cnd(n, key, start, deadline) == [n |-> n, key |-> key, start |-> start, deadline |-> deadline]

GenesisState ==
  [members |-> [i \in DOMAIN Genesis |-> Mem(Genesis[i], "own", 1)],   \* GenesisHeight + 1
   sufh |-> 0, sufAt |-> 0, sufOps |-> 1,
   cands |-> <<>>, candAt |-> -1, candOps |-> 0,
   policy |-> "p0", polAt |-> 0, polOps |-> 1,
   done |-> {}]                                                         \* facts already in a state

IsMember(st, n) == \E i \in DOMAIN st.members : st.members[i].n = n
(* maps built by iterating the state's list: the last record of an address wins *)
MemberRec(st, n) == st.members[CHOOSE i \in DOMAIN st.members :
                                 /\ st.members[i].n = n
                                 /\ \A j \in DOMAIN st.members : st.members[j].n = n => j <= i]
(* isaac.LastCandidatesFromState / FilterCandidates: deadline >= height *)
AliveIdx(st, h) == {i \in DOMAIN st.cands : st.cands[i].deadline >= h}
AliveSet(st, h) == {st.cands[i].n : i \in AliveIdx(st, h)}
AliveRec(st, h, n) == st.cands[CHOOSE i \in AliveIdx(st, h) :
                                 /\ st.cands[i].n = n
                                 /\ \A j \in AliveIdx(st, h) : st.cands[j].n = n => j <= i]

(* base.CheckFactSignsBySuffrage: signatures whose (node, key) is a member's, against the *)
(* threshold; exact arithmetic (the code computes (signs/len)*100 < threshold in float64)  *)
SignCount(st, op) ==
  Cardinality({i \in DOMAIN op.signs :
                 \E j \in DOMAIN st.members :
                    st.members[j].n = op.signs[i].n /\ st.members[j].key = op.signs[i].k})
Enough(st, op) == SignCount(st, op) * 1000 >= T10 * Len(st.members)

(* IsValid of the operation (what the pool / network handler checks before it keeps it) *)
NoDup(op) == \A i, j \in DOMAIN op.signs : i # j => op.signs[i].n # op.signs[j].n
WF(op) ==
  /\ Len(op.signs) >= 1
  /\ \A i \in DOMAIN op.signs : op.signs[i].k # "forged"
  /\ NoDup(op)
  /\ CASE op.k = "join" -> \E i \in DOMAIN op.signs : op.signs[i].n = op.n
       [] op.k = "cand" -> /\ \E i \in DOMAIN op.signs : op.signs[i].n = op.n
                           /\ \A i \in DOMAIN op.signs : op.signs[i].n = op.n => op.signs[i].k = op.key
       [] op.k = "disjoin" -> Len(op.signs) = 1 /\ op.signs[1].n = op.n
       [] op.k = "expel" -> /\ \E i \in DOMAIN op.signs : op.signs[i].n # op.n
                            /\ op.s > 0 /\ op.s <= op.e
       [] OTHER -> TRUE

(* DefaultProposalProcessor.getOperation *)
Fetch(st, op) ==
  IF op.k = "unknown" \/ op.id \in st.done THEN "skip"
  ELSE IF ~WF(op) THEN "invalid operation"
  ELSE "ok"

----------------------------------------------------------------------------
(* PreProcess of the five processors; ps = what the processors remember      *)
(* within one block                                                          *)

NoPS == [preJ |-> {}, preC |-> {}, preD |-> {}, preE |-> {}, ctxE |-> <<>>, pol |-> "", lim |-> 0]
Rej(ps, r) == [ps |-> ps, r |-> r]
Pass(ps) == [ps |-> ps, r |-> ""]

FirstSignKey(op, n) == op.signs[CHOOSE i \in DOMAIN op.signs :
                                  /\ op.signs[i].n = n
                                  /\ \A j \in DOMAIN op.signs : op.signs[j].n = n => i <= j].k

PreJoin(ps, st, h, op) ==
  IF AliveSet(st, h) = {} THEN Rej(ps, "not candidate")
  ELSE IF op.n \in ps.preJ THEN Rej(ps, "already preprocessed")
  ELSE IF IsMember(st, op.n) THEN Rej(ps, "candidate already in suffrage")
  ELSE IF op.n \notin AliveSet(st, h) THEN Rej(ps, "candidate not in candidates")
  ELSE IF op.s # AliveRec(st, h, op.n).start THEN Rej(ps, "start does not match")
  ELSE IF FirstSignKey(op, op.n) # AliveRec(st, h, op.n).key THEN Rej(ps, "not signed by candidate key")
  ELSE IF ~Enough(st, op) THEN Rej(ps, "not enough signs")
  ELSE Pass([ps EXCEPT !.preJ = @ \cup {op.n}])

PreCand(ps, st, h, op) ==
  IF op.n \in ps.preC THEN Rej(ps, "candidate already preprocessed")
  ELSE IF IsMember(st, op.n) THEN Rej(ps, "candidate already in suffrage")
  ELSE LET ps1 == [ps EXCEPT !.preC = @ \cup {op.n}] IN
       IF op.n \in AliveSet(st, h) THEN Rej(ps1, "already candidate up to")
       ELSE IF ps.lim >= CandLimit THEN Rej(ps1, "reached limit")      \* launch's limiter
       ELSE Pass([ps1 EXCEPT !.lim = @ + 1])

PreDisjoin(ps, st, h, op) ==
  IF op.n \in ps.preD THEN Rej(ps, "already preprocessed")
  ELSE IF op.n \in Range(ps.ctxE) THEN Rej(ps, "already withdrew")
  ELSE IF ~IsMember(st, op.n) THEN Rej(ps, "not in suffrage")
  ELSE IF op.s # MemberRec(st, op.n).start THEN Rej(ps, "start does not match")
  ELSE IF op.signs[1].k # MemberRec(st, op.n).key THEN Rej(ps, "not signed by node key")
  ELSE Pass([ps EXCEPT !.preD = @ \cup {op.n}])

PreExpel(ps, st, h, op) ==
  IF op.s > h THEN Rej(ps, "wrong start height")
  ELSE IF op.e < h THEN Rej(ps, "expired")
  ELSE IF op.n \in ps.preE THEN Rej(ps, "already preprocessed")
  ELSE IF ~IsMember(st, op.n) THEN Rej(ps, "not in suffrage")
  ELSE Pass([ps EXCEPT !.preE = @ \cup {op.n}, !.ctxE = Append(@, op.n)])

PrePolicy(ps, st, h, op) ==
  IF ps.pol # "" THEN Rej(ps, "only one network policy operation allowed")
  ELSE IF ~Enough(st, op) THEN Rej(ps, "not enough signs")
  ELSE IF op.pol = st.policy THEN Rej(ps, "same with existing network policy")
  ELSE Pass([ps EXCEPT !.pol = op.id])

Pre(ps, st, h, op) ==
  CASE op.k = "join" -> PreJoin(ps, st, h, op)
    [] op.k = "cand" -> PreCand(ps, st, h, op)
    [] op.k = "disjoin" -> PreDisjoin(ps, st, h, op)
    [] op.k = "expel" -> PreExpel(ps, st, h, op)
    [] op.k = "policy" -> PrePolicy(ps, st, h, op)

(* Process: the merge values an operation hands to the writer, in order *)
MVal(key, t, id, n, nkey, start, deadline, pol) ==
  [key |-> key, t |-> t, id |-> id, n |-> n, nkey |-> nkey, start |-> start, deadline |-> deadline, pol |-> pol]

MV(st, h, op) ==
  CASE op.k = "join" ->
         << MVal("cand", "rem", op.id, op.n, "", 0, 0, ""),
            MVal("suf", "join", op.id, op.n, AliveRec(st, h, op.n).key, 0, 0, "") >>
    [] op.k = "cand" ->
         << MVal("cand", "add", op.id, op.n, op.key, h + 1, h + 1 + Lifespan(st.policy), "") >>
    [] op.k \in {"disjoin", "expel"} ->
         << MVal("suf", "dis", op.id, op.n, "", 0, 0, "") >>
    [] op.k = "policy" ->
         << MVal("pol", "set", op.id, "", "", 0, 0, op.pol) >>

NoMerge == [suf |-> <<>>, cand |-> <<>>, pol |-> <<>>]   \* per key: values in arrival order
Merge1(m, v) == [m EXCEPT ![v.key] = Append(@, v)]

(* sort.Slice by address; insertion sort below 12 elements, i.e. stable. Written without *)
(* RECURSIVE (TLC does not cache constants that depend on recursive operators)           *)
SortByAddr(s) ==
  LET Pos(i) == 1 + Cardinality({j \in DOMAIN s :
                       \/ Rank(s[j].n) < Rank(s[i].n)
                       \/ (Rank(s[j].n) = Rank(s[i].n) /\ j < i)})
  IN [p \in DOMAIN s |-> s[CHOOSE i \in DOMAIN s : Pos(i) = p]]

Ids(s) == {s[i].id : i \in DOMAIN s}

(* CloseStates: SuffrageJoinStateValueMerger, SuffrageCandidatesStateValueMerger, *)
(* BaseStateValueMerger (last value wins)                                         *)
Close(st, h, m, instate) ==
  LET dis == {m.suf[i].n : i \in {j \in DOMAIN m.suf : m.suf[j].t = "dis"}}
      joined == SortByAddr(SelectSeq(m.suf, LAMBDA v : v.t = "join"))
      kept == SelectSeq(st.members, LAMBDA x : x.n \notin dis)
      rems == {m.cand[i].n : i \in {j \in DOMAIN m.cand : m.cand[j].t = "rem"}}
      added == SelectSeq(m.cand, LAMBDA v : v.t = "add")
      addedN == {added[i].n : i \in DOMAIN added}
      keptC == SelectSeq(SelectSeq(st.cands, LAMBDA c : c.n \notin rems), LAMBDA c : c.n \notin addedN)
      addedS == SortByAddr(added)
      s1 == IF m.suf = <<>> THEN st
            ELSE [st EXCEPT !.members = kept \o [i \in DOMAIN joined |-> Mem(joined[i].n, joined[i].nkey, h + 1)],
                            !.sufh = @ + 1, !.sufAt = h, !.sufOps = Cardinality(Ids(m.suf))]
      s2 == IF m.cand = <<>> THEN s1
            ELSE [s1 EXCEPT !.cands = keptC \o [i \in DOMAIN addedS |->
                                                  Cnd(addedS[i].n, addedS[i].nkey, addedS[i].start, addedS[i].deadline)],
                            !.candAt = h, !.candOps = Cardinality(Ids(m.cand))]
      s3 == IF m.pol = <<>> THEN s2
            ELSE [s2 EXCEPT !.policy = m.pol[Len(m.pol)].pol, !.polAt = h, !.polOps = Cardinality(Ids(m.pol))]
  IN [s3 EXCEPT !.done = @ \cup instate]

(* proposal operations first, then the voteproof's expels; a voteproof keeps its expels   *)
(* sorted by fact hash (isaac.sortExpels). The fact hash of an expel depends on (node,     *)
(* start, end) only, so the order of the catalogue's expels is a fixed one; the harness    *)
(* reports the real order and the check refuses to judge if it differs from this one.      *)
ExpelOrder == <<"e1f", "e1", "e1b", "e1o", "ex1", "e2">>
ERank(id) == CHOOSE i \in 1..Len(ExpelOrder) : ExpelOrder[i] = id
SortExpels(s) ==
  LET Pos(i) == 1 + Cardinality({j \in DOMAIN s : ERank(s[j].id) < ERank(s[i].id)})
  IN [p \in DOMAIN s |-> s[CHOOSE i \in DOMAIN s : Pos(i) = p]]
Ordered(ops) == SelectSeq(ops, LAMBDA o : o.k # "expel") \o SortExpels(SelectSeq(ops, LAMBDA o : o.k = "expel"))

----------------------------------------------------------------------------
(* the reference: one operation after the other                              *)

StepOp(acc, st, h, op) ==      \* acc = [ps, m, res]
  LET f == Fetch(st, op) IN
  IF f # "ok" THEN [acc EXCEPT !.res = Append(@, f)]
  ELSE LET p == Pre(acc.ps, st, h, op) IN
       IF p.r # "" THEN [ps |-> p.ps, m |-> acc.m, res |-> Append(acc.res, p.r)]
       ELSE LET mv == MV(st, h, op)
                m1 == Merge1(acc.m, mv[1])
                m2 == IF Len(mv) > 1 THEN Merge1(m1, mv[2]) ELSE m1
            IN [ps |-> p.ps, m |-> m2, res |-> Append(acc.res, "in")]

(* a fold over at most six operations, unrolled: TLC re-evaluates the argument of a    *)
(* recursive definition at every use, which makes the recursive form exponential       *)
SeqRun(st, h, ops) ==
  LET n  == Len(ops)
      a0 == [ps |-> NoPS, m |-> NoMerge, res |-> <<>>]
      a1 == IF n >= 1 THEN StepOp(a0, st, h, ops[1]) ELSE a0
      a2 == IF n >= 2 THEN StepOp(a1, st, h, ops[2]) ELSE a1
      a3 == IF n >= 3 THEN StepOp(a2, st, h, ops[3]) ELSE a2
      a4 == IF n >= 4 THEN StepOp(a3, st, h, ops[4]) ELSE a3
      a5 == IF n >= 5 THEN StepOp(a4, st, h, ops[5]) ELSE a4
      a6 == IF n >= 6 THEN StepOp(a5, st, h, ops[6]) ELSE a5
  IN a6
ASSUME MaxOps <= 6

InStateIds(ops, res) == {ops[i].id : i \in {j \in DOMAIN ops : res[j] = "in"}}

SeqBlock(st, h, ops) ==
  LET o == Ordered(ops)
      a == SeqRun(st, h, o)
  IN [st |-> Close(st, h, a.m, InStateIds(o, a.res)), res |-> a.res]

(* the world: the chain before the block under test (four blocks in every world);   *)
(* one LET chain, so that TLC evaluates each block once per use of Chain            *)
Chain ==
  LET b1 == SeqBlock(GenesisState, 1, Script[1])
      b2 == SeqBlock(b1.st, 2, Script[2])
      b3 == SeqBlock(b2.st, 3, Script[3])
      b4 == SeqBlock(b3.st, 4, Script[4])
  IN [st |-> <<b1.st, b2.st, b3.st, b4.st>>, res |-> <<b1.res, b2.res, b3.res, b4.res>>]
Prior == Chain.st[4]
ASSUME Len(Script) = 4

----------------------------------------------------------------------------
(* the machine                                                               *)

VARIABLES prior,   \* the states before the block under test (never changes; a variable only because TLC
                   \* re-evaluates the constant Prior at every use)
          phase,   \* "build" -> "run" -> "closed"
          ops,     \* the block under test (after Start: proposal operations, then expels)
          w,       \* worker size
          i,       \* next operation to pre-process
          ps,      \* processors' memory
          jobs,    \* running jobs: [idx, rest (merge values still to hand over), r (result), first]
          mrg,     \* per-key mergers
          res,     \* per-operation outcome ("" = none yet)
          order,   \* history: operations in the order of their first merge
          out,     \* the states after CloseStates
          step     \* output only
vars == <<prior, phase, ops, w, i, ps, jobs, mrg, res, order, out, step>>

Proj(st) == [members |-> st.members, sufh |-> st.sufh, suf_at |-> st.sufAt, suf_ops |-> st.sufOps,
             cands |-> st.cands, cand_at |-> st.candAt, cand_ops |-> st.candOps,
             policy |-> st.policy, pol_at |-> st.polAt, pol_ops |-> st.polOps]

NoStep == [kind |-> "none"]

WorldStep == LET chain == Chain IN
             [kind |-> "world", world |-> World, genesis |-> Genesis, t10 |-> T10, h |-> H,
                     script |-> [k \in DOMAIN Script |-> [ops |-> Ordered(Script[k])]],
                     script_want |-> [k \in DOMAIN Script |-> Proj(chain.st[k])],
                     script_res |-> chain.res,
                     genesis_want |-> Proj(GenesisState),
                     catalogue |-> Catalogue]

ASSUME PrintT("WORLD " \o ToString(WorldStep))  \* read by check/props/c10.py

Init == /\ prior = Prior
        /\ phase = "build" /\ ops = <<>> /\ w = 0 /\ i = 1 /\ ps = NoPS /\ jobs = {}
        /\ mrg = NoMerge /\ res = <<>> /\ order = <<>> /\ out = Prior
        /\ step = WorldStep

AddOp(c) == /\ phase = "build" /\ Len(ops) < MaxOps
            /\ \A k \in DOMAIN ops : ops[k].id # Catalogue[c].id
            /\ ops' = Append(ops, Catalogue[c])
            /\ step' = NoStep
            /\ UNCHANGED <<prior, phase, w, i, ps, jobs, mrg, res, order, out>>

Start(wk) == /\ phase = "build" /\ Len(ops) >= 1
             /\ phase' = "run" /\ w' = wk
             /\ ops' = Ordered(ops)
             /\ res' = [k \in DOMAIN ops |-> ""]
             /\ step' = NoStep
             /\ UNCHANGED <<prior, i, ps, jobs, mrg, order, out>>

(* processOperations: the loop body for operation i; spawning a job needs a free worker *)
PreNext ==
  /\ phase = "run" /\ i <= Len(ops)
  /\ LET op == ops[i]
         f == Fetch(prior, op)
     IN IF f = "skip"
        THEN /\ res' = [res EXCEPT ![i] = "skip"] /\ UNCHANGED <<ps, jobs>>
        ELSE /\ Cardinality(jobs) < w
             /\ UNCHANGED res
             /\ IF f # "ok"
                THEN /\ jobs' = jobs \cup {[idx |-> i, rest |-> <<>>, r |-> f, first |-> FALSE]}
                     /\ UNCHANGED ps
                ELSE LET p == Pre(ps, prior, H, op) IN
                     /\ ps' = p.ps
                     /\ jobs' = jobs \cup
                          {IF p.r # "" THEN [idx |-> i, rest |-> <<>>, r |-> p.r, first |-> FALSE]
                           ELSE [idx |-> i, rest |-> MV(prior, H, op), r |-> "in", first |-> TRUE]}
  /\ i' = i + 1
  /\ step' = NoStep
  /\ UNCHANGED <<prior, phase, ops, w, mrg, order, out>>

(* Writer.SetStates -> DefaultStatesMerger.setState: one merge value into its key's merger *)
MergeStep(j) ==
  /\ phase = "run" /\ j \in jobs /\ j.rest # <<>>
  /\ mrg' = Merge1(mrg, Head(j.rest))
  /\ jobs' = (jobs \ {j}) \cup {[j EXCEPT !.rest = Tail(@), !.first = FALSE]}
  /\ order' = IF j.first THEN Append(order, j.idx) ELSE order
  /\ step' = NoStep
  /\ UNCHANGED <<prior, phase, ops, w, i, ps, res, out>>

(* Writer.SetProcessResult: the leaf of the operations tree *)
Finish(j) ==
  /\ phase = "run" /\ j \in jobs /\ j.rest = <<>>
  /\ res' = [res EXCEPT ![j.idx] = j.r]
  /\ jobs' = jobs \ {j}
  /\ step' = NoStep
  /\ UNCHANGED <<prior, phase, ops, w, i, ps, mrg, order, out>>

CaseStep == [kind |-> "case", world |-> World,
                    ops |-> [k \in DOMAIN ops |-> ops[k].id],
                    w |-> w, sched |-> [k \in DOMAIN order |-> order[k] - 1],
                    res |-> res, want |-> Proj(out')]

(* worker.Wait() returned, Writer.Manifest -> closeStateValues *)
CloseStates ==
  /\ phase = "run" /\ i > Len(ops) /\ jobs = {}
  /\ out' = Close(prior, H, mrg, InStateIds(ops, res))
  /\ phase' = "closed"
  /\ step' = CaseStep
  /\ PrintT("CASE " \o ToString(CaseStep))      \* read by check/props/c10.py
  /\ UNCHANGED <<prior, ops, w, i, ps, jobs, mrg, res, order>>

Next == \/ \E c \in CatIndex : AddOp(c)
        \/ \E wk \in Workers : Start(wk)
        \/ PreNext
        \/ \E j \in jobs : MergeStep(j) \/ Finish(j)
        \/ CloseStates

Spec == Init /\ [][Next]_vars

View == <<phase, ops, w, i, ps, jobs, mrg, res, order, out>>

----------------------------------------------------------------------------
(* properties, from the statement                                            *)

(* the same proposal over the same prior state always yields the same result: every      *)
(* terminal state equals the reference run (per-operation outcome = operations tree       *)
(* leaves by index; states by key with their operations; the suffrage state)             *)
Confluent ==
  phase = "closed" =>
     LET ref == SeqBlock(prior, H, ops) IN
     /\ res = ref.res
     /\ out = ref.st

(* an operation is never recorded twice, and only after its job ran *)
ResultsOnce == phase = "closed" => \A k \in DOMAIN res : res[k] # ""

(* bounded workers: never more jobs than the worker size *)
WorkerBound == phase = "run" => Cardinality(jobs) <= w

(* sanity of the world (makes the catalogue's intent explicit; vacuity guard) *)
WorldOK ==
  /\ Len(prior.members) = (IF World = "A" THEN 4 ELSE 3)
  /\ AliveSet(prior, H) = (IF World = "A" THEN {"c1"} ELSE {"c1", "x2"})
  /\ prior.policy = (IF World = "A" THEN "p1" ELSE "p0")
=============================================================================
