SPECIFICATION TraceSpec
CONSTANTS
  Node = {"n1", "n2", "n3", "n4"}
  Byz = {}
  T10 = 670
  MaxHeight = 40
  MaxRound = 40
CONSTRAINT HighWater
INVARIANTS NoHonestEquivocation VoteproofAgreement ChainAgreement SavedOnlyAgreed ChainLinked OneProposalPerPoint OneProposalPerMaker
PROPERTIES LastMonotone
POSTCONDITION Accepted
CHECK_DEADLOCK FALSE
