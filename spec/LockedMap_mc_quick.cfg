SPECIFICATION Spec
CONSTANTS
  NK = 2
  MaxVal = 3
INVARIANTS TypeOK ClosedIsEmpty AnswersConsistent
CHECK_DEADLOCK FALSE
