\* random behaviours for binding A (replayed on the real brokers): the retry limits of the code
SPECIFICATION Spec
CONSTANTS
  Kinds <- KindsLong
  MinChal = 2
  ReadyEndArg = 1
  MaxFail = 1
  FinishRetry = 33
  CancelRetry = 3
  MaxAsk = 2
  MaxFaults = 3
  MaxBallots = 1
  LocalCancel = TRUE
  AllowDup = TRUE
  Bias = 30
CHECK_DEADLOCK FALSE
