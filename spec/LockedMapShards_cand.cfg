SPECIFICATION ShardSpec
CONSTANTS
  NK = 2
  MaxVal = 9
  NG = 2
  NSlots = 2
  MaxOps = 1
  Modes = {"blind"}
  Forced = FALSE
  OpSet <- OpsCore
INVARIANTS ShardTypeOK Refines ContentAgrees OrphanEmpty LenAtRest
CHECK_DEADLOCK FALSE
