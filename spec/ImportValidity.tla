--------------------------- MODULE ImportValidity ---------------------------
(* C16 - imported blocks are consistent with their manifest.                  *)
(*                                                                            *)
(* A block is a record of items with ideal hashes (the hash of a thing is the *)
(* thing). The statement is written as seven relations between the items and  *)
(* the manifest (R1..R7, Storable). Tamper actions change items of an honest  *)
(* block the way a sync source could: the manifest (agreed by consensus) is   *)
(* kept, item checksums are re-computed and the map is signed again, unless   *)
(* the action is about exactly that.                                          *)
(*                                                                            *)
(* Next to the statement: a transcription of what isaac/block/importer.go     *)
(* checks while the items arrive in some order (WriteItem per item, Save) and *)
(* of what isaac/block/validator.go IsValidBlockFromLocalFS checks. TLC       *)
(* compares them: StoredOnlyIfStorable / StoredOnlyIfValidatorAccepts fail on *)
(* the transcription - candidates, reproduced on the real BlockImporter by    *)
(* check/props/c16.py (binding A: every terminal state = block shape, tamper  *)
(* actions, arrival order, is rebuilt from a real block of C10's pipeline by  *)
(* the real LocalFSWriter and fed to the real importer).                      *)
(*                                                                            *)
(* The two voteproofs of a block are two items of their own right: each has   *)
(* its point (height, round), and a sync source can replace either of them,   *)
(* alone, by a genuine voteproof of another height or round (ivp_.., avp_..). *)
(* R4 speaks about each of them. What a relation says is evaluated on what    *)
(* the importer stored (Facts(b) = what the harness reads back from the       *)
(* stored files: points of both voteproofs relative to the manifest, ...),    *)
(* never through the repository's validator alone: the importer and the       *)
(* validator share base.IsValidVoteproofsWithManifest.                        *)
EXTENDS Integers, Sequences, FiniteSets, TLC

CONSTANTS Shapes,       \* block shapes that are imported
          MaxTampers,   \* tamper actions per block
          TamperSet,    \* tamper actions used
          AllOrders,    \* TRUE: the items arrive in every order
          OrderSet      \* otherwise: in these orders (sequences of all six item types)

OrderFwd == <<"proposal", "operations", "operations_tree", "states", "states_tree", "voteproofs">>
OrderRev == <<"voteproofs", "states_tree", "states", "operations_tree", "operations", "proposal">>
OrderMix == <<"states", "voteproofs", "operations_tree", "proposal", "states_tree", "operations">>
OrdersOne == {OrderMix}
OrdersQuick == {OrderFwd, OrderRev}
OrdersThorough == {OrderFwd, OrderRev, OrderMix}

Items == {"proposal", "operations", "operations_tree", "states", "states_tree", "voteproofs"}
H == 5

(* ---- honest blocks ------------------------------------------------------ *)
Leaf(id, in) == [id |-> id, in |-> in]
St(key, val, h) == [key |-> key, val |-> val, h |-> h]
(* the hash of a state covers its key and value (previous, operations), NOT its height:     *)
(* base.BaseState.generateHash                                                              *)
Hs(s) == [key |-> s.key, val |-> s.val]
HsSeq(ss) == [k \in DOMAIN ss |-> Hs(ss[k])]

Honest(shape) ==
  LET tree == CASE shape = "full" -> <<Leaf("a", TRUE), Leaf("b", TRUE), Leaf("c", TRUE)>>
                [] shape = "cand" -> <<Leaf("a", TRUE)>>
                [] shape = "rejected" -> <<Leaf("a", TRUE), Leaf("r", FALSE)>>
                [] shape = "empty" -> <<>>
      file == SelectSeq(tree, LAMBDA l : l.in)
      sts  == CASE shape \in {"full", "rejected"} -> <<St("suffrage", "S1", H), St("candidates", "C1", H)>>
                [] shape = "cand" -> <<St("candidates", "C1", H)>>
                [] shape = "empty" -> <<>>
  IN [shape |-> shape,
      opsFile |-> [k \in DOMAIN file |-> file[k].id],
      opsTree |-> tree,
      sts |-> sts,
      stsTree |-> HsSeq(sts),                   \* leaves = hashes of the states
      prop |-> [fact |-> "P", h |-> H],
      ivp |-> [h |-> H, r |-> 0],
      avp |-> [h |-> H, r |-> 0, nb |-> "M", maj |-> TRUE],
      man |-> [h |-> H, opsRoot |-> tree, stsRoot |-> HsSeq(sts), prop |-> "P", hash |-> "M"],
      stale |-> {},                             \* items whose checksum in the map is not the item's
      signed |-> TRUE]

Range(s) == {s[k] : k \in DOMAIN s}
NoDupSeq(s) == \A a, b \in DOMAIN s : a # b => s[a] # s[b]

(* which items the map lists (LocalFSWriter: operations only if there are any) *)
Listed(b) == {"proposal", "voteproofs"}
               \cup (IF b.opsFile # <<>> THEN {"operations"} ELSE {})
               \cup (IF b.opsTree # <<>> THEN {"operations_tree"} ELSE {})
               \cup (IF b.stsTree # <<>> THEN {"states", "states_tree"} ELSE {})

(* ---- the statement ------------------------------------------------------ *)
(* R1 the operations that come with the block are the ones the tree holds as processed    *)
(*    into a state, once each, and the tree is the manifest's                             *)
R1(b) == /\ NoDupSeq(b.opsFile)
         /\ Range(b.opsFile) = {l.id : l \in {x \in Range(b.opsTree) : x.in}}
         /\ b.opsTree = b.man.opsRoot
(* R2 the states are the leaves of the states tree, are of the manifest's height, and the  *)
(*    tree is the manifest's                                                              *)
R2(b) == /\ NoDupSeq(b.sts)
         /\ NoDupSeq(HsSeq(b.sts))
         /\ Range(HsSeq(b.sts)) = Range(b.stsTree)
         /\ \A s \in Range(b.sts) : s.h = b.man.h
         /\ b.stsTree = b.man.stsRoot
R3(b) == b.prop.fact = b.man.prop /\ b.prop.h = b.man.h
(* R4 both voteproofs are of the manifest's height and of one and the same round            *)
R4(b) == b.ivp.h = b.man.h /\ b.avp.h = b.man.h /\ b.ivp.r = b.avp.r
R5(b) == b.avp.maj /\ b.avp.nb = b.man.hash
R6(b) == b.stale \cap Listed(b) = {}
R7(b) == b.signed
Broken(b) == {k \in 1..7 : ~(CASE k = 1 -> R1(b) [] k = 2 -> R2(b) [] k = 3 -> R3(b) [] k = 4 -> R4(b)
                              [] k = 5 -> R5(b) [] k = 6 -> R6(b) [] k = 7 -> R7(b))}
Storable(b) == Broken(b) = {}

(* ---- tamper actions ------------------------------------------------------ *)
ForgedSuf == St("suffrage", "S1+attacker", H)
ExtraPol == St("policy", "attacker's", H)

Applicable(b, t) ==
  CASE t \in {"ops_drop", "ops_dup", "ops_alter", "ops_item_dropped"} -> b.opsFile # <<>>
    [] t \in {"ops_extra", "ops_foreign_tree"} -> b.opsTree # <<>>
    [] t \in {"sts_missing", "sts_height", "sts_foreign_tree"} -> b.sts # <<>>
    [] t = "sts_extra" -> b.stsTree # <<>> /\ ExtraPol \notin Range(b.sts)
    [] t = "sts_alter" -> \E k \in DOMAIN b.sts : b.sts[k].key = "suffrage" /\ b.sts[k] # ForgedSuf
    \* one voteproof replaced: the INIT voteproof first (canonical order), each coordinate once
    [] t \in {"ivp_prev", "ivp_next"} -> b.ivp.h = H /\ b.avp = Honest(b.shape).avp
    [] t = "ivp_round" -> b.ivp.r = 0 /\ b.avp = Honest(b.shape).avp
    [] t \in {"avp_prev", "avp_next"} -> b.avp.h = H
    [] t = "vps_other_block" -> b.ivp.h = H /\ b.avp.h = H
    [] OTHER -> TRUE

Tamper(b, t) ==
  CASE t = "ops_drop" -> [b EXCEPT !.opsFile = SubSeq(@, 1, Len(@) - 1)]
    [] t = "ops_dup" -> [b EXCEPT !.opsFile = Append(@, @[1])]
    [] t = "ops_alter" -> [b EXCEPT !.opsFile = [@ EXCEPT ![Len(@)] = "x"]]
    [] t = "ops_extra" -> [b EXCEPT !.opsFile = Append(@, "x")]
    [] t = "ops_foreign_tree" -> [b EXCEPT !.opsTree = [k \in DOMAIN @ |-> Leaf("f", TRUE)]]
    [] t = "ops_item_dropped" -> [b EXCEPT !.opsFile = <<>>]
    [] t = "sts_missing" -> [b EXCEPT !.sts = SubSeq(@, 1, Len(@) - 1)]   \* never the suffrage state first
    [] t = "sts_extra" -> [b EXCEPT !.sts = Append(@, ExtraPol)]
    [] t = "sts_alter" -> [b EXCEPT !.sts = [k \in DOMAIN @ |-> IF @[k].key = "suffrage" THEN ForgedSuf ELSE @[k]]]
    [] t = "sts_foreign_tree" ->                 \* a tree of the states that are sent
         [b EXCEPT !.stsTree = IF HsSeq(b.sts) # b.man.stsRoot THEN HsSeq(b.sts) ELSE HsSeq(Append(b.sts, ExtraPol))]
    [] t = "sts_height" ->                       \* (the tree of its hashes is the same tree)
         [b EXCEPT !.sts = [@ EXCEPT ![Len(@)] = [@ EXCEPT !.h = H - 1]]]
    [] t = "proposal_other" -> [b EXCEPT !.prop.fact = "Q"]
    [] t = "proposal_height" -> [b EXCEPT !.prop.h = H + 1, !.prop.fact = "P+1"]   \* (the point is part of the fact)
    [] t = "vps_other_block" -> [b EXCEPT !.ivp.h = H - 1, !.avp.h = H - 1, !.avp.nb = "M-1"]
    [] t = "vps_other_round" -> [b EXCEPT !.avp.r = 1]          \* the ACCEPT voteproof alone, another round
    \* one of the two voteproofs alone is a genuine voteproof of the block below / above, or of another round
    [] t = "ivp_prev" -> [b EXCEPT !.ivp.h = H - 1]
    [] t = "ivp_next" -> [b EXCEPT !.ivp.h = H + 1]
    [] t = "ivp_round" -> [b EXCEPT !.ivp.r = 1]
    [] t = "avp_prev" -> [b EXCEPT !.avp.h = H - 1, !.avp.nb = "M-1"]
    [] t = "avp_next" -> [b EXCEPT !.avp.h = H + 1, !.avp.nb = "M+1"]
    [] t = "avp_other_newblock" -> [b EXCEPT !.avp.nb = "N"]
    [] t = "avp_draw" -> [b EXCEPT !.avp.maj = FALSE, !.avp.nb = ""]
    [] t = "checksum" -> [b EXCEPT !.stale = @ \cup {"proposal"}]   \* item replaced, map not updated
    [] t = "map_unsigned" -> [b EXCEPT !.signed = FALSE]

(* the relation a tamper action is aimed at *)
Aim(t) == CASE t \in {"ops_drop", "ops_dup", "ops_alter", "ops_extra", "ops_foreign_tree", "ops_item_dropped"} -> 1
            [] t \in {"sts_missing", "sts_extra", "sts_alter", "sts_foreign_tree", "sts_height"} -> 2
            [] t \in {"proposal_other", "proposal_height"} -> 3
            [] t \in {"vps_other_block", "vps_other_round", "ivp_prev", "ivp_next", "ivp_round", "avp_prev", "avp_next"} -> 4
            [] t \in {"avp_other_newblock", "avp_draw"} -> 5
            [] t = "checksum" -> 6
            [] t = "map_unsigned" -> 7

(* ---- what importer.go checks -------------------------------------------- *)
(* the map is validated by whoever fetched it (R7); per item: the checksum of what arrived  *)
(* against the map; operations and states each IsValid on its own (all generated ones are);  *)
(* voteproofs IsValid + IsValidVoteproofsWithManifest (heights, same point)                 *)
ItemOK(b, it) ==
  /\ it \notin b.stale
  /\ it = "states" => b.sts # <<>>             \* a states file without any state has no header: not decodable
  /\ it = "voteproofs" => (b.ivp.h = b.man.h /\ b.avp.h = b.man.h /\ b.ivp.r = b.avp.r)
(* Save: all listed items arrived; the suffrage proof must be makeable from what arrived *)
SaveOK(b) ==
  \A s \in Range(b.sts) : s.key = "suffrage" => Hs(s) \in Range(b.stsTree)
ImporterStores(b) == b.signed /\ (\A it \in Listed(b) : ItemOK(b, it)) /\ SaveOK(b)

(* ---- what IsValidBlockFromLocalFS checks -------------------------------- *)
ValidatorAccepts(b) ==
  /\ b.signed
  /\ b.prop.h = b.man.h /\ b.prop.fact = b.man.prop
  /\ (b.opsTree = <<>> => b.opsFile = <<>>)
  /\ (b.opsTree # <<>> =>                       \* base.IsValidOperationsTreeWithManifest
        /\ NoDupSeq(b.opsFile)
        /\ \A l \in Range(b.opsTree) : l.in => l.id \in Range(b.opsFile)   \* leaves processed into a state
        /\ Cardinality({k \in DOMAIN b.opsTree : b.opsTree[k].in}) = Len(b.opsFile)   \* "number does not match"
        /\ b.opsTree = b.man.opsRoot)
  /\ Len(b.stsTree) = Len(b.sts)
  /\ (b.sts # <<>> =>
        /\ NoDupSeq(b.sts)
        /\ NoDupSeq(HsSeq(b.sts))
        /\ \A l \in Range(b.stsTree) : \E x \in Range(b.sts) : Hs(x) = l /\ x.h = b.man.h
        /\ b.stsTree = b.man.stsRoot)
  /\ b.ivp.h = b.man.h /\ b.avp.h = b.man.h /\ b.ivp.r = b.avp.r

(* ---- the machine: tamper, then the items arrive --------------------------- *)
VARIABLES b,        \* the block offered by the source
          tampers,  \* tamper actions applied
          phase,    \* "tamper" -> "import" -> "done"
          arrived,  \* items handed to the importer so far, in order
          failed,   \* an item was refused
          stored,
          step
vars == <<b, tampers, phase, arrived, failed, stored, step>>

NoStep == [kind |-> "none"]

Init == /\ \E s \in Shapes : b = Honest(s)
        /\ tampers = <<>> /\ phase = "tamper" /\ arrived = <<>> /\ failed = FALSE /\ stored = FALSE
        /\ step = NoStep

DoTamper(t) ==
  /\ phase = "tamper" /\ Len(tampers) < MaxTampers
  /\ t \notin Range(tampers) /\ Applicable(b, t)
  /\ b' = Tamper(b, t)
  /\ tampers' = Append(tampers, t)
  /\ UNCHANGED <<phase, arrived, failed, stored, step>>

Offer ==
  /\ phase = "tamper" /\ phase' = "import"
  /\ UNCHANGED <<b, tampers, arrived, failed, stored, step>>

OrderAllowed(seq) ==
  AllOrders \/ \E o \in OrderSet :
                  LET f == SelectSeq(o, LAMBDA x : x \in Listed(b))
                  IN Len(seq) <= Len(f) /\ seq = SubSeq(f, 1, Len(seq))

(* BlockImporter.WriteItem *)
WriteItem(it) ==
  /\ phase = "import" /\ it \in Listed(b) /\ it \notin Range(arrived)
  /\ OrderAllowed(Append(arrived, it))
  /\ arrived' = Append(arrived, it)
  /\ failed' = (failed \/ ~ItemOK(b, it))
  /\ UNCHANGED <<b, tampers, phase, stored, step>>

(* what can be read back from the files of a block, relative to its manifest: the harness     *)
(* reads the same record from the tampered source (must be equal: the binding is sound) and    *)
(* from what the importer stored (the relations are then evaluated on it by RelFacts)          *)
Facts(x) == [ivp |-> <<x.ivp.h - x.man.h, x.ivp.r>>, avp |-> <<x.avp.h - x.man.h, x.avp.r>>,
             maj |-> x.avp.maj, nbm |-> x.avp.nb = x.man.hash,
             propm |-> x.prop.fact = x.man.prop, proph |-> x.prop.h - x.man.h,
             opsroot |-> x.opsTree = x.man.opsRoot, stsroot |-> x.stsTree = x.man.stsRoot,
             stale |-> x.stale \cap Listed(x), signed |-> x.signed]
(* R3..R7 (and the root clauses of R1, R2) as functions of such a record: transcribed in       *)
(* check/props/c16.py rel_facts(); FactsAgree says the two ways of evaluating agree            *)
RelFacts(f) == [r1root |-> f.opsroot, r2root |-> f.stsroot,
                r3 |-> f.propm /\ f.proph = 0,
                r4 |-> f.ivp[1] = 0 /\ f.avp[1] = 0 /\ f.ivp[2] = f.avp[2],
                r5 |-> f.maj /\ f.nbm, r6 |-> f.stale = {}, r7 |-> f.signed]

CaseStep == [kind |-> "case", shape |-> b.shape, tampers |-> tampers, order |-> arrived,
             broken |-> Broken(b), storable |-> Storable(b), facts |-> Facts(b),
             importer |-> stored', validator |-> ValidatorAccepts(b)]

(* BlockImporter.Save (ImportBlocks cancels instead when an item failed or the map is invalid) *)
Finish ==
  /\ phase = "import" /\ Range(arrived) = Listed(b)
  /\ stored' = (b.signed /\ ~failed /\ SaveOK(b))
  /\ phase' = "done"
  /\ step' = CaseStep
  /\ PrintT("CASE " \o ToString(CaseStep))
  /\ UNCHANGED <<b, tampers, arrived, failed>>

Next == (\E t \in TamperSet : DoTamper(t)) \/ Offer \/ (\E it \in Items : WriteItem(it)) \/ Finish
Spec == Init /\ [][Next]_vars
View == <<b, tampers, phase, arrived, failed, stored>>

(* ---- properties --------------------------------------------------------- *)
(* the statement *)
StoredOnlyIfStorable == (phase = "done" /\ stored) => Storable(b)
StoredOnlyIfValidatorAccepts == (phase = "done" /\ stored) => ValidatorAccepts(b)

(* sanity of the model: honest blocks are storable; every tamper action breaks the relation *)
(* it aims at and, apart from the two that are about them, keeps checksums and signature     *)
HonestStorable == tampers = <<>> => Storable(b)
TampersBreak == Len(tampers) = 1 => Aim(tampers[1]) \in Broken(b)   \* (a second action may undo the first)
ChecksumsKept == (\A k \in DOMAIN tampers : tampers[k] \notin {"checksum", "map_unsigned"}) => (R6(b) /\ R7(b))
(* the relations evaluated on the read-back record are the relations *)
FactsAgree == LET r == RelFacts(Facts(b)) IN
  /\ r.r3 = R3(b) /\ r.r4 = R4(b) /\ r.r5 = R5(b) /\ r.r6 = R6(b) /\ r.r7 = R7(b)
  /\ (R1(b) => r.r1root) /\ (R2(b) => r.r2root)
(* the arrival order does not matter to the importer *)
OrderIndependent == phase = "done" => (stored = ImporterStores(b))
(* what the importer does check *)
ImporterChecks == (phase = "done" /\ stored) => (R4(b) /\ R6(b) /\ R7(b))
=============================================================================
