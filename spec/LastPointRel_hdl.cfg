SPECIFICATION SpecHdl
CONSTANTS
  MaxH = 9
  MaxR = 9
  MaxSteps = 6
INVARIANT HdlChecked
CHECK_DEADLOCK FALSE
