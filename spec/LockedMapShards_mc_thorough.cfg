SPECIFICATION ShardSpec
CONSTANTS
  NK = 2
  MaxVal = 9
  NG = 2
  NSlots = 2
  MaxOps = 2
  Modes = {"locked", "dcl"}
  Forced = FALSE
  OpSet <- OpsAll
INVARIANTS ShardTypeOK Refines ContentAgrees OrphanEmpty LenAtRest
PROPERTY SlotStable
CHECK_DEADLOCK FALSE
