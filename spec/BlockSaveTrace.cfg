SPECIFICATION TraceSpec
CONSTANTS
  Props <- PropsA
  Avps <- AvpsA
  MaxOps = 0
CONSTRAINT HighWater
INVARIANTS TypeOK AgreedOnly OncePerHeight
POSTCONDITION Accepted
CHECK_DEADLOCK FALSE
