SPECIFICATION Spec
INVARIANT Checked
CHECK_DEADLOCK FALSE
