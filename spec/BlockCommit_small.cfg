SPECIFICATION Spec
CONSTANTS
  NKeysX = 14
  SufX = TRUE
  NKeysY = 5
  NKeysP = 7
  BWLimit = 128
  PermLimit = 333
  BlockMapLast = FALSE
  Keys = {"a", "b"}
  MaxLen = 4
VIEW view
INVARIANTS TypeOK Durable
CHECK_DEADLOCK FALSE
