SPECIFICATION Spec
CONSTANTS
  Addr = {"a1", "a2"}
  Node = {"n1", "n2"}
  Procs = {1, 2}
  Discipline = "free"
  Forced = TRUE
  CallOps = {"Join", "Leave", "Exists", "Get", "MembersLen", "Others", "Len"}
  MinMutators = 1
INVARIANTS EmitSched
CHECK_DEADLOCK FALSE
