SPECIFICATION Spec
CONSTANTS
  MaxHist = 3
  Repeat = FALSE
INVARIANTS HistoryIndependent
CHECK_DEADLOCK FALSE
