------------------------------ MODULE Members ------------------------------
(* C37 - the memberlist member table (network/quicmemberlist membersPool).   *)
(* Abstract state: which addresses are present and which node owns each.     *)
(* Written from the statement: present <=> joined and not yet left; per-node  *)
(* lists are exactly the present members of the node, without duplicates.     *)
EXTENDS Integers, FiniteSets, Sequences, TLC

CONSTANTS Addr, Node
None == "none"

VARIABLES present    \* Addr -> Node \cup {None}
vars == <<present>>

Init == present = [a \in Addr |-> None]

Join(a, n)  == present' = [present EXCEPT ![a] = n]
Leave(a)    == present' = [present EXCEPT ![a] = None]
Empty       == present' = [a \in Addr |-> None]

(* expected answers, functions of the abstract state alone *)
Exists(a)      == present[a] # None
Added(a)       == present[a] = None              \* result of Join: newly added?
Removed(a)     == present[a] # None              \* result of Leave
NLen           == Cardinality({a \in Addr : present[a] # None})
MembersOf(n)   == {a \in Addr : present[a] = n}
MembersLen(n)  == Cardinality(MembersOf(n))
Others(n, a)   == Cardinality(MembersOf(n) \ {a})
FoundIn(n, a)  == a \in MembersOf(n)

Next == \/ \E a \in Addr, n \in Node : Join(a, n)
        \/ \E a \in Addr : Leave(a)
        \/ Empty
Spec == Init /\ [][Next]_vars

TypeOK == present \in [Addr -> Node \cup {None}]
(* the per-node lists partition the present members *)
Partition ==
  LET S[k \in 0..Cardinality(Node)] == 0 IN
  /\ \A n1, n2 \in Node : n1 # n2 => MembersOf(n1) \cap MembersOf(n2) = {}
  /\ UNION {MembersOf(n) : n \in Node} = {a \in Addr : present[a] # None}
=============================================================================
