------------------------------ MODULE Members ------------------------------
(* C37 - the memberlist member table (network/quicmemberlist membersPool).   *)
(* Abstract state: which addresses are present and which node owns each.     *)
(* Written from the statement: present <=> joined and not yet left; per-node  *)
(* lists are exactly the present members of the node, without duplicates.     *)
(*                                                                            *)
(* Two layers:                                                                *)
(*  - the sequential table (Join/Leave/Empty, Spec): one atomic action per    *)
(*    call, the answers of the reads are functions of `present`;              *)
(*  - the table used by several goroutines at once (CSpec): a call is         *)
(*    Call(g, c) ; Lin(g) ; Ret(g) - it takes effect atomically at one        *)
(*    internal step Lin somewhere between its call and its return and its     *)
(*    answer is the sequential table's answer at that step. "Present exactly  *)
(*    when joined and not yet left" for overlapping joins and leaves means:   *)
(*    whatever the table answers, and whatever it shows after all calls       *)
(*    returned, is what SOME order of the Lin steps gives (MembersTrace.tla   *)
(*    searches that order for recorded histories; MembersPool.tla checks the  *)
(*    two-table implementation of the repository against this layer).         *)
EXTENDS Integers, FiniteSets, Sequences, TLC

CONSTANTS Addr, Node,
          Procs       \* goroutines of the concurrent layer
None == "none"

VARIABLES present,   \* Addr -> Node \cup {None}
          pend       \* Procs -> the call in progress (concurrent layer)
vars == <<present, pend>>

Idle == [st |-> "idle"]
Init == /\ present = [a \in Addr |-> None]
        /\ pend = [g \in Procs |-> Idle]

Join(a, n)  == present' = [present EXCEPT ![a] = n]
Leave(a)    == present' = [present EXCEPT ![a] = None]
Empty       == present' = [a \in Addr |-> None]

(* expected answers, functions of the abstract state alone *)
Exists(a)      == present[a] # None
Added(a)       == present[a] = None              \* result of Join: newly added?
Removed(a)     == present[a] # None              \* result of Leave
NLen           == Cardinality({a \in Addr : present[a] # None})
MembersOf(n)   == {a \in Addr : present[a] = n}
MembersLen(n)  == Cardinality(MembersOf(n))
Others(n, a)   == Cardinality(MembersOf(n) \ {a})
FoundIn(n, a)  == a \in MembersOf(n)

Next == /\ \/ \E a \in Addr, n \in Node : Join(a, n)
           \/ \E a \in Addr : Leave(a)
           \/ Empty
        /\ UNCHANGED pend
Spec == Init /\ [][Next]_vars

-----------------------------------------------------------------------------
(* the concurrent layer *)
B2N(b) == IF b THEN 1 ELSE 0
(* a call: operation, address, node ("none" where the operation has none) *)
Calls == [op : {"Join"}, addr : Addr, node : Node]
           \cup [op : {"Leave", "Exists", "Get"}, addr : Addr, node : {None}]
           \cup [op : {"MembersLen"}, addr : {None}, node : Node]
           \cup [op : {"Others"}, addr : Addr, node : Node]
           \cup [op : {"Len", "Empty"}, addr : {None}, node : {None}]
Mutator(c) == c.op \in {"Join", "Leave"}       \* (Empty: everybody has left)
(* an answer: b = added / removed / exists / found, n = node of the member found, *)
(* l = a length, o = the number of other members                                   *)
Rep(b, n, ln, o) == [b |-> b, n |-> n, l |-> ln, o |-> o]
(* the sequential table over an explicit map P (Addr -> Node \cup {None}): the answer to *)
(* call c in P and the map after c; used with P = present below, with the maps of an     *)
(* explicit order of calls in MembersPool.tla                                            *)
MembersOfIn(P, n) == {a \in Addr : P[a] = n}
AnswerIn(P, c) ==
  CASE c.op = "Join"       -> Rep(B2N(P[c.addr] = None), None, 0, 0)
    [] c.op = "Leave"      -> Rep(B2N(P[c.addr] # None), None, 0, 0)
    [] c.op = "Exists"     -> Rep(B2N(P[c.addr] # None), None, 0, 0)
    [] c.op = "Get"        -> Rep(B2N(P[c.addr] # None), P[c.addr], 0, 0)
    [] c.op = "Len"        -> Rep(0, None, Cardinality({a \in Addr : P[a] # None}), 0)
    [] c.op = "Empty"      -> Rep(0, None, 0, 0)
    [] c.op = "MembersLen" -> Rep(0, None, Cardinality(MembersOfIn(P, c.node)), 0)
    [] c.op = "Others"     -> Rep(B2N(c.addr \in MembersOfIn(P, c.node)), None,
                                  Cardinality(MembersOfIn(P, c.node)),
                                  Cardinality(MembersOfIn(P, c.node) \ {c.addr}))
AfterIn(P, c) ==
  CASE c.op = "Join"  -> [P EXCEPT ![c.addr] = c.node]
    [] c.op = "Leave" -> [P EXCEPT ![c.addr] = None]
    [] c.op = "Empty" -> [a \in Addr |-> None]
    [] OTHER          -> P
Answer(c) == AnswerIn(present, c)
Effect(c) == present' = AfterIn(present, c)
(* the two layers agree: the answers above are the answers of the sequential reads *)
AnswersAgree ==
  /\ \A a \in Addr : /\ AnswerIn(present, [op |-> "Exists", addr |-> a, node |-> None]).b = B2N(Exists(a))
                      /\ AnswerIn(present, [op |-> "Leave", addr |-> a, node |-> None]).b = B2N(Removed(a))
                      /\ \A n \in Node :
                            /\ AnswerIn(present, [op |-> "Join", addr |-> a, node |-> n]).b = B2N(Added(a))
                            /\ AnswerIn(present, [op |-> "Others", addr |-> a, node |-> n])
                                  = Rep(B2N(FoundIn(n, a)), None, MembersLen(n), Others(n, a))
  /\ \A n \in Node : AnswerIn(present, [op |-> "MembersLen", addr |-> None, node |-> n]).l = MembersLen(n)
  /\ AnswerIn(present, [op |-> "Len", addr |-> None, node |-> None]).l = NLen

Call(g, c) == /\ pend[g] = Idle
              /\ pend' = [pend EXCEPT ![g] = [st |-> "called", c |-> c]]
              /\ UNCHANGED present
Lin(g)     == /\ pend[g].st = "called"
              /\ Effect(pend[g].c)
              /\ pend' = [pend EXCEPT ![g] = [st |-> "done", c |-> pend[g].c, r |-> Answer(pend[g].c)]]
Ret(g)     == /\ pend[g].st = "done"
              /\ pend' = [pend EXCEPT ![g] = Idle]
              /\ UNCHANGED present
CNext == \E g \in Procs : \/ \E c \in Calls : Call(g, c)
                          \/ Lin(g)
                          \/ Ret(g)
CSpec == Init /\ [][CNext]_vars

-----------------------------------------------------------------------------
TypeOK == /\ present \in [Addr -> Node \cup {None}]
          /\ \A g \in Procs : \/ pend[g] = Idle
                              \/ pend[g].st \in {"called", "done"} /\ pend[g].c \in Calls
(* the per-node lists partition the present members *)
Partition ==
  /\ \A n1, n2 \in Node : n1 # n2 => MembersOf(n1) \cap MembersOf(n2) = {}
  /\ UNION {MembersOf(n) : n \in Node} = {a \in Addr : present[a] # None}
(* an answer handed out is the answer of the state its call took effect in: a join *)
(* that reports "added" found the address absent, a leave that reports "removed"   *)
(* found it present; checked on the concurrent layer as an action property         *)
AnswerAtLin == [][\A g \in Procs :
                    (pend[g].st = "called" /\ pend'[g].st = "done") =>
                       /\ pend'[g].r = Answer(pend[g].c)
                       /\ (pend[g].c.op = "Join" => present'[pend[g].c.addr] = pend[g].c.node)
                       /\ (pend[g].c.op = "Leave" => present'[pend[g].c.addr] = None)
                       /\ (pend[g].c.op = "Empty" => \A a \in Addr : present'[a] = None)]_vars
=============================================================================
