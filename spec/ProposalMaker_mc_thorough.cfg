SPECIFICATION Spec
CONSTANTS
  Pos = {"o", "n1", "n2", "f"}
  Kind <- KindA
  Caller = {"c1", "c2", "c3"}
  MaxCalls = 7
  Locked = TRUE
INVARIANTS OnePerPosition FarIsEmpty
CHECK_DEADLOCK FALSE
