-------------------------- MODULE PoolBallotsRace --------------------------
(* C24, implementation level: TempPool.SetBallot and TempPool.SetProposal are *)
(* two critical sections - the Exists check, then the write - with nothing    *)
(* that holds other callers off in between (Locked = FALSE, the pinned tree). *)
(* Two writers store different values (ballots of two signers / two sign      *)
(* facts of one proposal fact) under ONE key while a reader looks the key up. *)
(* TLC explores every interleaving; each complete one is a schedule           *)
(* (`step` = the sequence of <<process, action>>) that harness c24 forces on  *)
(* the real pool through the verif gate between check and write.              *)
(* Locked = TRUE: check and write of one caller exclude the other caller      *)
(* (a lock around them) - then the properties hold.                           *)
(* Properties, from the statement (first writer wins, answer unchanged):      *)
(*   OneWinner  - at most one of the two stores reports "stored";             *)
(*   StableRead - once the reader has seen a value it never sees another.     *)
EXTENDS Integers, Sequences, TLC, Json

CONSTANTS Locked,     \* BOOLEAN
          MaxReads

Writers == {1, 2}
VARIABLES store,   \* 0 = empty, else the writer whose value is kept
          pc,      \* [Writers -> "start" | "checked" | "done"]
          ret,     \* [Writers -> -1 (running) | 0 (false) | 1 (true)]
          reads,   \* values the reader saw, in order
          sched, step
vars == <<store, pc, ret, reads, sched, step>>

Init == /\ store = 0
        /\ pc = [w \in Writers |-> "start"]
        /\ ret = [w \in Writers |-> -1]
        /\ reads = <<>>
        /\ sched = <<>>
        /\ step = ToJson(<<>>)

Note(p, a) == /\ sched' = Append(sched, <<p, a>>)
              /\ step' = ToJson(sched')

(* pst.Exists(key): found -> return false; else go on to the write *)
Check(w) == /\ pc[w] = "start"
            /\ Locked => \A o \in Writers : pc[o] # "checked"
            /\ IF store # 0
               THEN pc' = [pc EXCEPT ![w] = "done"] /\ ret' = [ret EXCEPT ![w] = 0]
               ELSE pc' = [pc EXCEPT ![w] = "checked"] /\ UNCHANGED ret
            /\ UNCHANGED <<store, reads>>
            /\ Note(w, "check")
(* pst.Put / pst.Batch: return true *)
Put(w) == /\ pc[w] = "checked"
          /\ store' = w
          /\ pc' = [pc EXCEPT ![w] = "done"]
          /\ ret' = [ret EXCEPT ![w] = 1]
          /\ UNCHANGED reads
          /\ Note(w, "put")
Read == /\ Len(reads) < MaxReads
        /\ reads' = Append(reads, store)
        /\ UNCHANGED <<store, pc, ret>>
        /\ Note(0, "read")

Next == (\E w \in Writers : Check(w) \/ Put(w)) \/ Read
Spec == Init /\ [][Next]_vars

Done == \A w \in Writers : pc[w] = "done"
OneWinner == ~(ret[1] = 1 /\ ret[2] = 1)
StableRead == \A i, j \in 1..Len(reads) : (i < j /\ reads[i] # 0) => reads[j] = reads[i]
=============================================================================
