SPECIFICATION Spec
CONSTANTS
  TypeMaxLen = 6
  Versions <- VersionsDef
  JunkMaxLen = 4
VIEW view
INVARIANTS TypeOK VersionsArePrinted PrintedUnambiguous LenientAmbiguousOnlyWithMarker FirstMatchRightIffNoMarker
CHECK_DEADLOCK FALSE
