SPECIFICATION Spec
CONSTANTS
  Keys = {"a"}
  MaxLen = 4
  MaxWrites = 4
  MaxSteps = 1000
  MaxPool = 0
  KeepPath = FALSE
  EmitStep = FALSE
  WithReopen = FALSE
  WithCenter = TRUE
  Repaired = TRUE
  Contents = {{}, {"a"}}
  SizeClasses = {"s"}
  MaxBig = 0
  WriteLimit = 128
  MergeLimit = 333
  CacheChoices = {TRUE, FALSE}
  ReadOptional = TRUE
  Purge = FALSE
VIEW view
INVARIANTS ImplStateAgrees
PROPERTIES MemoryInvisible
CHECK_DEADLOCK FALSE
