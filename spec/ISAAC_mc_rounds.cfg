SPECIFICATION Spec
CONSTANTS
  Node = {"n1", "n2"}
  Byz = {}
  T10 = 670
  MaxHeight = 1
  MaxRound = 1
INVARIANTS TypeOK NoHonestEquivocation VoteproofAgreement ChainAgreement SavedOnlyAgreed ChainLinked OneProposalPerPoint
PROPERTIES LastMonotone BoxLastMonotone
CHECK_DEADLOCK FALSE
