SPECIFICATION TraceSpec
CONSTANTS
  Node0 = {"n0"}
  Local0 = "n0"
  T100 = 670
  EmitStep = FALSE
  Heights = {1}
  Rounds = {0}
  Stages = {1, 3}
  Facts = {"A"}
  ExSets = {{}}
  AllowSC = FALSE
  MaxId = 1
  MaxVotes = 0
  MaxChan = 0
  MaxSet = 0
  StoreSC = "sf-"
  CleanSC = "sf-"
  CountRule = "sound"
  EagerCount = FALSE
  Holds = FALSE
  MaxTick = 0
  TickGuard = "impl"
CONSTRAINT HighWater
POSTCONDITION Accepted
CHECK_DEADLOCK FALSE
