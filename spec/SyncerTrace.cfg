SPECIFICATION TraceSpec
CONSTANTS
  L0 = 0
  MaxH = 64
  Batch = 2
  AddHeights = {}
  MaxAdds = 0
  MaxFaults = 0
  MaxRetry = 0
  Repaired = FALSE
  ForkPrev = FALSE
  CanCancel = FALSE
CONSTRAINT HighWater
POSTCONDITION Accepted
CHECK_DEADLOCK FALSE
