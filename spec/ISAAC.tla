------------------------------- MODULE ISAAC -------------------------------
(***************************************************************************)
(* The node and the network: ISAAC voting consensus of spikeekips/mitum as *)
(* the state handlers run it (isaac/states: consensus.go,                  *)
(* voteproof_handler.go, base_ballot_handler.go, ballotbox.go, syncing.go, *)
(* joining.go; isaac/proposal_processors.go, proposal_selector.go,         *)
(* proposal_maker.go).  This is the module in which the per-subsystem      *)
(* properties are composed:                                                *)
(*   C01/C02 tally and required count   (MajFacts / IsDraw, Req)           *)
(*   C03 agreement of voteproofs        (VoteproofAgreement)               *)
(*   C04 ballot box emits sound voteproofs (Count: guard = tally of the    *)
(*       ballots accepted for exactly that stage point)                    *)
(*   C06 monotone progress              (LastMonotone, BoxLastMonotone)    *)
(*   C07 one proposer per point, the same at every node (Proposer)         *)
(*   C08 no honest equivocation         (NoHonestEquivocation)             *)
(*   C10 deterministic block production (Blk is a function)                *)
(*   C11 save only the agreed manifest, once per height (React, ACCEPT     *)
(*       branch; SavedOnlyAgreed)                                          *)
(*   C38 one proposal per maker and position (OneProposalPerMaker)         *)
(* and chain agreement between honest nodes follows (ChainAgreement).      *)
(*                                                                         *)
(* One action per step the code makes visible:                             *)
(*   MakeProposal / MakeFallbackProposal   ProposalMaker (the selector     *)
(*       falls back to other nodes when the proposer does not answer)      *)
(*   SendINIT        prepareNextBlockBallot / prepareNextRoundBallot       *)
(*   Receive         Ballotbox.Vote: the ballot is accepted by the box;    *)
(*                   the voteproof it carries is emitted if it is new      *)
(*   Count           Ballotbox.countVoterecords: a stage point is tallied, *)
(*                   the box moves ITS last point and queues the voteproof *)
(*   Handle          States.newVoteproof -> current handler: moves the     *)
(*                   handler's last voteproofs and reacts (process the     *)
(*                   proposal and broadcast ACCEPT / intended not-processed*)
(*                   ACCEPT / save / next round / move to syncing)         *)
(*   SyncBlock, SyncDone   syncing handler + syncer                        *)
(*   SendByz         Byzantine members broadcast anything                  *)
(* The ballot box's last point (blast) and the handler's last voteproofs   *)
(* (last) are two objects in the code and two variables here; voteproofs   *)
(* travel from the first to the second through a queue (vpq).  A voteproof *)
(* reaches a node only by being counted by its own box or inside a ballot  *)
(* its box accepts (a ballot that is not new is dropped with what it       *)
(* carries).                                                               *)
(*                                                                         *)
(* Bound to the code by trace validation of an in-process network of real  *)
(* isaacstates.States (ISAACTrace.tla, harness/internal/isaacnet).  The    *)
(* history of this module's corrections against real traces is in          *)
(* check/isaac.md.                                                         *)
(***************************************************************************)
EXTENDS Integers, FiniteSets, Sequences, TLC

CONSTANTS Node,        \* suffrage (fixed in this module; expels: Agreement.tla / ISAACExpel)
          Byz,         \* Byzantine nodes, subset of Node
          T10,         \* threshold * 10
          MaxHeight,   \* heights 1..MaxHeight are decided
          MaxRound     \* rounds 0..MaxRound

Honest == Node \ Byz
N == Cardinality(Node)
Req(n, tt) == (n * tt + 999) \div 1000
Th == Req(N, T10)
F == (N * 1000 - N * T10) \div 1000        \* tolerated faulty nodes, floor(n - n*t/100)

Genesis == <<0>>
NotProcessed == <<-1>>
Height == 1..MaxHeight
Round == 0..MaxRound

(* proposer of a point: deterministic, the same at every node (C07) *)
NodeSeq == CHOOSE s \in [1..N -> Node] : \A a, b \in 1..N : a # b => s[a] # s[b]
Idx(n) == CHOOSE k \in 1..N : NodeSeq[k] = n
Proposer(h, r) == NodeSeq[((h + r) % N) + 1]

(* a proposal is the tuple <<height, round, variant>>: variant 0 is the proposal of the  *)
(* proposer of the point, 1 a second one by a Byzantine proposer, 10+k the fallback      *)
(* proposal made by node k when the proposer did not answer (proposal_selector.go)       *)
FallbackV(n) == 10 + Idx(n)
(* C10: the block produced from a proposal on top of a previous block is a function *)
Blk(prop, prev) == <<prop[1], prop[2], prop[3], prev>>

INIT == "INIT"
ACCEPT == "ACCEPT"
NoVP == [h |-> -1, r |-> 0, s |-> INIT, res |-> "NONE", f |-> <<>>]
GenesisVP == [h |-> 0, r |-> 0, s |-> ACCEPT, res |-> "MAJORITY", f |-> <<<<0, 0, 0>>, Genesis>>]

VARIABLES
  msgs,     \* broadcast ballots [n, h, r, s, f, vp]; f = <<prev, prop>> (INIT) or <<prop, blk>> (ACCEPT);
            \* vp = the voteproof the ballot carries
  props,    \* proposals made so far
  box,      \* box[i]: ballots accepted by the ballot box of i
  blast,    \* blast[i]: last point of the ballot box of i (Ballotbox.LastPoint)
  vpq,      \* vpq[i]: voteproofs emitted by the box of i, not yet taken by the handler
  last,     \* last[i]: [h, r, s, maj] cap of the handler's last voteproofs (LastVoteproofsHandler)
  chain,    \* chain[i]: sequence of saved blocks, chain[i][h] = block of height h
  proc,     \* proc[i]: [h, r, prop, blk] processed proposal not yet saved, or <<>> (ProposalProcessors)
  mode,     \* "consensus" (JOINING / CONSENSUS) | "syncing"
  vps       \* history: every voteproof formed anywhere [h, r, s, res, f]
vars == <<msgs, props, box, blast, vpq, last, chain, proc, mode, vps>>

HeadOf(i) == IF Len(chain[i]) = 0 THEN Genesis ELSE chain[i][Len(chain[i])]
BlockAt(i, h) == IF h = 0 THEN Genesis ELSE chain[i][h]

Zero == [h |-> 0, r |-> 0, s |-> ACCEPT, maj |-> TRUE]   \* "genesis ACCEPT majority"

StageOrd(s) == IF s = INIT THEN 0 ELSE 1
(* (h, r, s) strictly after the point p *)
After(h, r, s, p) == \/ h > p.h
                     \/ h = p.h /\ r > p.r
                     \/ h = p.h /\ r = p.r /\ StageOrd(s) > StageOrd(p.s)
(* LastPoint.Before as IsNewBallot / IsNewVoteproof use it, without the suffrage-confirm clause:  *)
(* a ballot of the stage after a non-majority INIT of the same point is old (the round is over)   *)
NewBallotAt(p, h, r, s) == /\ After(h, r, s, p)
                           /\ ~(h = p.h /\ r = p.r /\ p.s = INIT /\ ~p.maj /\ s = ACCEPT)
NewVPAt(p, vp) == \/ NewBallotAt(p, vp.h, vp.r, vp.s)
                  \/ /\ vp.h = p.h /\ vp.r = p.r /\ vp.s = p.s
                     /\ ~p.maj /\ vp.res = "MAJORITY"
PointOf(vp) == [h |-> vp.h, r |-> vp.r, s |-> vp.s, maj |-> vp.res = "MAJORITY"]

Init == /\ msgs = {} /\ props = {}
        /\ box = [i \in Node |-> {}]
        /\ blast = [i \in Node |-> Zero]
        /\ vpq = [i \in Node |-> <<>>]
        /\ last = [i \in Node |-> Zero]
        /\ chain = [i \in Node |-> <<>>]
        /\ proc = [i \in Node |-> <<>>]
        /\ mode = [i \in Node |-> "consensus"]
        /\ vps = {GenesisVP}

-----------------------------------------------------------------------------
(* proposals (ProposalMaker, C38; BaseProposalSelector) *)
MakeProposal(n, h, r, v) ==
  /\ Proposer(h, r) = n
  /\ v \in {0, 1}
  /\ <<h, r, v>> \notin props
  /\ n \in Honest => v = 0
  /\ props' = props \cup {<<h, r, v>>}
  /\ UNCHANGED <<msgs, box, blast, vpq, last, chain, proc, mode, vps>>

(* the proposer did not answer in time: the selector asks the next node, finally the local maker *)
MakeFallbackProposal(n, h, r) ==
  /\ n \in Honest /\ Proposer(h, r) # n
  /\ <<h, r, FallbackV(n)>> \notin props
  /\ props' = props \cup {<<h, r, FallbackV(n)>>}
  /\ UNCHANGED <<msgs, box, blast, vpq, last, chain, proc, mode, vps>>

Sent(n, h, r, s) == {m \in msgs : m.n = n /\ m.h = h /\ m.r = r /\ m.s = s}

(* the voteproof that justifies the position `last` of node i *)
VPAt(p) == {vp \in vps : vp.h = p.h /\ vp.r = p.r /\ vp.s = p.s /\ (vp.res = "MAJORITY") = p.maj}

(* an honest node broadcasts its INIT ballot for (h, r):                          *)
(*  round 0 after the ACCEPT majority of h-1 (nextBlock), round r+1 after a draw  *)
(*  or non-majority at round r (nextRound); the ballot carries that voteproof     *)
SendINIT(i, h, r, prop) ==
  /\ i \in Honest /\ mode[i] = "consensus"
  /\ Sent(i, h, r, INIT) = {}
  /\ h = Len(chain[i]) + 1
  /\ prop \in props /\ prop[1] = h /\ prop[2] = r
  /\ \/ r = 0 /\ last[i].h = h - 1 /\ last[i].s = ACCEPT /\ last[i].maj
     \/ r > 0 /\ last[i].h = h /\ last[i].r = r - 1 /\ ~last[i].maj
  /\ \E vp \in VPAt(last[i]) :
       msgs' = msgs \cup {[n |-> i, h |-> h, r |-> r, s |-> INIT, f |-> <<HeadOf(i), prop>>, vp |-> vp]}
  /\ UNCHANGED <<props, box, blast, vpq, last, chain, proc, mode, vps>>

(* Byzantine nodes broadcast any ballot over known proposals and blocks, carrying any voteproof *)
ByzFacts(h, r, s) ==
  LET ps == {p \in props : p[1] = h /\ p[2] = r}
      prevs == {Genesis} \cup {BlockAt(j, h - 1) : j \in {k \in Node : Len(chain[k]) >= h - 1 /\ h > 1}}
  IN IF s = INIT THEN {<<pv, p>> : pv \in prevs, p \in ps}
     ELSE {<<p, Blk(p, pv)>> : p \in ps, pv \in prevs} \cup {<<p, NotProcessed>> : p \in ps}
SendByz(b, h, r, s, f, vp) ==
  /\ b \in Byz
  /\ f \in ByzFacts(h, r, s)
  /\ vp \in vps
  /\ [n |-> b, h |-> h, r |-> r, s |-> s, f |-> f, vp |-> vp] \notin msgs
  /\ msgs' = msgs \cup {[n |-> b, h |-> h, r |-> r, s |-> s, f |-> f, vp |-> vp]}
  /\ UNCHANGED <<props, box, blast, vpq, last, chain, proc, mode, vps>>

(* Ballotbox.Vote: a ballot is accepted when its point is new for the box and the box has no  *)
(* ballot of that node for that stage point yet; the voteproof it carries is emitted when it   *)
(* is new for the box (Ballotbox.vote -> newVoteproof)                                         *)
Receive(i, m) ==
  /\ i \in Honest /\ m \in msgs
  /\ NewBallotAt(blast[i], m.h, m.r, m.s)
  /\ ~\E x \in box[i] : x.n = m.n /\ x.h = m.h /\ x.r = m.r /\ x.s = m.s
  /\ box' = [box EXCEPT ![i] = @ \cup {m}]
  /\ IF NewVPAt(blast[i], m.vp)
     THEN /\ blast' = [blast EXCEPT ![i] = PointOf(m.vp)]
          /\ vpq' = [vpq EXCEPT ![i] = Append(@, m.vp)]
     ELSE UNCHANGED <<blast, vpq>>
  /\ UNCHANGED <<msgs, props, last, chain, proc, mode, vps>>

-----------------------------------------------------------------------------
(* tally of one stage point in the box of i (Tally.tla Result, C01) *)
Votes(i, h, r, s) == {m \in box[i] : m.h = h /\ m.r = r /\ m.s = s}
FactsOf(V) == {m.f : m \in V}
CountOf(V, f) == Cardinality({m \in V : m.f = f})
MajFacts(V) == {f \in FactsOf(V) : CountOf(V, f) >= Th}
IsDraw(V) == /\ V # {} /\ MajFacts(V) = {}
             /\ \A f \in FactsOf(V) : CountOf(V, f) + (N - Cardinality(V)) < Th
             /\ N - Cardinality(V) < Th

(* Ballotbox.countVoterecords: emits the voteproof of a stage point from the ballots accepted for *)
(* it (C04), moves the box's last point and hands the voteproof to the state machine              *)
Emit(i, vp) ==
  /\ NewVPAt(blast[i], vp)
  /\ vps' = vps \cup {vp}
  /\ blast' = [blast EXCEPT ![i] = PointOf(vp)]
  /\ vpq' = [vpq EXCEPT ![i] = Append(@, vp)]
Count(i, h, r, s) ==
  /\ i \in Honest
  /\ LET V == Votes(i, h, r, s) IN
     \/ \E f \in MajFacts(V) : Emit(i, [h |-> h, r |-> r, s |-> s, res |-> "MAJORITY", f |-> f])
     \/ IsDraw(V) /\ Emit(i, [h |-> h, r |-> r, s |-> s, res |-> "DRAW", f |-> <<>>])
  /\ UNCHANGED <<msgs, props, box, last, chain, proc, mode>>

(* the handler's reaction to a new voteproof (voteproof_handler.go); ok = the proposal could be *)
(* fetched and processed (otherwise the intended wrong ACCEPT ballot: wrongACCEPTBallot)        *)
React(i, vp, ok) ==
  LET h == vp.h  r == vp.r IN
  /\ last' = [last EXCEPT ![i] = PointOf(vp)]
  /\ IF vp.res # "MAJORITY" THEN                              \* draw: nextRound (SendINIT r+1 becomes enabled)
          /\ IF h > Len(chain[i]) + 1 THEN mode' = [mode EXCEPT ![i] = "syncing"] ELSE UNCHANGED mode
          /\ UNCHANGED <<msgs, chain, proc>>
     ELSE IF vp.s = INIT THEN
          IF h > Len(chain[i]) + 1 \/ (h = Len(chain[i]) + 1 /\ vp.f[1] # HeadOf(i))
          THEN /\ mode' = [mode EXCEPT ![i] = "syncing"]     \* higher height / previous block differs
               /\ UNCHANGED <<msgs, chain, proc>>
          ELSE IF h <= Len(chain[i]) THEN UNCHANGED <<msgs, chain, proc, mode>>
          ELSE IF ok THEN \* process the proposal, broadcast the ACCEPT ballot with the computed manifest
               LET blk == Blk(vp.f[2], vp.f[1]) IN
               /\ proc' = [proc EXCEPT ![i] = [h |-> h, r |-> r, prop |-> vp.f[2], blk |-> blk]]
               /\ msgs' = IF Sent(i, h, r, ACCEPT) = {}
                          THEN msgs \cup {[n |-> i, h |-> h, r |-> r, s |-> ACCEPT, f |-> <<vp.f[2], blk>>, vp |-> vp]}
                          ELSE msgs
               /\ UNCHANGED <<chain, mode>>
          ELSE \* not processed in time: intended wrong ACCEPT ballot, nothing to save later
               /\ msgs' = IF Sent(i, h, r, ACCEPT) = {}
                          THEN msgs \cup {[n |-> i, h |-> h, r |-> r, s |-> ACCEPT, f |-> <<vp.f[2], NotProcessed>>, vp |-> vp]}
                          ELSE msgs
               /\ UNCHANGED <<chain, proc, mode>>
     ELSE \* ACCEPT majority: save only the agreed manifest (C11)
          IF /\ h = Len(chain[i]) + 1
             /\ proc[i] # <<>> /\ proc[i].h = h /\ proc[i].prop = vp.f[1] /\ proc[i].blk = vp.f[2]
          THEN /\ chain' = [chain EXCEPT ![i] = Append(@, vp.f[2])]
               /\ proc' = [proc EXCEPT ![i] = <<>>]
               /\ UNCHANGED <<msgs, mode>>
          ELSE IF h <= Len(chain[i]) THEN UNCHANGED <<msgs, chain, proc, mode>>
          ELSE /\ mode' = [mode EXCEPT ![i] = "syncing"]     \* not processed / different block / higher
               /\ proc' = [proc EXCEPT ![i] = <<>>]
               /\ UNCHANGED <<msgs, chain>>

(* States.newVoteproof: the next emitted voteproof reaches the current handler; the handler takes *)
(* it only when it is new for its own last voteproofs (LastVoteproofsHandler.IsNew)               *)
Handle(i, ok) ==
  /\ i \in Honest /\ vpq[i] # <<>>
  /\ vpq' = [vpq EXCEPT ![i] = Tail(@)]
  /\ LET vp == vpq[i][1] IN
     IF mode[i] = "consensus" /\ NewVPAt(last[i], vp)
     THEN React(i, vp, ok)
     ELSE ok /\ UNCHANGED <<msgs, last, chain, proc, mode>>
  /\ UNCHANGED <<props, box, blast, vps>>

(* syncing handler: import the next block for which an ACCEPT majority exists;   *)
(* back to consensus (joining) when nothing is left to import                     *)
SyncBlock(i) ==
  /\ i \in Honest /\ mode[i] = "syncing"
  /\ \E vp \in vps :
       /\ vp.s = ACCEPT /\ vp.res = "MAJORITY" /\ vp.h = Len(chain[i]) + 1
       /\ vp.f[2] # NotProcessed
       /\ vp.f[2][4] = HeadOf(i)
       /\ chain' = [chain EXCEPT ![i] = Append(@, vp.f[2])]
       /\ last' = [last EXCEPT ![i] = IF NewVPAt(@, vp) THEN PointOf(vp) ELSE @]
       /\ blast' = [blast EXCEPT ![i] = IF NewVPAt(@, vp) THEN PointOf(vp) ELSE @]   \* SetLastPointFromVoteproof
  /\ proc' = [proc EXCEPT ![i] = <<>>]
  /\ UNCHANGED <<msgs, props, box, vpq, mode, vps>>
SyncDone(i) ==
  /\ i \in Honest /\ mode[i] = "syncing"
  /\ ~\E vp \in vps : vp.s = ACCEPT /\ vp.res = "MAJORITY" /\ vp.h = Len(chain[i]) + 1 /\ vp.f[2] # NotProcessed
  /\ last[i].h <= Len(chain[i])                      \* joining: waits for a voteproof of the next height
  /\ mode' = [mode EXCEPT ![i] = "consensus"]
  /\ UNCHANGED <<msgs, props, box, blast, vpq, last, chain, proc, vps>>

Next ==
  \/ \E n \in Node, h \in Height, r \in Round, v \in {0, 1} : MakeProposal(n, h, r, v)
  \/ \E n \in Honest, h \in Height, r \in Round : MakeFallbackProposal(n, h, r)
  \/ \E i \in Honest, h \in Height, r \in Round, p \in props : SendINIT(i, h, r, p)
  \/ \E b \in Byz, h \in Height, r \in Round, s \in {INIT, ACCEPT} :
        \E f \in ByzFacts(h, r, s), vp \in vps : SendByz(b, h, r, s, f, vp)
  \/ \E i \in Honest : \E m \in msgs : Receive(i, m)
  \/ \E i \in Honest, h \in Height, r \in Round, s \in {INIT, ACCEPT} : Count(i, h, r, s)
  \/ \E i \in Honest, ok \in BOOLEAN : Handle(i, ok)
  \/ \E i \in Honest : SyncBlock(i) \/ SyncDone(i)

(* the proposer answers and proposals are processed in time: no fallback, no not-processed ballots *)
NextTimely ==
  \/ \E n \in Node, h \in Height, r \in Round : MakeProposal(n, h, r, 0)
  \/ \E i \in Honest, h \in Height, r \in Round, p \in props : SendINIT(i, h, r, p)
  \/ \E i \in Honest : \E m \in msgs : Receive(i, m)
  \/ \E i \in Honest, h \in Height, r \in Round, s \in {INIT, ACCEPT} : Count(i, h, r, s)
  \/ \E i \in Honest : Handle(i, TRUE)
  \/ \E i \in Honest : SyncBlock(i) \/ SyncDone(i)

Fairness ==
  /\ \A n \in Node, h \in Height, r \in Round : WF_vars(MakeProposal(n, h, r, 0))
  /\ \A i \in Honest, h \in Height, r \in Round : WF_vars(\E p \in props : SendINIT(i, h, r, p))
  /\ \A i \in Honest : WF_vars(\E m \in msgs : Receive(i, m))
  /\ \A i \in Honest, h \in Height, r \in Round, s \in {INIT, ACCEPT} : WF_vars(Count(i, h, r, s))
  /\ \A i \in Honest : WF_vars(Handle(i, TRUE))
  /\ \A i \in Honest : WF_vars(SyncBlock(i)) /\ WF_vars(SyncDone(i))

Spec == Init /\ [][Next]_vars
TimelySpec == Init /\ [][NextTimely]_vars
FairSpec == TimelySpec /\ Fairness

-----------------------------------------------------------------------------
TypeOK ==
  /\ \A m \in msgs : m.n \in Node /\ m.h \in Height /\ m.r \in Round /\ m.s \in {INIT, ACCEPT}
  /\ \A i \in Node : Len(chain[i]) <= MaxHeight /\ mode[i] \in {"consensus", "syncing"}
  /\ \A i \in Node : Len(vpq[i]) <= 2 * MaxHeight * (MaxRound + 1) + 2

(* C08 *)
NoHonestEquivocation ==
  \A a, b \in msgs : (a.n \in Honest /\ a.n = b.n /\ a.h = b.h /\ a.r = b.r /\ a.s = b.s) => a.f = b.f

(* C03 (fixed suffrage, no expels): with |Byz| <= F no two majority voteproofs of one *)
(* stage point carry different facts                                                  *)
VoteproofAgreement ==
  Cardinality(Byz) <= F =>
    \A a, b \in vps : (a.res = "MAJORITY" /\ b.res = "MAJORITY" /\ a.h = b.h /\ a.r = b.r /\ a.s = b.s) => a.f = b.f

(* chain agreement between honest nodes *)
ChainAgreement ==
  Cardinality(Byz) <= F =>
    \A i, j \in Honest : \A h \in 1..MaxHeight : (h <= Len(chain[i]) /\ h <= Len(chain[j])) => chain[i][h] = chain[j][h]

(* C11: every saved block is the new block of an ACCEPT majority voteproof of its height *)
SavedOnlyAgreed ==
  \A i \in Honest : \A h \in 1..Len(chain[i]) :
     \E vp \in vps : vp.s = ACCEPT /\ vp.res = "MAJORITY" /\ vp.h = h /\ vp.f[2] = chain[i][h]
(* blocks are linked *)
ChainLinked ==
  \A i \in Honest : \A h \in 1..Len(chain[i]) : chain[i][h][4] = BlockAt(i, h - 1) /\ chain[i][h][1] = h

(* C06: neither last position ever moves back (no suffrage-confirm in this module); the height *)
(* of a chain never decreases and saved blocks are never replaced (C11)                         *)
Forward(p, q) == \/ q = p
                 \/ After(q.h, q.r, q.s, p)
                 \/ q.h = p.h /\ q.r = p.r /\ q.s = p.s /\ ~p.maj /\ q.maj
LastMonotone ==
  [][\A i \in Honest :
       /\ Forward(last[i], last'[i])
       /\ Len(chain'[i]) >= Len(chain[i])
       /\ \A h \in 1..Len(chain[i]) : chain'[i][h] = chain[i][h]]_vars
BoxLastMonotone == [][\A i \in Honest : Forward(blast[i], blast'[i])]_vars

(* C38: the proposer of a point, when honest, has one proposal for it; every honest maker has *)
(* at most one proposal per point (variant = maker)                                            *)
OneProposalPerPoint ==
  \A p, q \in props : (Proposer(p[1], p[2]) \in Honest /\ p[1] = q[1] /\ p[2] = q[2] /\ p[3] < 10 /\ q[3] < 10) => p = q

(* liveness (no Byzantine node, timely proposals, fairness): the first height is eventually   *)
(* decided everywhere                                                                          *)
Progress == Byz = {} => <>(\A i \in Node : Len(chain[i]) >= 1)
=============================================================================
