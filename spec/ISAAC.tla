------------------------------- MODULE ISAAC -------------------------------
(***************************************************************************)
(* The node and the network: ISAAC voting consensus of spikeekips/mitum as *)
(* the state handlers run it (isaac/states: consensus.go,                  *)
(* voteproof_handler.go, base_ballot_handler.go, ballotbox.go, syncing.go, *)
(* isaac/proposal_processors.go).  This is the module in which the         *)
(* per-subsystem properties are composed:                                  *)
(*   C01/C02 tally and required count   (Tally!Result, Req)                *)
(*   C03 agreement of voteproofs        (VoteproofAgreement)               *)
(*   C04 ballot box emits sound voteproofs (Count: guard = tally of the    *)
(*       accepted ballots of exactly that stage point)                     *)
(*   C06 monotone progress              (LastMonotone)                     *)
(*   C08 no honest equivocation         (NoHonestEquivocation)             *)
(*   C10 deterministic block production (Blk is a function)                *)
(*   C11 save only the agreed manifest, once per height (SaveBlock guard,  *)
(*       SavedOnlyAgreed)                                                  *)
(*   C38 one proposal per position by an honest proposer                   *)
(* and chain agreement between honest nodes follows (ChainAgreement).      *)
(*                                                                         *)
(* One action per step of the handlers: broadcasting a ballot, the ballot  *)
(* box accepting a ballot, the ballot box counting a stage point (emits a  *)
(* voteproof), the handler reacting to a new voteproof (process proposal / *)
(* save block / next round / move to syncing), the syncing handler         *)
(* importing a block.  Byzantine nodes may broadcast anything.             *)
(* Bound to the code by trace validation of an in-process network of real  *)
(* States (ISAACTrace.tla).                                                *)
(***************************************************************************)
EXTENDS Integers, FiniteSets, Sequences, TLC

CONSTANTS Node,        \* suffrage (fixed in this module; expels: ISAACExpel)
          Byz,         \* Byzantine nodes, subset of Node
          T10,         \* threshold * 10
          MaxHeight,   \* heights 1..MaxHeight are decided
          MaxRound     \* rounds 0..MaxRound

Honest == Node \ Byz
N == Cardinality(Node)
Req(n, tt) == (n * tt + 999) \div 1000
Th == Req(N, T10)
F == (N * 1000 - N * T10) \div 1000        \* tolerated faulty nodes, floor(n - n*t/100)

Genesis == <<0>>
NotProcessed == <<-1>>
Height == 1..MaxHeight
Round == 0..MaxRound

(* proposer of a point: deterministic, the same at every node (C07) *)
NodeSeq == CHOOSE s \in [1..N -> Node] : \A a, b \in 1..N : a # b => s[a] # s[b]
Proposer(h, r) == NodeSeq[((h + r) % N) + 1]

(* a proposal is identified by its point and a variant; an honest proposer makes  *)
(* exactly one (variant 0), a Byzantine proposer may make two                      *)
Proposal == [h : Height, r : Round, v : {0, 1}]
(* C10: the block produced from a proposal on top of a previous block is a function *)
Blk(prop, prev) == <<prop.h, prop.r, prop.v, prev>>

INIT == "INIT"
ACCEPT == "ACCEPT"

VARIABLES
  msgs,     \* broadcast ballots: [n, h, r, s, f]; f = <<prev, prop>> (INIT) or <<prop, blk>> (ACCEPT)
  props,    \* proposals made so far
  box,      \* box[i]: ballots accepted by the ballot box of i
  last,     \* last[i]: [h, r, s, maj] last point of i (LastPoint)
  chain,    \* chain[i]: sequence of saved blocks, chain[i][h] = block of height h
  proc,     \* proc[i]: [h, r, prop, blk] processed proposal not yet saved, or <<>> (ProposalProcessors)
  mode,     \* "consensus" | "syncing"
  vps       \* history: every voteproof formed anywhere [h, r, s, res, f]
vars == <<msgs, props, box, last, chain, proc, mode, vps>>

HeadOf(i) == IF Len(chain[i]) = 0 THEN Genesis ELSE chain[i][Len(chain[i])]
BlockAt(i, h) == IF h = 0 THEN Genesis ELSE chain[i][h]

Zero == [h |-> 0, r |-> 0, s |-> ACCEPT, maj |-> TRUE]   \* "genesis ACCEPT majority"

StageOrd(s) == IF s = INIT THEN 0 ELSE 1
(* (h, r, s) strictly after (h2, r2, s2) *)
After(h, r, s, p) == \/ h > p.h
                     \/ h = p.h /\ r > p.r
                     \/ h = p.h /\ r = p.r /\ StageOrd(s) > StageOrd(p.s)
(* LastPoint.IsNewBallot / IsNewVoteproof without the suffrage-confirm clause *)
IsNewBallot(i, h, r, s) == After(h, r, s, last[i])
IsNewVP(i, vp) == \/ After(vp.h, vp.r, vp.s, last[i])
                  \/ /\ vp.h = last[i].h /\ vp.r = last[i].r /\ vp.s = last[i].s
                     /\ ~last[i].maj /\ vp.res = "MAJORITY"

Init == /\ msgs = {} /\ props = {}
        /\ box = [i \in Node |-> {}]
        /\ last = [i \in Node |-> Zero]
        /\ chain = [i \in Node |-> <<>>]
        /\ proc = [i \in Node |-> <<>>]
        /\ mode = [i \in Node |-> "consensus"]
        /\ vps = {}

-----------------------------------------------------------------------------
(* proposals (ProposalMaker, C38) *)
MakeProposal(n, h, r, v) ==
  /\ Proposer(h, r) = n
  /\ [h |-> h, r |-> r, v |-> v] \notin props
  /\ n \in Honest => v = 0
  /\ props' = props \cup {[h |-> h, r |-> r, v |-> v]}
  /\ UNCHANGED <<msgs, box, last, chain, proc, mode, vps>>

Sent(n, h, r, s) == {m \in msgs : m.n = n /\ m.h = h /\ m.r = r /\ m.s = s}

(* an honest node broadcasts its INIT ballot for (h, r):                          *)
(*  round 0 after the ACCEPT majority of h-1 (nextBlock), round r+1 after a draw  *)
(*  or non-majority at round r (nextRound)                                        *)
SendINIT(i, h, r, prop) ==
  /\ i \in Honest /\ mode[i] = "consensus"
  /\ Sent(i, h, r, INIT) = {}
  /\ h = Len(chain[i]) + 1
  /\ prop \in props /\ prop.h = h /\ prop.r = r
  /\ \/ r = 0 /\ last[i].h = h - 1 /\ last[i].s = ACCEPT /\ last[i].maj
     \/ r > 0 /\ last[i].h = h /\ last[i].r = r - 1 /\ ~last[i].maj
  /\ msgs' = msgs \cup {[n |-> i, h |-> h, r |-> r, s |-> INIT, f |-> <<HeadOf(i), prop>>]}
  /\ UNCHANGED <<props, box, last, chain, proc, mode, vps>>

(* Byzantine nodes broadcast any ballot over known proposals and blocks *)
ByzFacts(h, r, s) ==
  LET ps == {p \in props : p.h = h /\ p.r = r}
      prevs == {Genesis} \cup {BlockAt(j, h - 1) : j \in {k \in Node : Len(chain[k]) >= h - 1 /\ h > 1}}
  IN IF s = INIT THEN {<<pv, p>> : pv \in prevs, p \in ps}
     ELSE {<<p, Blk(p, pv)>> : p \in ps, pv \in prevs} \cup {<<p, NotProcessed>> : p \in ps}
SendByz(b, h, r, s, f) ==
  /\ b \in Byz
  /\ f \in ByzFacts(h, r, s)
  /\ [n |-> b, h |-> h, r |-> r, s |-> s, f |-> f] \notin msgs
  /\ msgs' = msgs \cup {[n |-> b, h |-> h, r |-> r, s |-> s, f |-> f]}
  /\ UNCHANGED <<props, box, last, chain, proc, mode, vps>>

(* Ballotbox.Vote: a ballot is accepted when its point is new and the box has no ballot *)
(* of that node for that stage point yet                                                *)
Receive(i, m) ==
  /\ i \in Honest /\ m \in msgs
  /\ IsNewBallot(i, m.h, m.r, m.s)
  /\ ~\E x \in box[i] : x.n = m.n /\ x.h = m.h /\ x.r = m.r /\ x.s = m.s
  /\ box' = [box EXCEPT ![i] = @ \cup {m}]
  /\ UNCHANGED <<msgs, props, last, chain, proc, mode, vps>>

-----------------------------------------------------------------------------
(* tally of one stage point in the box of i (Tally.tla Result, C01) *)
Votes(i, h, r, s) == {m \in box[i] : m.h = h /\ m.r = r /\ m.s = s}
FactsOf(V) == {m.f : m \in V}
CountOf(V, f) == Cardinality({m \in V : m.f = f})
MajFacts(V) == {f \in FactsOf(V) : CountOf(V, f) >= Th}
IsDraw(V) == /\ V # {} /\ MajFacts(V) = {}
             /\ \A f \in FactsOf(V) : CountOf(V, f) + (N - Cardinality(V)) < Th
             /\ N - Cardinality(V) < Th

(* the handler's reaction to a new voteproof (voteproof_handler.go) *)
React(i, vp) ==
  LET h == vp.h  r == vp.r IN
  /\ last' = [last EXCEPT ![i] = [h |-> h, r |-> r, s |-> vp.s, maj |-> vp.res = "MAJORITY"]]
  /\ IF vp.res # "MAJORITY" THEN                              \* draw: nextRound (SendINIT r+1 becomes enabled)
          /\ IF h > Len(chain[i]) + 1 THEN mode' = [mode EXCEPT ![i] = "syncing"] ELSE UNCHANGED mode
          /\ UNCHANGED <<msgs, chain, proc>>
     ELSE IF vp.s = INIT THEN
          IF h > Len(chain[i]) + 1 \/ vp.f[1] # BlockAt(i, h - 1)
          THEN /\ mode' = [mode EXCEPT ![i] = "syncing"]     \* higher height / previous block differs
               /\ UNCHANGED <<msgs, chain, proc>>
          ELSE IF h <= Len(chain[i]) THEN UNCHANGED <<msgs, chain, proc, mode>>
          ELSE \* process the proposal, broadcast the ACCEPT ballot with the computed manifest
               LET blk == Blk(vp.f[2], vp.f[1]) IN
               /\ proc' = [proc EXCEPT ![i] = [h |-> h, r |-> r, prop |-> vp.f[2], blk |-> blk]]
               /\ msgs' = IF Sent(i, h, r, ACCEPT) = {}
                          THEN msgs \cup {[n |-> i, h |-> h, r |-> r, s |-> ACCEPT, f |-> <<vp.f[2], blk>>]}
                          ELSE msgs
               /\ UNCHANGED <<chain, mode>>
     ELSE \* ACCEPT majority: save only the agreed manifest (C11)
          IF /\ h = Len(chain[i]) + 1
             /\ proc[i] # <<>> /\ proc[i].h = h /\ proc[i].prop = vp.f[1] /\ proc[i].blk = vp.f[2]
          THEN /\ chain' = [chain EXCEPT ![i] = Append(@, vp.f[2])]
               /\ proc' = [proc EXCEPT ![i] = <<>>]
               /\ UNCHANGED <<msgs, mode>>
          ELSE IF h <= Len(chain[i]) THEN UNCHANGED <<msgs, chain, proc, mode>>
          ELSE /\ mode' = [mode EXCEPT ![i] = "syncing"]     \* not processed / different block / higher
               /\ proc' = [proc EXCEPT ![i] = <<>>]
               /\ UNCHANGED <<msgs, chain>>

(* Ballotbox.Count: emits the voteproof of a stage point from the ballots accepted for it (C04) *)
Count(i, h, r, s) ==
  /\ i \in Honest /\ mode[i] = "consensus"
  /\ LET V == Votes(i, h, r, s) IN
     \/ \E f \in MajFacts(V) :
          LET vp == [h |-> h, r |-> r, s |-> s, res |-> "MAJORITY", f |-> f] IN
          /\ IsNewVP(i, vp) /\ vps' = vps \cup {vp} /\ React(i, vp)
     \/ /\ IsDraw(V)
        /\ LET vp == [h |-> h, r |-> r, s |-> s, res |-> "DRAW", f |-> <<>>] IN
           /\ IsNewVP(i, vp) /\ vps' = vps \cup {vp} /\ React(i, vp)
  /\ UNCHANGED <<props, box>>

(* a voteproof formed elsewhere reaches i inside a ballot (INIT ballots carry the *)
(* previous ACCEPT voteproof, ACCEPT ballots the INIT voteproof)                   *)
Learn(i, vp) ==
  /\ i \in Honest /\ mode[i] = "consensus"
  /\ vp \in vps /\ IsNewVP(i, vp)
  /\ React(i, vp)
  /\ UNCHANGED <<props, box, vps>>

(* syncing handler: import the next block for which an ACCEPT majority exists;   *)
(* back to consensus when nothing is left to import                               *)
SyncBlock(i) ==
  /\ i \in Honest /\ mode[i] = "syncing"
  /\ \E vp \in vps :
       /\ vp.s = ACCEPT /\ vp.res = "MAJORITY" /\ vp.h = Len(chain[i]) + 1
       /\ vp.f[2] # NotProcessed
       /\ vp.f[2][4] = HeadOf(i)
       /\ chain' = [chain EXCEPT ![i] = Append(@, vp.f[2])]
       /\ last' = [last EXCEPT ![i] = IF After(vp.h, vp.r, vp.s, @) \/ (vp.h = @.h /\ vp.r = @.r /\ vp.s = @.s)
                                      THEN [h |-> vp.h, r |-> vp.r, s |-> ACCEPT, maj |-> TRUE] ELSE @]
  /\ proc' = [proc EXCEPT ![i] = <<>>]
  /\ UNCHANGED <<msgs, props, box, mode, vps>>
SyncDone(i) ==
  /\ i \in Honest /\ mode[i] = "syncing"
  /\ ~\E vp \in vps : vp.s = ACCEPT /\ vp.res = "MAJORITY" /\ vp.h = Len(chain[i]) + 1 /\ vp.f[2] # NotProcessed
  /\ last[i].h <= Len(chain[i])                      \* joining: waits for a voteproof of the next height
  /\ mode' = [mode EXCEPT ![i] = "consensus"]
  /\ UNCHANGED <<msgs, props, box, last, chain, proc, vps>>

Next ==
  \/ \E n \in Node, h \in Height, r \in Round, v \in {0, 1} : MakeProposal(n, h, r, v)
  \/ \E i \in Honest, h \in Height, r \in Round, p \in props : SendINIT(i, h, r, p)
  \/ \E b \in Byz, h \in Height, r \in Round, s \in {INIT, ACCEPT} : \E f \in ByzFacts(h, r, s) : SendByz(b, h, r, s, f)
  \/ \E i \in Honest : \E m \in msgs : Receive(i, m)
  \/ \E i \in Honest, h \in Height, r \in Round, s \in {INIT, ACCEPT} : Count(i, h, r, s)
  \/ \E i \in Honest : \E vp \in vps : Learn(i, vp)
  \/ \E i \in Honest : SyncBlock(i) \/ SyncDone(i)

Fairness ==
  /\ \A n \in Node, h \in Height, r \in Round : WF_vars(MakeProposal(n, h, r, 0))
  /\ \A i \in Honest, h \in Height, r \in Round : WF_vars(\E p \in props : SendINIT(i, h, r, p))
  /\ \A i \in Honest : WF_vars(\E m \in msgs : Receive(i, m))
  /\ \A i \in Honest, h \in Height, r \in Round, s \in {INIT, ACCEPT} : WF_vars(Count(i, h, r, s))
  /\ \A i \in Honest : WF_vars(\E vp \in vps : Learn(i, vp))
  /\ \A i \in Honest : WF_vars(SyncBlock(i)) /\ WF_vars(SyncDone(i))

Spec == Init /\ [][Next]_vars
FairSpec == Spec /\ Fairness

-----------------------------------------------------------------------------
TypeOK ==
  /\ \A m \in msgs : m.n \in Node /\ m.h \in Height /\ m.r \in Round /\ m.s \in {INIT, ACCEPT}
  /\ \A i \in Node : Len(chain[i]) <= MaxHeight /\ mode[i] \in {"consensus", "syncing"}

(* C08 *)
NoHonestEquivocation ==
  \A a, b \in msgs : (a.n \in Honest /\ a.n = b.n /\ a.h = b.h /\ a.r = b.r /\ a.s = b.s) => a.f = b.f

(* C03 (fixed suffrage, no expels): with |Byz| <= F no two majority voteproofs of one *)
(* stage point carry different facts                                                  *)
VoteproofAgreement ==
  Cardinality(Byz) <= F =>
    \A a, b \in vps : (a.res = "MAJORITY" /\ b.res = "MAJORITY" /\ a.h = b.h /\ a.r = b.r /\ a.s = b.s) => a.f = b.f

(* a stage point has at most one result kind... a DRAW and a MAJORITY may coexist only *)
(* when nodes saw different subsets; both being final is excluded for complete boxes    *)

(* chain agreement between honest nodes *)
ChainAgreement ==
  Cardinality(Byz) <= F =>
    \A i, j \in Honest : \A h \in 1..MaxHeight : (h <= Len(chain[i]) /\ h <= Len(chain[j])) => chain[i][h] = chain[j][h]

(* C11: every saved block is the new block of an ACCEPT majority voteproof of its height *)
SavedOnlyAgreed ==
  \A i \in Honest : \A h \in 1..Len(chain[i]) :
     \E vp \in vps : vp.s = ACCEPT /\ vp.res = "MAJORITY" /\ vp.h = h /\ vp.f[2] = chain[i][h]
(* blocks are linked *)
ChainLinked ==
  \A i \in Honest : \A h \in 1..Len(chain[i]) : chain[i][h][4] = BlockAt(i, h - 1) /\ chain[i][h][1] = h

(* C06: the last point never moves back (no suffrage-confirm in this module); the height of *)
(* a chain never decreases and saved blocks are never replaced (C11)                         *)
LastMonotone ==
  [][\A i \in Honest :
       /\ \/ last'[i] = last[i]
          \/ After(last'[i].h, last'[i].r, last'[i].s, last[i])
          \/ /\ last'[i].h = last[i].h /\ last'[i].r = last[i].r /\ last'[i].s = last[i].s
             /\ ~last[i].maj /\ last'[i].maj
       /\ Len(chain'[i]) >= Len(chain[i])
       /\ \A h \in 1..Len(chain[i]) : chain'[i][h] = chain[i][h]]_vars

(* C38: an honest proposer has at most one proposal per point *)
OneProposalPerPoint ==
  \A p, q \in props : (Proposer(p.h, p.r) \in Honest /\ p.h = q.h /\ p.r = q.r) => p = q

(* liveness (no Byzantine node, fairness): every height is eventually decided everywhere,   *)
(* provided rounds do not run out - checked with MaxRound large enough for the instance      *)
Progress == Byz = {} => <>(\A i \in Node : Len(chain[i]) >= 1)

(* bound for model checking *)
Bound == \A i \in Node : last[i].h <= MaxHeight
=============================================================================
