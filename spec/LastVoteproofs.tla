--------------------------- MODULE LastVoteproofs ---------------------------
(* C06 - the last-voteproofs store (isaac/last_voteproofs.go,                   *)
(* LastVoteproofsHandler). Implementation-level transcription: the handler      *)
(* keeps the last INIT voteproof, the last ACCEPT voteproof, the last majority  *)
(* voteproof and an LRU cache (8 entries) of earlier triples keyed by stage     *)
(* point; the position new voteproofs are judged against (IsNew, Set) is        *)
(* Cap() = the one of (ivp, avp) with the higher point, avp on a tie.           *)
(* Actions: Set(vp) (with its fillMissing branch), ForceSetLast(vp).            *)
(* Property (from the statement, LastPoint!StepOK): every change of the cap     *)
(* position made by Set is a monotonic step. A voteproof is identified with its *)
(* position [h, r, s, m, c] (the harness keeps one real signed voteproof per     *)
(* position).                                                                    *)
(* Binding A: -simulate sequences are replayed into one long-lived real handler  *)
(* (harness c06 "replay": return value, INIT(), ACCEPT(), Majority(), Cap()      *)
(* compared after every call); a TLC counterexample of CapMonotone is a          *)
(* candidate that is replayed the same way and counts only if the real handler   *)
(* reproduces it. The exhaustive verdict on the real handler is                  *)
(* LastPointRel!SpecHdl.                                                         *)
EXTENDS Integers, Sequences, FiniteSets, TLC, Json

CONSTANTS MaxH, MaxR,
          MaxCalls,    \* bound on the number of calls in a behaviour
          CacheSize,   \* 8 in the code
          WithForce    \* include ForceSetLast in Next

LP == INSTANCE LastPoint WITH Rules <- {"V"}, Walk <- FALSE, rule <- "V", last <- 0, cand <- 0, step <- ""

Nil == LP!Zero
INIT == 1
ACCEPT == 3
(* positions a voteproof can have: its suffrage-confirm flag is read from its *)
(* majority fact, so a suffrage-confirm voteproof is a majority               *)
VP == {p \in LP!Pos : ~(p.c = 1 /\ p.m = 0)}

VARIABLES ivp, avp, mvp,   \* LastVoteproofs
          cache,           \* sequence of [k, v], most recently used first
          calls, act, step
vars == <<ivp, avp, mvp, cache, calls, act, step>>

FindLast(i, a) == IF i = Nil THEN a
                  ELSE IF a = Nil THEN i
                  ELSE IF LP!PointCmp(a, i) < 0 THEN i ELSE a
Cap == FindLast(ivp, avp)

IsNewVP(l, vp) == LP!IsNewVoteproofByPoint(l, vp, vp.m = 1, vp.c = 1)

Key(p) == <<p.h, p.r, p.s>>
Triple == [ivp |-> ivp, avp |-> avp, mvp |-> mvp]
NilTriple == [ivp |-> Nil, avp |-> Nil, mvp |-> Nil]
Find(c, k) == {x \in 1..Len(c) : c[x].k = k}
Without(c, k) == SelectSeq(c, LAMBDA e : e.k # k)
Trunc(c) == IF Len(c) > CacheSize THEN SubSeq(c, 1, CacheSize) ELSE c
CachePut(c, k, v) == Trunc(<<[k |-> k, v |-> v]>> \o Without(c, k))
CacheHas(c, k) == Find(c, k) # {}
CacheVal(c, k) == c[CHOOSE x \in Find(c, k) : TRUE].v
CacheTouch(c, k) == IF CacheHas(c, k) THEN <<[k |-> k, v |-> CacheVal(c, k)]>> \o Without(c, k) ELSE c

Out(a, vp, ret) == ToJson([a |-> a, cand |-> vp, ret |-> ret, ivp |-> ivp', avp |-> avp', mvp |-> mvp',
                           cap |-> FindLast(ivp', avp')])

(* fillMissing(lvp, vp): vp is not new; it may still complete the cached triple of the *)
(* cap voteproof (and the current triple where that is empty)                          *)
FillMissing(lvp, vp) ==
  LET k == Key(lvp)
      cached == IF CacheHas(cache, k) THEN CacheVal(cache, k) ELSE NilTriple
      touched == CacheTouch(cache, k)
      fillI == cached.ivp = Nil /\ lvp.s = ACCEPT /\ vp.s = INIT /\ LP!SamePoint(lvp, vp)
      fillA == cached.avp = Nil /\ lvp.s = INIT /\ vp.s = ACCEPT /\ lvp.h = vp.h + 1
      c2 == [ivp |-> IF fillI THEN vp ELSE cached.ivp,
             avp |-> IF fillA THEN vp ELSE cached.avp,
             mvp |-> IF cached.mvp = Nil /\ vp.m = 1 THEN vp ELSE cached.mvp]
  IN /\ ivp' = IF fillI /\ ivp = Nil THEN vp ELSE ivp
     /\ avp' = IF fillA /\ avp = Nil THEN vp ELSE avp
     /\ mvp' = mvp
     /\ cache' = IF fillI \/ fillA THEN CachePut(touched, k, c2) ELSE touched
     /\ step' = Out("SetV", vp, fillI \/ fillA)

Set(vp) ==
  /\ calls < MaxCalls
  /\ calls' = calls + 1
  /\ act' = "Set"
  /\ IF Cap # Nil /\ ~IsNewVP(Cap, vp)
     THEN FillMissing(Cap, vp)
     ELSE /\ ivp' = IF vp.s = INIT THEN vp ELSE ivp
          /\ avp' = IF vp.s = ACCEPT THEN vp ELSE avp
          /\ mvp' = IF vp.m = 1 THEN vp ELSE mvp
          /\ cache' = IF Cap # Nil THEN CachePut(cache, Key(vp), Triple) ELSE cache
          /\ step' = Out("SetV", vp, TRUE)

ForceSetLast(vp) ==
  /\ calls < MaxCalls
  /\ calls' = calls + 1
  /\ act' = "Force"
  /\ IF vp.s = INIT
     THEN LET drop == avp # Nil /\ LP!PointCmp(avp, vp) >= 0 IN
          /\ ivp' = vp
          /\ avp' = IF drop THEN Nil ELSE avp
          /\ mvp' = IF vp.m = 1 THEN vp ELSE IF drop THEN Nil ELSE mvp
     ELSE LET drop == ivp # Nil /\ LP!PointCmp(ivp, vp) > 0 IN
          /\ avp' = vp
          /\ ivp' = IF drop THEN Nil ELSE ivp
          /\ mvp' = IF vp.m = 1 THEN vp ELSE IF drop THEN Nil ELSE mvp
  /\ cache' = IF Cap # Nil THEN CachePut(cache, Key(vp), Triple) ELSE cache
  /\ step' = Out("ForceV", vp, TRUE)

Init == /\ ivp = Nil /\ avp = Nil /\ mvp = Nil /\ cache = <<>> /\ calls = 0 /\ act = "" /\ step = ""
Next == \E vp \in VP : Set(vp) \/ (WithForce /\ ForceSetLast(vp))
Spec == Init /\ [][Next]_vars

View == <<ivp, avp, mvp, cache, calls>>

TypeOK == /\ ivp \in VP \cup {Nil} /\ avp \in VP \cup {Nil} /\ mvp \in VP \cup {Nil}
          /\ (ivp # Nil => ivp.s = INIT) /\ (avp # Nil => avp.s = ACCEPT)
          /\ Len(cache) <= CacheSize

(* the statement on the position the handler judges against; ForceSetLast is a forced *)
(* reset, not an accepted update, and is not constrained                               *)
CapMonotone == [][(act' = "Set" /\ Cap' # Cap) => LP!StepOK(Cap, Cap')]_vars
(* weaker reading, evidence only: a step back happens only on the occasion of taking a *)
(* suffrage-confirm voteproof while the cap was not a majority                         *)
CapBackOnlyWhenTakingSC ==
  [][(act' = "Set" /\ Cap' # Cap /\ Cap # Nil /\ Cap'.h = Cap.h /\ LP!Earlier(Cap', Cap))
        => (Cap.m = 0 /\ ivp'.c = 1 /\ ivp' # ivp)]_vars
(* the cap only ever changes to the voteproof that was just set - NOT true of the code  *)
(* (candidate defect: a stale ACCEPT voteproof becomes the cap again)                   *)
CapIsWhatWasSet == [][(act' = "Set" /\ Cap' # Cap) => (Cap' = ivp' /\ ivp' # ivp) \/ (Cap' = avp' /\ avp' # avp)]_vars
=============================================================================
