SPECIFICATION Spec
CONSTANTS
  N = 5
  Mul = 3
  Mod = 7
  Hs = {0, 1, 2}
  Rs = {0, 1}
  Sums = {0, 1, 3}
  MaxSum = 0
  FailSum = 1
  MaxFail = 3
  Sim = FALSE
  Hist = FALSE
  NSel = 1
  MaxBlocks = 0
  MaxSel = 0
  HRs = {0}
  HSums = {0}
  S0Min = 1
  Kinds = {"stay"}
  Keys = {1}
  Late = FALSE
INVARIANTS Member ImplMatchesAbstract LocalIndependent NoRepeat
CHECK_DEADLOCK FALSE
