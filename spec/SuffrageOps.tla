----------------------------- MODULE SuffrageOps -----------------------------
(* C17 - suffrage changes preserve suffrage well-formedness.                  *)
(*                                                                            *)
(* What a block of suffrage operations (join, candidate, disjoin, expel) must *)
(* do to the suffrage, written from the statement as a function of the *set*  *)
(* of operations (Decl below): nothing in it refers to an order.              *)
(*   joined  = candidates that are unexpired at the block's height, are not   *)
(*             members, and are named by a well-formed join carrying the      *)
(*             candidate's own signature (the key it registered) and valid    *)
(*             signatures of distinct current members reaching the threshold; *)
(*   left    = current members named by a well-formed disjoin signed with the *)
(*             member's key and quoting its start, or by an expel whose range *)
(*             covers the height;                                             *)
(*   members' = (members \ left) + joined (start = height + 1);               *)
(*   suffrage height + 1 iff anything changed; member addresses unique.       *)
(*                                                                            *)
(* The implementation-level transcription of the processors is SeqBlock of    *)
(* BlockProcess.tla (isaac/operation/suffrage_*_processor.go,                 *)
(* base.CheckFactSignsBySuffrage). TLC builds every ordered sequence of up to *)
(* MaxOps distinct catalogue operations (= every permutation of every set)    *)
(* and compares SeqBlock with Decl: a difference is a candidate defect.       *)
(* Binding A (check/props/c17.py): every sequence is replayed on the real     *)
(* processors through the real DefaultProposalProcessor (C10's driver); all   *)
(* permutations of a set must leave the same suffrage in the database, and    *)
(* that suffrage must be Decl's.                                              *)
EXTENDS BlockProcess

(* ---- the statement, over sets ------------------------------------------- *)
MemberSet(st) == {st.members[k] : k \in DOMAIN st.members}
CandSet(st) == {st.cands[k] : k \in DOMAIN st.cands}
Names(XS) == {x.n : x \in XS}

(* valid signatures of distinct current members (a member counts once, with its own key) *)
MemberSigners(st, op) ==
  {m \in MemberSet(st) : \E k \in DOMAIN op.signs : op.signs[k].n = m.n /\ op.signs[k].k = m.key}
ReachesThreshold(st, op) == Cardinality(MemberSigners(st, op)) * 1000 >= T10 * Cardinality(MemberSet(st))

SelfSigned(op, key) == \E k \in DOMAIN op.signs : op.signs[k].n = op.n /\ op.signs[k].k = key

CanJoin(st, h, op) ==
  /\ op.k = "join" /\ WF(op)                                  \* every signature valid, none twice
  /\ op.id \notin st.done                                     \* not a replay of an earlier block
  /\ op.n \notin Names(MemberSet(st))
  /\ \E c \in CandSet(st) :
        /\ c.n = op.n /\ c.deadline >= h                      \* unexpired candidate
        /\ op.s = c.start
        /\ SelfSigned(op, c.key)                              \* signed by the candidate itself
  /\ ReachesThreshold(st, op)

CanLeave(st, h, op) ==
  /\ WF(op) /\ op.id \notin st.done
  /\ \E m \in MemberSet(st) :
        /\ m.n = op.n
        /\ \/ op.k = "disjoin" /\ op.s = m.start /\ op.signs[1].k = m.key
           \/ op.k = "expel" /\ op.s <= h /\ h <= op.e

(* new candidates: a well-formed registration of a node that is neither a member nor an   *)
(* unexpired candidate (conflicting registrations of one node and more registrations than  *)
(* the limiter admits are order-dependent by design and are not put into the sets)         *)
CanRegister(st, h, op) ==
  /\ op.k = "cand" /\ WF(op) /\ op.id \notin st.done
  /\ op.n \notin Names(MemberSet(st))
  /\ ~\E c \in CandSet(st) : c.n = op.n /\ c.deadline >= h

Decl(st, h, OS) ==
  LET joinOps == {op \in OS : CanJoin(st, h, op)}
      joined == {op.n : op \in joinOps}
      left == {op.n : op \in {o \in OS : o.k \in {"disjoin", "expel"} /\ CanLeave(st, h, o)}}
      regs == {op \in OS : CanRegister(st, h, op)}
      keyOf(n) == (CHOOSE c \in CandSet(st) : c.n = n /\ c.deadline >= h).key
      members == {m \in MemberSet(st) : m.n \notin left} \cup {Mem(n, keyOf(n), h + 1) : n \in joined}
      cands == {c \in CandSet(st) : c.n \notin joined /\ c.n \notin Names(regs)}
                 \cup {Cnd(op.n, op.key, h + 1, h + 1 + Lifespan(st.policy)) : op \in regs}
  IN [members |-> members,
      sufh |-> IF joined \cup left = {} THEN st.sufh ELSE st.sufh + 1,
      cands |-> cands]

(* ---- the machine: build a sequence, apply it ---------------------------- *)
SetProj(st) == [members |-> MemberSet(st), sufh |-> st.sufh, cands |-> CandSet(st)]

DeclJson(d) == [members |-> d.members, sufh |-> d.sufh, cands |-> d.cands]

Apply ==
  /\ phase = "build" /\ Len(ops) >= 1
  /\ LET o == Ordered(ops)
         b == SeqBlock(prior, H, ops)
     IN /\ ops' = o
        /\ out' = b.st
        /\ res' = b.res
        /\ step' = [kind |-> "case", world |-> World, ops |-> [k \in DOMAIN o |-> o[k].id],
                    w |-> 0, sched |-> <<>>, res |-> b.res, want |-> Proj(b.st),
                    decl |-> DeclJson(Decl(prior, H, Range(ops)))]
        /\ PrintT("CASE " \o ToString(step'))
  /\ phase' = "closed"
  /\ UNCHANGED <<prior, w, i, ps, jobs, mrg, order>>

NextS == (\E c \in CatIndex : AddOp(c)) \/ Apply
SpecS == Init /\ [][NextS]_vars

(* ---- properties --------------------------------------------------------- *)
(* the transcription of the processors does what the statement says, whatever the order *)
MatchesDecl == phase = "closed" => SetProj(out) = Decl(prior, H, Range(ops))

(* unique members; the suffrage height moves by one exactly when the suffrage changed *)
WellFormed ==
  phase = "closed" =>
    /\ \A a, b \in DOMAIN out.members : a # b => out.members[a].n # out.members[b].n
    /\ \A a, b \in DOMAIN out.cands : a # b => out.cands[a].n # out.cands[b].n
    /\ out.sufh = (IF MemberSet(out) = MemberSet(prior) THEN prior.sufh ELSE prior.sufh + 1)

(* only unexpired, self-signed, threshold-backed candidates join; only members leave *)
OnlyEligible ==
  phase = "closed" =>
    /\ \A m \in MemberSet(out) \ MemberSet(prior) :
          \E op \in Range(ops) : op.n = m.n /\ CanJoin(prior, H, op)
    /\ \A m \in MemberSet(prior) \ MemberSet(out) :
          \E op \in Range(ops) : op.n = m.n /\ CanLeave(prior, H, op)
=============================================================================
