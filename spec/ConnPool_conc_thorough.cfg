SPECIFICATION Spec
CONSTANTS
  NA = 2
  MaxConn = 4
  MaxCalls = 7
  NT = 2
  Concurrent = TRUE
  ByIdentity = FALSE
  MaxHandles = 4
INVARIANTS TypeOK P1 P2 P3 
CHECK_DEADLOCK FALSE
