SPECIFICATION Spec
CONSTANTS
  Writers = {"w1"}
  Heights = {1}
  Shapes = {"full", "noops", "bare"}
  MaxCrash = 1
  Concurrent = FALSE
  Uploads = FALSE
  CheckAFixed = TRUE
  SaveRmForeign = FALSE
  SameHeight = TRUE
VIEW viewcp
CHECK_DEADLOCK FALSE
INVARIANTS TypeOK CrashAtomic ReadMatchesMap FirstSurvives SaveComplete PresentedComplete
