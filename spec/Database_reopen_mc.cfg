SPECIFICATION Spec
CONSTANTS
  Keys = {"a"}
  MaxLen = 4
  MaxWrites = 4
  MaxSteps = 1000
  MaxPool = 1
  KeepPath = FALSE
  EmitStep = FALSE
  WithReopen = TRUE
  WithCenter = TRUE
  Repaired = TRUE
  Contents = {{}, {"a"}}
  SizeClasses = {"s"}
  MaxBig = 0
  WriteLimit = 128
  MergeLimit = 333
  CacheChoices = {TRUE, FALSE}
  ReadOptional = TRUE
  Purge = TRUE
VIEW view
CONSTRAINT NoRemove
INVARIANTS TypeOK ReadsConsistent ImplStateAgrees CacheFresh BatchesCarryEveryRecord
PROPERTIES MergeAndReopenInvisible MemoryInvisible
CHECK_DEADLOCK FALSE
