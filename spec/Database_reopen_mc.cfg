SPECIFICATION Spec
CONSTANTS
  Keys = {"a"}
  MaxLen = 2
  MaxWrites = 3
  MaxSteps = 1000
  MaxPool = 1
  KeepPath = FALSE
  EmitStep = FALSE
  WithReopen = TRUE
  WithCenter = TRUE
  Repaired = TRUE
  Contents = {{}, {"a"}, {"SUF"}}
  SizeClasses = {"s"}
  MaxBig = 0
  WriteLimit = 128
  MergeLimit = 333
  CacheChoices = {TRUE, FALSE}
  ReadOptional = TRUE
  Purge = TRUE
VIEW view
INVARIANTS TypeOK ReadsConsistent ImplStateAgrees CacheFresh BatchesCarryEveryRecord
PROPERTIES MergeAndReopenInvisible MemoryInvisible
CHECK_DEADLOCK FALSE
