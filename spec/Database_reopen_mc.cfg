SPECIFICATION Spec
CONSTANTS
  Keys = {"a"}
  MaxLen = 2
  MaxWrites = 3
  MaxSteps = 1000
  MaxPool = 2
  KeepPath = FALSE
  EmitStep = FALSE
  WithReopen = TRUE
  WithCenter = TRUE
  Repaired = TRUE
VIEW view
INVARIANTS TypeOK ReadsConsistent
PROPERTIES MergeAndReopenInvisible
CHECK_DEADLOCK FALSE
