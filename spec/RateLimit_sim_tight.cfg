SPECIFICATION Spec
CONSTANTS
  Addrs = {"a1", "a2"}
  Handlers = {"h1"}
  ClientIds = {"c1"}
  InitCfgs = {"tsuf", "tsame", "tnode", "tcid"}
  FullAlphabet = TRUE
  Walk = TRUE
  MaxSteps = 40
  Tight = TRUE
  Warm = TRUE
  Per = 8
  Rebuild = "limit-burst"
  SufCheck = "exists-first"
INVARIANTS SuffrageOnlyInConsensus DeviationOnlyViaCache FreshIsChoose PrecedenceOK BoundOK ZeroOK
CHECK_DEADLOCK FALSE
