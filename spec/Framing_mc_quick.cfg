SPECIFICATION Spec
CONSTANTS
  ByteVals = {0, 255}
  MaxItems = 2
  MaxItemLen = 2
  Trailers <- TrailersDef
  HdrMaxItems = 1
  RawBodies <- RawBodiesDef
  LenBodies <- LenBodiesDef
  LenVals = {"zero", "dec", "inc", "i31", "i63", "max"}
  FlipMasks = {1, 128}
  MaxTamper = 1
  UShapes <- UShapesQuick
  UFills = {255}
VIEW view
INVARIANTS TypeOK RoundTrip Sound Complete TruncatedIsError
CHECK_DEADLOCK FALSE
