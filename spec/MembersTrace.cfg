SPECIFICATION TraceSpec
CONSTANTS
  Addr = {"a1", "a2", "a3", "a4"}
  Node = {"n1", "n2"}
  Procs = {0}
  ReadStrict = FALSE
CONSTRAINT HighWater
INVARIANTS TypeOK Partition
POSTCONDITION Accepted
CHECK_DEADLOCK FALSE
