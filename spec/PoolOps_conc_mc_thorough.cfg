SPECIFICATION Spec
CONSTANTS
  Fact = {"A", "B"}
  Signer = {1, 2}
  MaxAdd = 3
  MaxReSet = 0
  MaxCalls = 4
  Limits = {1, 2, 5}
  MaxRej = 2
  Impl = "fixed"
  Sym = TRUE
  NCallers = 3
  Removal = "skip"
  MaxTwice = 0
  SetRace = "unlocked"
  Pick = 0
  Emit = "none"
VIEW View
INVARIANTS TypeOK Gone R0ok R1ok R2ok R3ok R4ok R6ok
CHECK_DEADLOCK FALSE
