INIT Init
NEXT Next
CONSTANTS
  Counts = {1, 2, 3, 4, 5, 6}
  Limits = {1, 2, 3, 4, 5, 6, 7}
  Froms = {0, 7}
  FaultKinds = {"map-notfound", "map-error", "new-importer", "save", "deferred", "merge"}
  Variants = {"pinned", "fixed"}
  Interleave = FALSE
  Emit = TRUE
CHECK_DEADLOCK FALSE
