-------------------------------- MODULE ACL --------------------------------
(* C35 - access control of launch/acl.go.                                   *)
(*                                                                          *)
(* What it models: the permission table  (user, scope) -> perm  that        *)
(* YAMLACL.Import loads, the decision ACL.Allow(user, scope, required) and  *)
(* the text form of a permission (ACLPerm.String / UnmarshalText).          *)
(* `Allow`/`Deciding` are written from the property statement (first        *)
(* defined permission of the chain  own, user default, default user,        *)
(* default default  decides; prohibit denies; superuser allowed).           *)
(* `Impl*` is a transcription of the code (ACL.Allow / allow / fromDefault: *)
(* two look-ups of a per-user map, "assigned >= prohibit" as the "found"    *)
(* test); TLC compares the two for every table and query (Refines).         *)
(*                                                                          *)
(* Binding A: every distinct table of the exhaustive configs, and every     *)
(* state of the -simulate walks (SetCell = re-import of a table that        *)
(* differs in one cell, on the same ACL object), is loaded into a real      *)
(* launch.ACL through YAMLACL.Import (perms written with ACLPerm.String)    *)
(* and every query of `Queries` is put to ACL.Allow; the answers must be    *)
(* the ones in `step`. mode "perm": ACLPerm text round trip for 1..MaxPerm. *)
EXTENDS Integers, Sequences, FiniteSets, TLC, Json

CONSTANTS Users,      \* table users other than the default user (strings)
          Scopes,     \* table scopes other than the default scope (strings)
          Perms,      \* permission values a cell may hold (subset of 1..79)
          Required,   \* permissions a request may require (allow perms: 2..79)
          Super,      \* the superuser (never in the table: setUser refuses it)
          Nobody,     \* a user without any entry
          Other,      \* a scope without any entry
          Walk        \* TRUE (-simulate): start from the empty table, SetCell writes `step`.
                      \* FALSE (exhaustive configs): every table and every permission is an initial state,
                      \* found - and dumped with its step - before any successor; SetCell leaves step empty

Absent   == 0
Prohibit == 1
SuperPerm == 79
MaxPerm  == 79
DU == "_default"
DS == "_default"

TU == Users \cup {DU}            \* users that may own a row
TS == Scopes \cup {DS}           \* scopes that may own a column
Cells == TU \X TS
QU == TU \cup {Super, Nobody}    \* users asked about
QS == TS \cup {Other}            \* scopes asked about

ASSUME /\ Perms \subseteq 1..MaxPerm /\ Required \subseteq 2..MaxPerm
       /\ Super \notin TU /\ Nobody \notin TU /\ Other \notin TS

VARIABLES mode,    \* "table" | "perm"
          table,   \* Cells -> Perms \cup {Absent}
          q,       \* mode "perm": the permission printed and parsed again
          step     \* output only
vars == <<mode, table, q, step>>

Empty == [c \in Cells |-> Absent]
Get(t, u, s) == IF <<u, s>> \in Cells THEN t[<<u, s>>] ELSE Absent

---------------------------------------------------------------------------
(* The statement *)

Chain(u, s) == << <<u, s>>, <<u, DS>>, <<DU, s>>, <<DU, DS>> >>

\* the first defined permission of the chain, Absent if none
RECURSIVE FirstDefined(_, _, _)
FirstDefined(t, ch, i) ==
  IF i > Len(ch) THEN Absent
  ELSE LET p == Get(t, ch[i][1], ch[i][2])
       IN IF p # Absent THEN p ELSE FirstDefined(t, ch, i + 1)

Deciding(t, u, s) == FirstDefined(t, Chain(u, s), 1)

Allow(t, u, s, req) ==
  IF u = Super THEN TRUE
  ELSE LET p == Deciding(t, u, s)
       IN p # Absent /\ p # Prohibit /\ p >= req

---------------------------------------------------------------------------
(* The code: ACL.Allow, ACL.allow, ACL.fromDefault; <<assigned, allow>> *)

HasRow(t, u) == u \in TU /\ \E s \in TS : t[<<u, s>>] # Absent   \* setUser: empty maps are not stored

ImplFromDefault(t, u, req) ==
  IF Get(t, u, DS) # Absent THEN <<Get(t, u, DS), Get(t, u, DS) >= req>> ELSE <<0, FALSE>>

ImplAllowUser(t, u, s, req) ==
  IF ~HasRow(t, u) THEN <<0, FALSE>>
  ELSE IF Get(t, u, s) # Absent THEN <<Get(t, u, s), Get(t, u, s) >= req>>
  ELSE ImplFromDefault(t, u, req)

ImplAllow(t, u, s, req) ==
  IF req = Prohibit THEN <<Prohibit, FALSE>>
  ELSE IF u = Super THEN <<SuperPerm, TRUE>>
  ELSE LET a == ImplAllowUser(t, u, s, req)
       IN IF a[1] >= Prohibit THEN a ELSE ImplAllowUser(t, DU, s, req)

---------------------------------------------------------------------------
(* Text form of a permission: a sequence of one-character strings *)

Text(p) == IF p = Prohibit THEN <<"x">>
           ELSE IF p = SuperPerm THEN <<"s">>
           ELSE [i \in 1..(p - 1) |-> "o"]

Parse(t) == IF t = <<"x">> THEN Prohibit
            ELSE IF t = <<"s">> THEN SuperPerm
            ELSE IF Len(t) >= 1 /\ \A i \in 1..Len(t) : t[i] = "o" THEN Len(t) + 1
            ELSE Absent   \* not a permission text

ASSUME \A p \in 1..MaxPerm : Parse(Text(p)) = p

---------------------------------------------------------------------------
Queries == QU \X QS \X Required

B(b) == IF b THEN 1 ELSE 0

Out(t) ==
  ToJson([a |-> "table",
          cells |-> {<<c[1], c[2], t[c]>> : c \in {d \in Cells : t[d] # Absent}},
          queries |-> {<<x[1], x[2], x[3], B(Allow(t, x[1], x[2], x[3])), Deciding(t, x[1], x[2])>> : x \in Queries}])

OutPerm(p) == ToJson([a |-> "perm", p |-> p, text |-> Text(p)])

Init == \/ /\ mode = "table"
           /\ table \in (IF Walk THEN {Empty} ELSE [Cells -> Perms \cup {Absent}])
           /\ q = 0
           /\ step = Out(table)
        \/ /\ ~Walk
           /\ mode = "perm"
           /\ table = Empty
           /\ q \in 1..MaxPerm
           /\ step = OutPerm(q)

\* Import of a table that differs from the loaded one in exactly one cell
SetCell(c, p) == /\ mode = "table"
                 /\ table[c] # p
                 /\ table' = [table EXCEPT ![c] = p]
                 /\ step' = IF Walk THEN Out(table') ELSE ""
                 /\ UNCHANGED <<mode, q>>

\* Import of a table in which the whole row of user u has moved to user v, who had none (a reload that swaps one user
\* for another: the number of users stays the same, u is gone). Walks only: it changes several cells at once, and the
\* exhaustive configs state Isolation per single changed cell. (seeded change C35e: a reload that keeps the rows of
\* users the new document no longer has, unless the document got shorter)
MoveRow(u, v) == /\ mode = "table"
                 /\ u # v
                 /\ \E s \in TS : table[<<u, s>>] # Absent
                 /\ \A s \in TS : table[<<v, s>>] = Absent
                 /\ table' = [c \in Cells |-> IF c[1] = v THEN table[<<u, c[2]>>]
                                              ELSE IF c[1] = u THEN Absent ELSE table[c]]
                 /\ step' = IF Walk THEN Out(table') ELSE ""
                 /\ UNCHANGED <<mode, q>>
CanMove(u, v) == u # v /\ (\E s \in TS : table[<<u, s>>] # Absent) /\ (\A s \in TS : table[<<v, s>>] = Absent)

\* -simulate builds every successor before it picks one; a walk therefore draws the cell and the value
\* itself (RandomElement follows -seed) so that Out is evaluated once per step, not once per successor
Next == IF Walk
        THEN LET c == RandomElement(Cells)
                 k == RandomElement(IF q >= 0 THEN 1..4 ELSE {})
                 u == RandomElement(IF q >= 0 THEN Users ELSE {})
                 v == RandomElement(IF q >= 0 THEN Users \ {u} ELSE {})
             IN IF k = 1 /\ CanMove(u, v) THEN MoveRow(u, v)
                ELSE SetCell(c, RandomElement((Perms \cup {Absent}) \ {table[c]}))
        ELSE \E c \in Cells, p \in Perms \cup {Absent} : SetCell(c, p)
Spec == Init /\ [][Next]_vars

View == <<mode, table, q>>

---------------------------------------------------------------------------
TypeOK == /\ mode \in {"table", "perm"}
          /\ table \in [Cells -> Perms \cup {Absent}]
          /\ q \in 0..MaxPerm

(* the code's decision is the statement's, for every query *)
Refines == \A x \in Queries : ImplAllow(table, x[1], x[2], x[3])[2] = Allow(table, x[1], x[2], x[3])

(* "the superuser is always allowed" *)
SuperAllowed == \A s \in QS, r \in Required : Allow(table, Super, s, r)

(* "an explicit prohibit always denies": weak reading - the deciding entry *)
ProhibitDenies == \A u \in QU \ {Super}, s \in QS, r \in Required :
                     Deciding(table, u, s) = Prohibit => ~Allow(table, u, s, r)

(* nothing defined on the chain => denied *)
NoEntryDenied == \A u \in QU \ {Super}, s \in QS, r \in Required :
                     Deciding(table, u, s) = Absent => ~Allow(table, u, s, r)

(* a decision depends on the four cells of its chain only *)
InChain(c, u, s) == (c[1] = u \/ c[1] = DU) /\ (c[2] = s \/ c[2] = DS)     \* c is one of Chain(u, s)
Isolation == [][ LET c == CHOOSE d \in Cells : table'[d] # table[d]     \* SetCell changes exactly one
                 IN \A u \in QU, s \in QS : ~InChain(c, u, s) =>
                        \A r \in Required : Allow(table', u, s, r) = Allow(table, u, s, r) ]_vars

(* precedence, said once more entry by entry *)
Precedence == \A u \in QU \ {Super}, s \in QS :
   LET d == Deciding(table, u, s) IN
   /\ Get(table, u, s) # Absent => d = Get(table, u, s)
   /\ (Get(table, u, s) = Absent /\ Get(table, u, DS) # Absent) => d = Get(table, u, DS)
   /\ (Get(table, u, s) = Absent /\ Get(table, u, DS) = Absent /\ Get(table, DU, s) # Absent) => d = Get(table, DU, s)
   /\ (Get(table, u, s) = Absent /\ Get(table, u, DS) = Absent /\ Get(table, DU, s) = Absent) => d = Get(table, DU, DS)
=============================================================================
