SPECIFICATION Spec
CONSTANTS
  Locked = TRUE
  MaxReads = 2
INVARIANTS OneWinner StableRead
CHECK_DEADLOCK FALSE
