SPECIFICATION ShardSpec
CONSTANTS
  NK = 3
  MaxVal = 9
  NG = 3
  NSlots = 2
  MaxOps = 2
  Modes = {"blind"}
  Forced = TRUE
  OpSet <- OpsAll
INVARIANTS EmitSched
CHECK_DEADLOCK FALSE
