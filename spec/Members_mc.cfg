SPECIFICATION Spec
CONSTANTS
  Addr = {"a1", "a2", "a3", "a4"}
  Node = {"n1", "n2"}
  Procs = {1}
INVARIANTS TypeOK Partition AnswersAgree
CHECK_DEADLOCK FALSE
