------------------------------ MODULE JobWorker ------------------------------
(* C33 - the job workers of /repo/util/worker.go: BaseJobWorker (semaphore +    *)
(* cancel cause), NewErrCallbackJobWorker, RunJobWorker / runWorker, BatchWork.  *)
(*                                                                                *)
(* State of one worker: per job whether it was accepted, started, ended and with *)
(* which error; the cancel cause of the worker's context (first one wins); the   *)
(* failing jobs whose cancel call (base worker) / error callback (error-callback  *)
(* worker) is still to come (a job keeps its semaphore slot until then).          *)
(* Errors are integers: 0 = nil, j = the error of job j, PARENT = the cause the   *)
(* parent context was cancelled with, CANCELED = context.Canceled.                *)
(*                                                                                *)
(* Actions (one per step of the code):                                            *)
(*   Accept / Refuse   NewJob: accepted only while neither Done() was called nor  *)
(*                     the context is cancelled, and a slot is free               *)
(*   Start, End        the job callback is entered / returns e                    *)
(*   CancelCause       ctxCancel(err) of a failing job (first cause wins), then   *)
(*                     the slot is released; Errf: the error callback instead     *)
(*   ParentCancel, Done, WaitRet(e), plain Cancel (Close / Wait's deferred one)   *)
(* The driver of RunJobWorker (runWorker: NewJob for i = 0..size-1, Done, Wait)   *)
(* is transcribed at implementation level - NewJob is check-then-acquire, and an  *)
(* acquire interrupted by the cancellation answers ctx.Err() - so that TLC        *)
(* compares what the driver returns with the statement ("the first job error is   *)
(* the error returned"): RunReturnsFirstError.                                    *)
(*                                                                                *)
(* Properties, from the statement: an accepted job starts and ends exactly once   *)
(* (AcceptedEnds, under fairness), Wait returns nil only after every accepted job *)
(* ended (WaitNilAfterAll), a non-nil answer is the first error / the parent's    *)
(* cause (RunReturnsFirstError), nothing is accepted after Done (NoAcceptAfterDone). *)
(* Binding B: JobWorkerTrace.tla validates recorded executions (incl. BatchWork). *)
EXTENDS Integers, FiniteSets, Sequences, TLC

CONSTANTS NJobs,     \* jobs 1..NJobs (the driver submits them in this order)
          SemSize,   \* worker size
          Kind,      \* "base" | "errcb"
          MayFail,   \* jobs that may return their error
          ParentMay  \* TRUE: the parent context may be cancelled

Job == 1..NJobs
PARENT == 100
CANCELED == 101
DONEERR == 102

VARIABLES
  jst,      \* Job -> 0 not submitted / refused, 1 accepted, 2 running, 3 ended
  jerr,     \* Job -> error the job returned
  pend,     \* failing ended jobs whose cancel / error callback is still to come
  cause,    \* 0: context alive; else the cancel cause
  done,     \* Done() was called
  slots,    \* semaphore slots held
  errf,     \* errors handed to the error callback (sequence)
  dpc,      \* driver: "check" | "acquire" | "wait" | "ret"
  dj,       \* driver: job being submitted
  ret,      \* what the driver returned
  lateAccept  \* a job accepted after Done
wvars == <<jst, jerr, pend, cause, done, slots, errf>>
vars == <<jst, jerr, pend, cause, done, slots, errf, dpc, dj, ret, lateAccept>>

Init == /\ jst = [j \in Job |-> 0] /\ jerr = [j \in Job |-> 0] /\ pend = {} /\ cause = 0
        /\ done = FALSE /\ slots = 0 /\ errf = <<>>
        /\ dpc = "check" /\ dj = 1 /\ ret = -1 /\ lateAccept = FALSE

Closed == done \/ cause # 0                   \* newJobCtx is done
AllEnded == \A j \in Job : jst[j] \in {0, 3}

(* ---- the worker ---- *)
Accept(j) == /\ jst[j] = 0 /\ ~Closed /\ slots < SemSize
             /\ jst' = [jst EXCEPT ![j] = 1] /\ slots' = slots + 1
             /\ UNCHANGED <<jerr, pend, cause, done, errf>>
Start(j) == /\ jst[j] = 1 /\ jst' = [jst EXCEPT ![j] = 2]
            /\ UNCHANGED <<jerr, pend, cause, done, slots, errf>>
End(j, e) == /\ jst[j] = 2 /\ jst' = [jst EXCEPT ![j] = 3] /\ jerr' = [jerr EXCEPT ![j] = e]
             /\ IF e = 0 THEN slots' = slots - 1 /\ UNCHANGED pend
                ELSE pend' = pend \cup {j} /\ UNCHANGED slots
             /\ UNCHANGED <<cause, done, errf>>
CancelCauseK(j) == /\ j \in pend
                   /\ cause' = IF cause = 0 THEN jerr[j] ELSE cause     \* context.WithCancelCause: first wins
                   /\ pend' = pend \ {j} /\ slots' = slots - 1
                   /\ UNCHANGED <<jst, jerr, done, errf>>
ErrfK(j) == /\ j \in pend
            /\ errf' = Append(errf, jerr[j])
            /\ pend' = pend \ {j} /\ slots' = slots - 1
            /\ UNCHANGED <<jst, jerr, cause, done>>
CancelCause(j) == Kind = "base" /\ CancelCauseK(j)
Errf(j) == Kind = "errcb" /\ ErrfK(j)
Cancel(c) == /\ cause' = IF cause = 0 THEN c ELSE cause
             /\ UNCHANGED <<jst, jerr, pend, done, slots, errf>>
DoneCall == done' = TRUE /\ UNCHANGED <<jst, jerr, pend, cause, slots, errf>>
(* what Wait may answer now: the cause, or nil once every slot is free *)
WaitMay(e) == /\ Closed
              /\ \/ cause # 0 /\ e = cause
                 \/ cause = 0 /\ slots = 0 /\ e = 0

(* ---- runWorker, implementation level ---- *)
DCheck == /\ dpc = "check"
          /\ IF dj > NJobs THEN dpc' = "wait" /\ done' = TRUE /\ UNCHANGED <<ret, dj>>
             ELSE IF Closed THEN dpc' = "ret" /\ ret' = (IF cause # 0 THEN cause ELSE DONEERR) /\ UNCHANGED <<done, dj>>
             ELSE dpc' = "acquire" /\ UNCHANGED <<ret, done, dj>>
          /\ UNCHANGED <<jst, jerr, pend, cause, slots, errf, lateAccept>>
DAcquire == /\ dpc = "acquire"
            /\ \/ /\ Closed /\ dpc' = "ret" /\ ret' = CANCELED            \* sem.Acquire answers ctx.Err()
                  /\ UNCHANGED <<jst, slots, dj, lateAccept>>
               \/ /\ ~Closed /\ slots < SemSize
                  /\ jst' = [jst EXCEPT ![dj] = 1] /\ slots' = slots + 1
                  /\ dj' = dj + 1 /\ dpc' = "check" /\ lateAccept' = (lateAccept \/ done) /\ UNCHANGED ret
            /\ UNCHANGED <<jerr, pend, cause, done, errf>>
DWait == /\ dpc = "wait" /\ \E e \in {0} \cup Job \cup {PARENT} : WaitMay(e) /\ ret' = e
         /\ dpc' = "ret"
         /\ cause' = IF cause = 0 THEN CANCELED ELSE cause               \* deferred Cancel()
         /\ UNCHANGED <<jst, jerr, pend, done, slots, errf, dj, lateAccept>>
Driver == DCheck \/ DAcquire \/ DWait
Jobs == \E j \in Job : \/ Start(j) \/ End(j, 0) \/ (j \in MayFail /\ End(j, j)) \/ CancelCause(j) \/ Errf(j)
Next == \/ Driver
        \/ Jobs /\ UNCHANGED <<dpc, dj, ret, lateAccept>>
        \/ ParentMay /\ cause = 0 /\ Cancel(PARENT) /\ UNCHANGED <<dpc, dj, ret, lateAccept>>
Spec == Init /\ [][Next]_vars /\ WF_vars(Jobs /\ UNCHANGED <<dpc, dj, ret, lateAccept>>) /\ WF_vars(Driver)

(* ---- properties ---- *)
TypeOK == /\ jst \in [Job -> 0..3] /\ slots \in 0..SemSize /\ pend \subseteq Job
          /\ slots = Cardinality({j \in Job : jst[j] \in {1, 2}}) + Cardinality(pend)
FirstErr == cause
WaitNilAfterAll == ret = 0 => AllEnded /\ \A j \in Job : jst[j] = 3
(* the statement: the first job error (or the parent's cause) is the error returned *)
RunReturnsFirstError == (dpc = "ret" /\ ret > 0) => ret \in Job \cup {PARENT}
NoAcceptAfterDone == ~lateAccept
ErrfOncePerFailure == Kind = "errcb" => \A j \in Job : Cardinality({i \in 1..Len(errf) : errf[i] = j}) <= 1
AcceptedEnds == \A j \in Job : (jst[j] = 1) ~> (jst[j] = 3)
DriverReturns == <>(dpc = "ret")
=============================================================================
