------------------------------ MODULE JobWorker ------------------------------
(* C33 - the job workers of /repo/util/worker.go: BaseJobWorker (semaphore +    *)
(* cancel cause), NewErrCallbackJobWorker, RunJobWorker / runWorker, BatchWork.  *)
(*                                                                                *)
(* State of one worker: per job whether it was accepted, started, whether its     *)
(* callback returned and with which error, and the steps its goroutine still has  *)
(* to perform after the callback returned (its "tail"); the cancel cause of the   *)
(* worker's context (first one wins); the semaphore slots held.                   *)
(* Errors are integers: 0 = nil, j = the error of job j, PARENT = the cause the   *)
(* parent context was cancelled with, CANCELED = context.Canceled.                *)
(*                                                                                *)
(* Actions (one per step of the code):                                            *)
(*   Accept / Refuse   NewJob: accepted only while neither Done() was called nor  *)
(*                     the context is cancelled, and a slot is free               *)
(*   Start, Return     the job callback is entered / returns e                    *)
(*   the END OF A JOB GOROUTINE is a sequence of separate steps, performed in the *)
(*   order EndOrder names:                                                        *)
(*     CancelCause     ctxCancel(err) of a failing job (first cause wins)         *)
(*     Release         sem.Release(1)                                             *)
(*     Errf            the error callback (error-callback worker; it runs inside  *)
(*                     NewJobFunc, i.e. before the release in every order)        *)
(*   "cancel-release" is what the statement needs (the slot of a failing job is   *)
(*   not free before its error is in the context); "release-cancel" is the other  *)
(*   order a goroutine body can have. TLC shows which orders keep                 *)
(*   WaitNilNoFailure / SlotFreeOnlyAfterCancel / NoAcceptAfterFailure            *)
(*   (JobWorker_mc_*.cfg: holds; JobWorker_order_rc_*.cfg: counterexamples =      *)
(*   the windows the harness aims at, harness/internal/c33/window.go).            *)
(*   ParentCancel, Done, plain Cancel (Close / Wait's deferred one)               *)
(* The driver of RunJobWorker (runWorker: NewJob for i = 0..size-1, Done, Wait)   *)
(* is transcribed at implementation level - NewJob is check-then-acquire, an      *)
(* acquire interrupted by the cancellation answers what AcquireAnswer names       *)
(* ("ctxerr": ctx.Err(), the pinned code; "cause": context.Cause, the repaired    *)
(* code), Wait is acquire-everything (or be interrupted) and THEN read the cause  *)
(* - so that TLC compares what the driver returns with the statement ("the first  *)
(* job error is the error returned"): RunReturnsFirstError, WaitNilNoFailure.     *)
(*                                                                                *)
(* Properties, from the statement: an accepted job starts and ends exactly once   *)
(* (AcceptedEnds, under fairness), Wait returns nil only after every accepted job *)
(* ended (WaitNilAfterAll) and none of them failed (WaitNilNoFailure), a non-nil  *)
(* answer is the first error / the parent's cause (RunReturnsFirstError), nothing *)
(* is accepted after Done (NoAcceptAfterDone) or after a failed job gave its slot *)
(* back (NoAcceptAfterFailure: "the first job error cancels the remaining work"). *)
(* Binding B: JobWorkerTrace.tla validates recorded executions (incl. BatchWork). *)
EXTENDS Integers, FiniteSets, Sequences, TLC

CONSTANTS NJobs,     \* jobs 1..NJobs (the driver submits them in this order)
          SemSize,   \* worker size
          Kind,      \* "base" | "errcb"
          MayFail,   \* jobs that may return their error
          ParentMay, \* TRUE: the parent context may be cancelled
          EndOrder,  \* "cancel-release" | "release-cancel": order of the steps after a failing callback returned
          AcquireAnswer  \* "cause" | "ctxerr": what NewJob answers when its acquire is interrupted

Job == 1..NJobs
PARENT == 100
CANCELED == 101
DONEERR == 102

VARIABLES
  jst,      \* Job -> 0 not submitted / refused, 1 accepted, 2 running, 3 callback returned (tail pending), 4 goroutine ended
  jerr,     \* Job -> error the job returned
  tail,     \* Job -> steps the job's goroutine still has to perform: sequence of "cancel" | "release" | "errf"
  cause,    \* 0: context alive; else the cancel cause
  done,     \* Done() was called
  slots,    \* semaphore slots held
  errf,     \* errors handed to the error callback (sequence)
  dpc,      \* driver: "check" | "acquire" | "wait" | "wcause" | "ret"
  dj,       \* driver: job being submitted
  ret,      \* what the driver returned
  lateAccept,  \* a job was accepted after Done
  failAccept   \* a job was accepted after a failed job had given its slot back
wvars == <<jst, jerr, tail, cause, done, slots, errf>>
dvars == <<dpc, dj, ret, lateAccept, failAccept>>
vars == <<jst, jerr, tail, cause, done, slots, errf, dpc, dj, ret, lateAccept, failAccept>>

Init == /\ jst = [j \in Job |-> 0] /\ jerr = [j \in Job |-> 0] /\ tail = [j \in Job |-> <<>>] /\ cause = 0
        /\ done = FALSE /\ slots = 0 /\ errf = <<>>
        /\ dpc = "check" /\ dj = 1 /\ ret = -1 /\ lateAccept = FALSE /\ failAccept = FALSE

Closed == done \/ cause # 0                   \* newJobCtx is done
Range(s) == {s[i] : i \in DOMAIN s}
Pend == {j \in Job : jst[j] = 3}              \* callback returned, goroutine not yet ended
HoldsSlot(j) == jst[j] \in {1, 2} \/ (jst[j] = 3 /\ "release" \in Range(tail[j]))
AllEnded == \A j \in Job : jst[j] \in {0, 4}
(* a failed job has given its slot back *)
FailedAndFree == \E j \in Job : jst[j] \in {3, 4} /\ jerr[j] # 0 /\ ~HoldsSlot(j)

(* the steps of a job goroutine after its callback returned e, in the order of the code *)
EndSteps(e) == IF Kind = "errcb" THEN (IF e # 0 THEN <<"errf", "release">> ELSE <<"release">>)
               ELSE IF e = 0 THEN <<"release">>
               ELSE IF EndOrder = "cancel-release" THEN <<"cancel", "release">>
               ELSE <<"release", "cancel">>

(* ---- the worker ---- *)
Accept(j) == /\ jst[j] = 0 /\ ~Closed /\ slots < SemSize
             /\ jst' = [jst EXCEPT ![j] = 1] /\ slots' = slots + 1
             /\ UNCHANGED <<jerr, tail, cause, done, errf>>
Start(j) == /\ jst[j] = 1 /\ jst' = [jst EXCEPT ![j] = 2]
            /\ UNCHANGED <<jerr, tail, cause, done, slots, errf>>
Return(j, e) == /\ jst[j] = 2 /\ jst' = [jst EXCEPT ![j] = 3] /\ jerr' = [jerr EXCEPT ![j] = e]
                /\ tail' = [tail EXCEPT ![j] = EndSteps(e)]
                /\ UNCHANGED <<cause, done, slots, errf>>
(* one step of the tail of job j *)
TailStep(j, s) == /\ jst[j] = 3 /\ Head(tail[j]) = s
                  /\ tail' = [tail EXCEPT ![j] = Tail(tail[j])]
                  /\ jst' = [jst EXCEPT ![j] = IF Len(tail[j]) = 1 THEN 4 ELSE 3]
                  /\ UNCHANGED <<jerr, done>>
CancelCause(j) == /\ TailStep(j, "cancel")
                  /\ cause' = IF cause = 0 THEN jerr[j] ELSE cause     \* context.WithCancelCause: first wins
                  /\ UNCHANGED <<slots, errf>>
Release(j) == /\ TailStep(j, "release") /\ slots' = slots - 1 /\ UNCHANGED <<cause, errf>>
Errf(j) == /\ TailStep(j, "errf") /\ errf' = Append(errf, jerr[j]) /\ UNCHANGED <<cause, slots>>

(* reduced steps for trace validation (JobWorkerTrace.tla), where the tail steps are not logged: *)
(* a succeeding job gives its slot back when its callback returns, the tail of a failing job is *)
(* run in one step. Nothing is lost for the order cancel-release: an earlier release only       *)
(* enables more (Accept, Wait's nil), and between cancel and release nothing is enabled that    *)
(* is not enabled after the release as well.                                                    *)
EndS(j, e, steps) ==
             /\ jst[j] = 2 /\ jerr' = [jerr EXCEPT ![j] = e]
             /\ IF e = 0 THEN jst' = [jst EXCEPT ![j] = 4] /\ slots' = slots - 1 /\ UNCHANGED tail
                ELSE jst' = [jst EXCEPT ![j] = 3] /\ tail' = [tail EXCEPT ![j] = steps] /\ UNCHANGED slots
             /\ UNCHANGED <<cause, done, errf>>
End(j, e) == EndS(j, e, EndSteps(e))
RunTail(j) == /\ jst[j] = 3
              /\ jst' = [jst EXCEPT ![j] = 4] /\ tail' = [tail EXCEPT ![j] = <<>>]
              /\ cause' = IF "cancel" \in Range(tail[j]) /\ cause = 0 THEN jerr[j] ELSE cause
              /\ slots' = IF "release" \in Range(tail[j]) THEN slots - 1 ELSE slots
              /\ errf' = IF "errf" \in Range(tail[j]) THEN Append(errf, jerr[j]) ELSE errf
              /\ UNCHANGED <<jerr, done>>
CancelCauseK(j) == "cancel" \in Range(tail[j]) /\ RunTail(j)
ErrfK(j) == "errf" \in Range(tail[j]) /\ RunTail(j)

Cancel(c) == /\ cause' = IF cause = 0 THEN c ELSE cause
             /\ UNCHANGED <<jst, jerr, tail, done, slots, errf>>
DoneCall == done' = TRUE /\ UNCHANGED <<jst, jerr, tail, cause, slots, errf>>
(* what Wait may answer now: the cause, or nil once every slot is free *)
WaitMay(e) == /\ Closed
              /\ \/ cause # 0 /\ e = cause
                 \/ cause = 0 /\ slots = 0 /\ e = 0

(* ---- runWorker, implementation level ---- *)
DCheck == /\ dpc = "check"
          /\ IF dj > NJobs THEN dpc' = "wait" /\ done' = TRUE /\ UNCHANGED <<ret, dj>>
             ELSE IF Closed THEN dpc' = "ret" /\ ret' = (IF cause # 0 THEN cause ELSE DONEERR) /\ UNCHANGED <<done, dj>>
             ELSE dpc' = "acquire" /\ UNCHANGED <<ret, done, dj>>
          /\ UNCHANGED <<jst, jerr, tail, cause, slots, errf, lateAccept, failAccept>>
DAcquire == /\ dpc = "acquire"
            /\ \/ /\ Closed /\ dpc' = "ret"                                  \* the acquire is interrupted
                  /\ ret' = IF AcquireAnswer = "ctxerr" THEN CANCELED        \* sem.Acquire's ctx.Err()
                            ELSE IF cause # 0 THEN cause ELSE DONEERR        \* context.Cause(newJobCtx)
                  /\ UNCHANGED <<jst, slots, dj, lateAccept, failAccept>>
               \/ /\ ~Closed /\ slots < SemSize
                  /\ jst' = [jst EXCEPT ![dj] = 1] /\ slots' = slots + 1
                  /\ dj' = dj + 1 /\ dpc' = "check" /\ lateAccept' = (lateAccept \/ done)
                  /\ failAccept' = (failAccept \/ FailedAndFree) /\ UNCHANGED ret
            /\ UNCHANGED <<jerr, tail, cause, done, errf>>
(* Wait: <-newJobCtx.Done(), then sem.Acquire(ctx, size): refused / interrupted by the cancellation *)
(* (the cause is the answer) or every slot taken; only then the cause is read                       *)
DWait == /\ dpc = "wait" /\ Closed
         /\ \/ cause # 0 /\ ret' = cause /\ dpc' = "ret"
            \/ cause = 0 /\ slots = 0 /\ dpc' = "wcause" /\ UNCHANGED ret
         /\ UNCHANGED <<jst, jerr, tail, cause, done, slots, errf, dj, lateAccept, failAccept>>
DWaitCause == /\ dpc = "wcause" /\ ret' = cause /\ dpc' = "ret"
              /\ cause' = IF cause = 0 THEN CANCELED ELSE cause              \* deferred Cancel()
              /\ UNCHANGED <<jst, jerr, tail, done, slots, errf, dj, lateAccept, failAccept>>
Driver == DCheck \/ DAcquire \/ DWait \/ DWaitCause
Jobs == \E j \in Job : \/ Start(j) \/ Return(j, 0) \/ (j \in MayFail /\ Return(j, j))
                       \/ CancelCause(j) \/ Release(j) \/ Errf(j)
(* the same steps as named actions of Next (coverage per action) *)
JStart(j) == Start(j) /\ UNCHANGED dvars
JReturnNil(j) == Return(j, 0) /\ UNCHANGED dvars
JReturnErr(j) == j \in MayFail /\ Return(j, j) /\ UNCHANGED dvars
JCancelCause(j) == CancelCause(j) /\ UNCHANGED dvars
JRelease(j) == Release(j) /\ UNCHANGED dvars
JErrf(j) == Errf(j) /\ UNCHANGED dvars
ParentCancel == ParentMay /\ cause = 0 /\ Cancel(PARENT) /\ UNCHANGED dvars
Next == \/ DCheck \/ DAcquire \/ DWait \/ DWaitCause
        \/ \E j \in Job : JStart(j) \/ JReturnNil(j) \/ JReturnErr(j) \/ JCancelCause(j) \/ JRelease(j) \/ JErrf(j)
        \/ ParentCancel
Spec == Init /\ [][Next]_vars /\ WF_vars(Jobs /\ UNCHANGED dvars) /\ WF_vars(Driver)

(* ---- properties ---- *)
TypeOK == /\ jst \in [Job -> 0..4] /\ slots \in 0..SemSize
          /\ \A j \in Job : (jst[j] = 3) <=> (tail[j] # <<>>)
          /\ slots = Cardinality({j \in Job : HoldsSlot(j)})
FirstErr == cause
WaitNilAfterAll == ret = 0 => \A j \in Job : jst[j] \in {3, 4} /\ ~HoldsSlot(j)
(* the statement: Wait's nil means that no accepted job failed *)
WaitNilNoFailure == (Kind = "base" /\ ret = 0) => \A j \in Job : jerr[j] = 0
(* what keeps it: the slot of a failing job is not free before its error is in the context *)
SlotFreeOnlyAfterCancel == Kind = "base" => (FailedAndFree => cause # 0)
(* the statement: the first job error (or the parent's cause) is the error returned *)
RunReturnsFirstError == (dpc = "ret" /\ ret > 0) => ret \in Job \cup {PARENT}
NoAcceptAfterDone == ~lateAccept
NoAcceptAfterFailure == Kind = "base" => ~failAccept
ErrfOncePerFailure == Kind = "errcb" => \A j \in Job : Cardinality({i \in 1..Len(errf) : errf[i] = j}) <= 1
AcceptedEnds == \A j \in Job : (jst[j] = 1) ~> (jst[j] = 4)
DriverReturns == <>(dpc = "ret")
=============================================================================
