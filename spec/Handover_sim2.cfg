\* random behaviours for binding A: draws, finish as early as possible, no endurance, more faults
SPECIFICATION Spec
CONSTANTS
  Kinds <- KindsLong9
  MinChal = 1
  ReadyEndArg = 0
  MaxFail = 0
  FinishRetry = 33
  CancelRetry = 3
  MaxAsk = 1
  MaxFaults = 4
  MaxBallots = 2
  LocalCancel = TRUE
  AllowDup = TRUE
  Bias = 14
CHECK_DEADLOCK FALSE
