-------------------------------- MODULE Hint --------------------------------
(* C31, first two sentences - hint strings of util/hint (hint.go, type.go)   *)
(* and util/version.go.                                                       *)
(*                                                                            *)
(* A hint is printed as  <type> "-" <version> ; the type grammar is           *)
(* ^[a-z0-9][a-z0-9\-_\+]*[a-z0-9]$ (2..100 chars), a printed version is the  *)
(* normalised semver "v" MAJOR "." MINOR "." PATCH ["-" pre] ["+" build].     *)
(* Strings are sequences of one-character strings over a small alphabet       *)
(* (letters a v, digits 0 1, symbols - _ + .); the harness substitutes other  *)
(* letters and digits of the same class.                                      *)
(*                                                                            *)
(* Abstract level: Decomps(s) = every way to read s as type "-" version with  *)
(* the lenient version grammar the parser accepts (v1, v1.2, ...), and        *)
(* PrintedDecomps(s) = those whose version is in printed (normalised) form.   *)
(* Implementation level: CodeParse transcribes EnsureParseHint - split at the *)
(* FIRST "-v<digit>".  TLC checks how the two relate (invariants below); the  *)
(* statement itself (parse(print(t,v)) = (t,v)) is judged on the real code    *)
(* by replaying every final state (binding A): `step` carries type, version,  *)
(* printed string, what the statement demands and what the transcription      *)
(* predicts.                                                                  *)
EXTENDS Integers, Sequences, FiniteSets, TLC, Json

CONSTANTS TypeMaxLen,    \* every valid type up to this length is printed and parsed
          Versions,      \* printed versions (character sequences)
          JunkMaxLen     \* every string up to this length is judged as a type

Letters   == {"a", "v"}
Digits    == {"0", "1"}
Syms      == {"-", "_", "+"}
Alnum     == Letters \cup Digits
TypeChars == Alnum \cup Syms
EnumChars == {"a", "v", "1", "-", "_", "+"}      \* alphabet of the enumerated types
MinTypeLen == 2
MaxTypeLen == 100
MaxVersionLen == 20
MinHintLen == 5

SeqsUpTo(S, n) == UNION {[1..k -> S] : k \in 0..n}

RECURSIVE Join(_)
Join(s) == IF Len(s) = 0 THEN "" ELSE Head(s) \o Join(Tail(s))

-----------------------------------------------------------------------------
(* grammar *)
IsType(s) == /\ Len(s) >= MinTypeLen /\ Len(s) <= MaxTypeLen
             /\ s[1] \in Alnum /\ s[Len(s)] \in Alnum
             /\ \A i \in 1..Len(s) : s[i] \in TypeChars

IndexOf(s, c) == IF \E i \in 1..Len(s) : s[i] = c
                 THEN CHOOSE i \in 1..Len(s) : s[i] = c /\ \A j \in 1..(i-1) : s[j] # c
                 ELSE 0

RECURSIVE SplitAt(_, _)
SplitAt(s, c) == LET i == IndexOf(s, c) IN
                 IF i = 0 THEN <<s>> ELSE <<SubSeq(s, 1, i-1)>> \o SplitAt(SubSeq(s, i+1, Len(s)), c)

IsNum(p)      == Len(p) > 0 /\ \A i \in 1..Len(p) : p[i] \in Digits
IsIdent(p)    == Len(p) > 0 /\ \A i \in 1..Len(p) : p[i] \in Alnum \cup {"-"}
IsPreIdent(p) == IsIdent(p) /\ (IsNum(p) => (Len(p) = 1 \/ p[1] # "0"))

(* the parts of a lenient semver string "v" num [.num [.num]] [-pre] [+build] *)
VParts(s) ==
  LET body  == Tail(s)
      p     == IndexOf(body, "+")
      main  == IF p = 0 THEN body ELSE SubSeq(body, 1, p-1)
      build == IF p = 0 THEN <<>> ELSE SubSeq(body, p+1, Len(body))
      q     == IndexOf(main, "-")
      core  == IF q = 0 THEN main ELSE SubSeq(main, 1, q-1)
      pre   == IF q = 0 THEN <<>> ELSE SubSeq(main, q+1, Len(main))
  IN [nums |-> SplitAt(core, "."), haspre |-> q # 0, pre |-> pre, hasbuild |-> p # 0, build |-> build]

IsVersion(s) ==
  /\ Len(s) >= 2 /\ s[1] = "v"
  /\ LET v == VParts(s) IN
       /\ Len(v.nums) \in 1..3
       /\ \A i \in 1..Len(v.nums) : IsNum(v.nums[i])
       /\ v.haspre => \A i \in 1..Len(SplitAt(v.pre, ".")) : IsPreIdent(SplitAt(v.pre, ".")[i])
       /\ v.hasbuild => \A i \in 1..Len(SplitAt(v.build, ".")) : IsIdent(SplitAt(v.build, ".")[i])

RECURSIVE StripZeros(_)
StripZeros(p) == IF Len(p) > 1 /\ p[1] = "0" THEN StripZeros(Tail(p)) ELSE p

(* printed form of a version the lenient grammar accepts *)
Norm(s) ==
  LET v == VParts(s)
      n(i) == IF i <= Len(v.nums) THEN StripZeros(v.nums[i]) ELSE <<"0">>
  IN <<"v">> \o n(1) \o <<".">> \o n(2) \o <<".">> \o n(3)
       \o (IF v.haspre THEN <<"-">> \o v.pre ELSE <<>>)
       \o (IF v.hasbuild THEN <<"+">> \o v.build ELSE <<>>)

IsPrinted(s) == IsVersion(s) /\ Norm(s) = s

PrintHint(t, v) == t \o <<"-">> \o v

(* abstract: every reading of s as a hint *)
Decomps(s) == {i \in 1..Len(s) : /\ s[i] = "-"
                                 /\ IsType(SubSeq(s, 1, i-1))
                                 /\ IsVersion(SubSeq(s, i+1, Len(s)))}
PrintedDecomps(s) == {i \in Decomps(s) : IsPrinted(SubSeq(s, i+1, Len(s)))}

(* implementation: EnsureParseHint / ParseHint - regexp \-v\d+ , first match *)
MarkerAt(s, i) == i + 2 <= Len(s) /\ s[i] = "-" /\ s[i+1] = "v" /\ s[i+2] \in Digits
HasMarker(s)   == \E i \in 1..Len(s) : MarkerAt(s, i)
FirstMarker(s) == IF HasMarker(s)
                  THEN CHOOSE i \in 1..Len(s) : MarkerAt(s, i) /\ \A j \in 1..(i-1) : ~MarkerAt(s, j)
                  ELSE 0
NoHint == [t |-> <<>>, v |-> <<>>]
CodeParse(s) ==
  LET i == FirstMarker(s) IN
  IF i = 0 THEN NoHint
  ELSE LET vs == SubSeq(s, i+1, Len(s)) IN
       [t |-> SubSeq(s, 1, i-1), v |-> IF IsVersion(vs) THEN Norm(vs) ELSE <<>>]
CodeParseErr(s) == Len(s) < MinHintLen \/ ~HasMarker(s)     \* ParseHint reports an error
ValidHint(h) == IsType(h.t) /\ IsVersion(h.v) /\ Len(h.v) <= MaxVersionLen

-----------------------------------------------------------------------------
Types == {s \in SeqsUpTo(EnumChars, TypeMaxLen) : IsType(s)}
Junk  == SeqsUpTo(EnumChars, JunkMaxLen)

VARIABLES pc,    \* "n" new, "p" printed, "d" parsed / judged
          ty, ver, str, res, step
vars == <<pc, ty, ver, str, res, step>>
view == <<pc, ty, ver, str, res>>

Init == pc = "n" /\ ty = <<>> /\ ver = <<>> /\ str = <<>> /\ res = NoHint /\ step = ""

NewHint(t, v) ==                  \* hint.NewHint(t, v).String()
  /\ pc = "n" /\ pc' = "p"
  /\ ty' = t /\ ver' = v /\ str' = PrintHint(t, v)
  /\ UNCHANGED <<res, step>>

Parse ==                          \* hint.ParseHint / EnsureParseHint / UnmarshalText of the printed string
  /\ pc = "p" /\ pc' = "d"
  /\ res' = CodeParse(str)
  /\ step' = ToJson([k |-> "hint", t |-> Join(ty), v |-> Join(ver), s |-> Join(str),
                     marker |-> HasMarker(ty),
                     readings |-> Cardinality(Decomps(str)),
                     code_t |-> Join(res'.t), code_v |-> Join(res'.v), code_err |-> CodeParseErr(str),
                     code_valid |-> ValidHint(res')])
  /\ UNCHANGED <<ty, ver, str>>

JudgeType(s) ==                   \* hint.Type(s).IsValid
  /\ pc = "n" /\ pc' = "d"
  /\ str' = s
  /\ step' = ToJson([k |-> "type", s |-> Join(s), valid |-> IsType(s)])
  /\ UNCHANGED <<ty, ver, res>>

Next == \/ \E t \in Types, v \in Versions : NewHint(t, v)
        \/ Parse
        \/ \E s \in Junk : JudgeType(s)
Spec == Init /\ [][Next]_vars

-----------------------------------------------------------------------------
Printed == pc \in {"p", "d"} /\ Len(ty) > 0

(* the configured versions are printed forms, short enough for a valid hint *)
VersionsArePrinted == \A v \in Versions : IsPrinted(v) /\ Len(v) <= MaxVersionLen

(* the printed language is unambiguous: exactly one reading with a printed version *)
PrintedUnambiguous == Printed => PrintedDecomps(str) = {Len(ty) + 1}

(* the lenient language is not - but only for types that contain "-v<digit>" *)
LenientAmbiguousOnlyWithMarker == Printed => (Cardinality(Decomps(str)) > 1 => HasMarker(ty))

(* the first-match split returns the printed hint exactly when the type has no marker *)
FirstMatchRightIffNoMarker ==
  (pc = "d" /\ Len(ty) > 0) => ((res = [t |-> ty, v |-> ver]) <=> ~HasMarker(ty))

(* The statement (sentences 1 and 2) on the transcription. NOT an invariant of   *)
(* this module: TLC reports it violated (Hint_stmt.cfg), the counterexample is   *)
(* the candidate that the replay reproduces on the real parser.                  *)
StatementOnTranscription ==
  (pc = "d" /\ Len(ty) > 0) => /\ res = [t |-> ty, v |-> ver]
                               /\ ValidHint(res) => res = [t |-> ty, v |-> ver]

TypeOK == pc \in {"n", "p", "d"}

(* constant values named by the .cfg files *)
V001    == <<"v", "0", ".", "0", ".", "1">>
V110    == <<"v", "1", ".", "1", ".", "0">>
V100pv1 == <<"v", "1", ".", "0", ".", "0", "-", "v", "1">>
V101ab  == <<"v", "1", ".", "0", ".", "1", "-", "a", "1", "+", "a">>
V1000a1 == <<"v", "1", "0", ".", "0", ".", "0", "-", "a", ".", "1">>
VersionsDef == {V001, V110, V100pv1, V101ab, V1000a1}
=============================================================================
