SPECIFICATION Spec
CONSTANTS
  N = 4
  Mul = 3
  Mod = 7
  Hs = {0}
  Rs = {0}
  Sums = {0}
  MaxSum = 0
  FailSum = 1
  MaxFail = 0
  Sim = FALSE
  Hist = TRUE
  NSel = 2
  MaxBlocks = 2
  MaxSel = 4
  HRs = {0, 1}
  HSums = {1, 4}
  S0Min = 2
  Kinds = {"stay", "join", "leave", "swap"}
  Keys = {1, 3, 5}
  Late = TRUE
INVARIANTS ChainWellFormed HMember HistoryIndependent ImplObjectMatches
CHECK_DEADLOCK FALSE
