SPECIFICATION Spec
CONSTANTS
  N = 5
  Mul = 3
  Mod = 7
  Hs = {0}
  Rs = {0}
  Sums = {0}
  MaxSum = 0
  FailSum = 1
  MaxFail = 0
  Sim = FALSE
  Hist = TRUE
  NSel = 1
  MaxBlocks = 2
  MaxSel = 6
  HRs = {0, 1}
  HSums = {3}
  S0Min = 2
  Kinds = {"stay", "join", "leave"}
  Keys = {1, 2, 3, 5}
  Late = FALSE
INVARIANTS ChainWellFormed HMember HistoryIndependent ImplObjectMatches
CHECK_DEADLOCK FALSE
