------------------------------ MODULE HintSet ------------------------------
(* C31, third sentence - hint.CompatibleSet (util/hint/set.go) and the       *)
(* version order it relies on (util/version.go Compare).                      *)
(*                                                                            *)
(* "Decoder lookup by hint finds the registered entry with the same type and  *)
(* major version and the highest registered version."  The specification is   *)
(* the cache-free table: reg[type, major] = the added entry with the highest  *)
(* version (semver precedence: major, minor, patch, then a pre-release is      *)
(* lower than the release and pre-release identifiers are ordered             *)
(* alphabetically).  Add / Find / FindByString / FindByType /                 *)
(* FindByTypeString are the public calls; every reply is determined by reg.   *)
(* The real set has an LRU cache in front of the table and is replayed with   *)
(* the cache on and off (binding A): exhaustive call sequences of length      *)
(* MaxOps (`step` = the whole history at the last call) and -simulate walks   *)
(* (EmitAll: `step` = the last call).                                         *)
EXTENDS Integers, Sequences, FiniteSets, TLC, Json

CONSTANTS TypeNames,   \* registered type names (strings, valid types)
          Vers,        \* versions used in Add / Find: records [ma, mi, pa, pre]
          MaxOps,      \* calls per behaviour
          EmitAll      \* TRUE: step = last call (simulate); FALSE: step = history at MaxOps

Majors == {v.ma : v \in Vers}
PreNames == <<"alpha", "alpha.1", "alpha.2", "alpha.9", "alpha.10", "beta", "rc1">>   \* in semver precedence: identifiers in
                     \* ASCII order, numeric ones by value, a longer list of identifiers is higher
PreRank(p) == IF p = "" THEN 99 ELSE CHOOSE i \in 1..Len(PreNames) : PreNames[i] = p

VLess(a, b) ==
  \/ a.ma < b.ma
  \/ a.ma = b.ma /\ a.mi < b.mi
  \/ a.ma = b.ma /\ a.mi = b.mi /\ a.pa < b.pa
  \/ a.ma = b.ma /\ a.mi = b.mi /\ a.pa = b.pa /\ PreRank(a.pre) < PreRank(b.pre)

VStr(v) == "v" \o ToString(v.ma) \o "." \o ToString(v.mi) \o "." \o ToString(v.pa)
             \o (IF v.pre = "" THEN "" ELSE "-" \o v.pre)
HStr(t, v) == t \o "-" \o VStr(v)

NoVer == [ma |-> 0, mi |-> 0, pa |-> 0, pre |-> ""]
None  == [has |-> FALSE, v |-> NoVer, val |-> 0]

VARIABLES reg,    \* [TypeNames \X Majors -> entry]: the table
          hist,   \* calls so far with the replies the table determines
          step
vars == <<reg, hist, step>>

Init == /\ reg = [k \in TypeNames \X Majors |-> None]
        /\ hist = <<>>
        /\ step = ""

NotFound == [found |-> FALSE, val |-> 0, h |-> ""]
Call(op, s, r, err) == [op |-> op, s |-> s, found |-> r.found, val |-> r.val, h |-> r.h, err |-> err]

Emit(c) == /\ hist' = Append(hist, c)
           /\ step' = IF EmitAll THEN ToJson(c)
                      ELSE IF Len(hist) + 1 = MaxOps THEN ToJson(Append(hist, c)) ELSE ""

(* the registered entry of a type with the highest version over all majors *)
TypeHead(t) == LET ms == {m \in Majors : reg[<<t, m>>].has} IN
           IF ms = {} THEN NotFound
           ELSE LET m == CHOOSE x \in ms : \A y \in ms : y <= x
                IN [found |-> TRUE, val |-> reg[<<t, m>>].val, h |-> HStr(t, reg[<<t, m>>].v)]

Lookup(t, v) == IF t \in TypeNames /\ v.ma \in Majors /\ reg[<<t, v.ma>>].has
                THEN [found |-> TRUE, val |-> reg[<<t, v.ma>>].val, h |-> HStr(t, v)]
                ELSE NotFound

Add(t, v) ==                       \* Add(hint, value); value = number of this call
  LET e == reg[<<t, v.ma>>]
      val == Len(hist) + 1
  IN IF e.has /\ e.v = v
     THEN /\ UNCHANGED reg                                  \* "already added"
          /\ Emit(Call("add", HStr(t, v), NotFound, TRUE))
     ELSE /\ reg' = IF ~e.has \/ VLess(e.v, v)
                    THEN [reg EXCEPT ![<<t, v.ma>>] = [has |-> TRUE, v |-> v, val |-> val]]
                    ELSE reg                                \* a lower version does not replace
          /\ Emit(Call("add", HStr(t, v), NotFound, FALSE))

AddInvalid(v) ==                   \* a hint whose type is too short is refused
  /\ UNCHANGED reg
  /\ Emit(Call("add", HStr("x", v), NotFound, TRUE))

Find(t, v) ==                      \* Find(hint)
  /\ UNCHANGED reg
  /\ Emit(Call("find", HStr(t, v), Lookup(t, v), FALSE))

FindByString(t, v) ==              \* FindByString(printed hint)
  /\ UNCHANGED reg
  /\ Emit(Call("findstr", HStr(t, v), Lookup(t, v), FALSE))

FindByStringJunk(s) ==             \* a string that is not a hint: nothing may be found
  /\ UNCHANGED reg
  /\ Emit(Call("findstr", s, NotFound, TRUE))

FindByType(t) ==                   \* FindBytType(type)
  /\ UNCHANGED reg
  /\ Emit(Call("findtype", t, IF t \in TypeNames THEN TypeHead(t) ELSE NotFound, FALSE))

FindByTypeString(t) ==             \* FindBytTypeString(type string)
  /\ UNCHANGED reg
  /\ Emit(Call("findtypestr", t, IF t \in TypeNames THEN TypeHead(t) ELSE NotFound, FALSE))

FindByTypeStringJunk(t, v) ==      \* a printed hint is not a type
  /\ UNCHANGED reg
  /\ Emit(Call("findtypestr", HStr(t, v), NotFound, TRUE))

OtherType == "tz"                  \* a valid type that is never registered
OneVer == CHOOSE v \in Vers : \A w \in Vers : ~VLess(w, v)

Next ==
  /\ Len(hist) < MaxOps
  /\ \/ \E t \in TypeNames, v \in Vers : \/ Add(t, v) \/ Find(t, v) \/ FindByString(t, v)
                                        \/ FindByTypeStringJunk(t, v)
     \/ AddInvalid(OneVer) \/ Find(OtherType, OneVer) \/ FindByString(OtherType, OneVer)
     \/ \E t \in TypeNames \cup {OtherType} : \/ FindByType(t) \/ FindByTypeString(t)
                                               \/ FindByStringJunk(t)
Spec == Init /\ [][Next]_vars

-----------------------------------------------------------------------------
(* the table is what the statement says *)
Added(t, m) == {i \in 1..Len(hist) : /\ hist[i].op = "add" /\ ~hist[i].err
                                     /\ \E v \in Vers : v.ma = m /\ hist[i].s = HStr(t, v)}
VerOf(i, t) == CHOOSE v \in Vers : hist[i].s = HStr(t, v)

(* reg[t, m] is the successfully added entry of (t, m) with the highest version *)
TableIsHighest ==
  \A t \in TypeNames, m \in Majors :
    LET as == Added(t, m) IN
    /\ reg[<<t, m>>].has <=> as # {}
    /\ as # {} => /\ reg[<<t, m>>].val \in as
                  /\ VerOf(reg[<<t, m>>].val, t) = reg[<<t, m>>].v
                  /\ \A i \in as : ~VLess(reg[<<t, m>>].v, VerOf(i, t))

(* every lookup reply names an entry of the same type and major *)
RepliesFromTable ==
  \A i \in 1..Len(hist) :
    (hist[i].op \in {"find", "findstr"} /\ hist[i].found) =>
       \E t \in TypeNames, v \in Vers : /\ hist[i].s = HStr(t, v)
                                        /\ hist[i].val \in 1..(i-1)
                                        /\ hist[hist[i].val].op = "add"
                                        /\ \E w \in Vers : w.ma = v.ma /\ hist[hist[i].val].s = HStr(t, w)

TypeOK == Len(hist) <= MaxOps

(* constant values named by the .cfg files *)
V(ma, mi, pa, pre) == [ma |-> ma, mi |-> mi, pa |-> pa, pre |-> pre]
VersQuick == {V(1, 0, 0, "alpha"), V(1, 0, 0, "alpha.1"), V(1, 0, 0, "alpha.2"), V(1, 0, 0, "beta"), V(1, 0, 0, ""),
              V(1, 1, 0, ""), V(2, 0, 0, "")}
\* alpha.2 / alpha.10: numeric identifiers of different digit counts are ordered by value, not as text (seeded change C31e)
VersTiny  == {V(1, 0, 0, "alpha.2"), V(1, 0, 0, "alpha.10"), V(1, 0, 0, "beta"), V(1, 1, 0, ""), V(2, 0, 0, "")}
VersDeep  == {V(1, 0, 0, "alpha.1"), V(1, 0, 0, "beta"), V(1, 1, 0, "")}
VersSim   == {V(ma, mi, 0, pre) : ma \in 0..2, mi \in 0..2, pre \in {"", "alpha", "alpha.1", "alpha.2", "alpha.9", "alpha.10", "beta", "rc1"}}
=============================================================================
