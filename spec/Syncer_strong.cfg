SPECIFICATION Spec
CONSTANTS
  L0 = 0
  MaxH = 3
  Batch = 2
  AddHeights = {3}
  MaxAdds = 1
  MaxFaults = 0
  MaxRetry = 0
  Repaired = TRUE
  ForkPrev = FALSE
  CanCancel = TRUE
INVARIANTS TypeOK NoStragglerAfterCancel
CHECK_DEADLOCK FALSE
