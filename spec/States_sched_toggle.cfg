SPECIFICATION Spec
CONSTANTS
  AskSet <- AskSched
  MaxAsk = 1
  MaxToggle = 2
  MaxHold = 0
  MaxY = 0
  ExitOut = {"ok"}
  EnterKinds = {"ok", "redirect"}
  Redirects = {"SYNCING"}
  InitAllowed = {TRUE, FALSE}
  Sched = TRUE
  Record = TRUE
INVARIANTS Emit
CHECK_DEADLOCK FALSE
