SPECIFICATION Spec
CONSTANTS
  MaxK = 4
  Gap = 3
  Sizes = {1}
  Positions = {0}
  Variants = {"fixed"}
  Emit = FALSE
  Mode = "build"
  Limits = {2, 3}
  RespKinds = {"consistent", "last-invalid", "missing", "error", "fork-one", "wrongheight", "swap", "fork", "older", "nongenesis-zero"}
INVARIANTS TypeOK BNoPanic BEndsWithLast BConsistentSucceeds
PROPERTIES BTerminates
CHECK_DEADLOCK FALSE
