#!/usr/bin/env python3
"""check.py <ID> --tier quick|thorough [--replay PATH]

The command MANIFEST.json registers for every property. It rebuilds the conformance
harness against /repo's current working tree (hooks on: -tags "verif test"), runs TLC on
the property's specification, binds the two (replay of TLC behaviours into the real code
and/or TLC validation of traces recorded from the real code) and writes
evidence/<ID>.json. See DESIGN.md 2.4 for the verdict rule.
"""
import argparse
import importlib
import os
import sys
import traceback

sys.path.insert(0, os.path.dirname(os.path.abspath(__file__)))
from vlib import core  # noqa: E402


def main():
    ap = argparse.ArgumentParser()
    ap.add_argument("id")
    ap.add_argument("--tier", default=os.environ.get("VERIF_TIER", "quick"), choices=["quick", "thorough"])
    ap.add_argument("--replay", default=None)
    ap.add_argument("--seed", type=int, default=None)
    a = ap.parse_args()
    seed = a.seed if a.seed is not None else int(os.environ.get("VERIF_SEED", "1") or 1)
    pid = a.id.upper()
    try:
        mod = importlib.import_module("props." + pid.lower())
    except ImportError as e:
        print("no check for %s: %s" % (pid, e), file=sys.stderr)
        return 2
    ctx = core.Ctx(pid, a.tier, seed)
    try:
        ctx.build()
        if a.replay:
            if not hasattr(mod, "replay"):
                print("property %s has no replay entry; re-run the tier with VERIF_SEED from the replay file" % pid)
                return 2
            mod.replay(ctx, a.replay)
        else:
            mod.run(ctx)
    except core.MachineryError as e:
        print("MACHINERY-ERROR %s: %s" % (pid, e), file=sys.stderr)
        return 2
    except Exception:
        traceback.print_exc()
        print("MACHINERY-ERROR %s: unexpected exception" % pid, file=sys.stderr)
        return 2
    return ctx.finish()


if __name__ == "__main__":
    sys.exit(main())
