"""Shared driver pieces: context, harness build, TLC runner, verdicts, evidence.

Exit codes of a check (see DESIGN.md 2.4):
  0  property held on everything explored (known findings printed as KNOWN-FINDING)
  1  at least one violation not listed in known_findings.json (VIOLATION lines printed)
  2  the machinery itself failed (build error, TLC error, time-out, dead driver): no verdict
"""
import fcntl
import hashlib
import json
import os
import re
import shutil
import subprocess
import sys
import time

VERIF = os.path.dirname(os.path.dirname(os.path.dirname(os.path.abspath(__file__))))
REPO = os.environ.get("VERIF_REPO", "/repo")
SPEC = os.path.join(VERIF, "spec")
HARNESS = os.path.join(VERIF, "harness")
TLA_JAR = "/opt/veriftools/tla/tla2tools.jar"
COMMUNITY = "/opt/veriftools/tla/CommunityModules-deps.jar"

GOENV = {
    "GOFLAGS": "-mod=mod",
    "GOPROXY": "off",
    "GOSUMDB": "off",
    "GOTOOLCHAIN": "local",
}


class MachineryError(Exception):
    """Anything that prevents a verdict (exit 2)."""


def _classpath():
    cands = [TLA_JAR]
    d = os.path.dirname(TLA_JAR)
    for f in sorted(os.listdir(d)):
        p = os.path.join(d, f)
        if f.endswith(".jar") and p not in cands:
            cands.append(p)
    return ":".join(cands)


class TLCResult:
    def __init__(self, rc, out, wall):
        self.rc = rc
        self.out = out
        self.wall = wall
        self.generated = 0
        self.distinct = 0
        self.diameter = 0
        m = re.findall(r"(\d+) states generated, (\d+) distinct states found", out)
        if m:
            self.generated, self.distinct = int(m[-1][0]), int(m[-1][1])
        m = re.findall(r"The depth of the complete state graph search is (\d+)", out)
        if m:
            self.diameter = int(m[-1])
        self.violated = None
        m = re.search(r"Invariant (\S+) is violated", out)
        if m:
            self.violated = m.group(1)
        m2 = re.search(r"Action property (\S+) is violated", out)
        if m2 and not self.violated:
            self.violated = m2.group(1)
        if "Temporal properties were violated" in out and not self.violated:
            self.violated = "<temporal>"
        if re.search(r"[Pp]ostcondition[^\n]*(false|violated)", out):
            self.violated = self.violated or "<postcondition>"
        self.ok = rc == 0
        self.safety_violation = rc in (12, 13) or self.violated is not None

    def mismatches(self):
        """<<"MISMATCH", class, line, got, want>> prints of a trace spec -> [(class, line, got, want)]"""
        out = []
        for m in re.finditer(r'<<"MISMATCH", "([^"]*)", (\d+), (.*)>>$', self.out, re.M):
            rest = m.group(3)
            out.append((m.group(1), int(m.group(2)), rest))
        return out

    def coverage_zero(self):
        """action names with count 0 in the FINAL coverage report of a -coverage run (TLC also prints
        interim reports every minute, in which late actions are still 0: those are ignored)."""
        blocks = self.out.split("The coverage statistics at ")
        last = blocks[-1] if len(blocks) > 1 else self.out
        taken, zero = set(), set()
        for m in re.finditer(r"^<(\w+) line .*?>: (\d+):(\d+)$", last, re.M):
            (taken if int(m.group(3)) > 0 or int(m.group(2)) > 0 else zero).add(m.group(1))
        return sorted(zero - taken)


class Ctx:
    def __init__(self, pid, tier, seed):
        self.id = pid
        self.tier = tier
        self.seed = seed
        self.t0 = time.time()
        self.work = os.path.join(VERIF, ".work", "%s-%s-%d" % (pid, tier, os.getpid()))
        shutil.rmtree(self.work, ignore_errors=True)
        os.makedirs(self.work)
        self.states = 0
        self.transitions = 0
        self.traces = 0
        self.evaluations = 0
        self._distinct = set()
        self.distinct_override = None
        self.samples = []
        self.viol = []          # (key, what, replay_path)
        self.known_hit = {}     # key -> what
        self.extra = {}
        self.tlc_cmds = []
        self.assumptions = []
        self.rule = ""
        self.exhaustive = False
        self.level = "model_checking"
        self._findings = load_findings()
        self._nreplay = 0

    # ---------------------------------------------------------------- harness
    def build(self):
        """(Re)build this property's harness binary (harness/cmd/<id> -> bin/vh-<id>) against
        /repo's working tree with the hooks on. One binary per property, so that a harness
        package of one property can never break the check of another."""
        os.makedirs(os.path.join(HARNESS, "bin"), exist_ok=True)
        self.vhbin = os.path.join(HARNESS, "bin", "vh-" + self.id.lower())
        env = dict(os.environ)
        env.update(GOENV)
        extra = []
        if REPO != "/repo":
            # scratch tree (used to try seeded changes without touching /repo): alternate
            # go.mod whose replace points at it, binary kept in the run's work dir
            mod = open(os.path.join(HARNESS, "go.mod")).read().replace("=> /repo\n", "=> %s\n" % REPO)
            alt = os.path.join(self.work, "alt.mod")
            open(alt, "w").write(mod)
            shutil.copy(os.path.join(HARNESS, "go.sum"), os.path.join(self.work, "alt.sum"))
            extra = ["-modfile", alt]
            self.vhbin = os.path.join(self.work, "vh-" + self.id.lower())
        lock = open(os.path.join(HARNESS, "bin", ".lock-" + self.id.lower()), "w")
        fcntl.flock(lock, fcntl.LOCK_EX)
        try:
            src = os.path.join(REPO, "go.sum")
            dst = os.path.join(HARNESS, "go.sum")
            if not os.path.exists(dst):
                shutil.copy(src, dst)
            t = time.time()
            p = subprocess.run(
                ["go", "build", "-tags", "verif test"] + extra + ["-o", self.vhbin, "./cmd/" + self.id.lower()],
                cwd=HARNESS, env=env, stdout=subprocess.PIPE, stderr=subprocess.STDOUT, text=True)
            if p.returncode != 0:
                raise MachineryError("harness build failed:\n" + p.stdout[-4000:])
            self.extra["build_s"] = round(time.time() - t, 1)
        finally:
            fcntl.flock(lock, fcntl.LOCK_UN)
            lock.close()
        return self.vhbin

    def vh(self, args, timeout=600, check=True, env_extra=None):
        env = dict(os.environ)
        env["VERIF_SEED"] = str(self.seed)
        env["VERIF_TIER"] = self.tier
        if env_extra:
            env.update(env_extra)
        try:
            p = subprocess.run([self.vhbin] + [str(a) for a in args], cwd=self.work, env=env,
                               stdout=subprocess.PIPE, stderr=subprocess.PIPE, text=True, timeout=timeout)
        except subprocess.TimeoutExpired:
            raise MachineryError("vh %s timed out after %ss" % (" ".join(map(str, args)), timeout))
        if check and p.returncode != 0:
            raise MachineryError("vh %s exited %d:\n%s\n%s" % (
                " ".join(map(str, args)), p.returncode, p.stdout[-2000:], p.stderr[-4000:]))
        return p

    # ---------------------------------------------------------------- TLC
    def _stage_spec(self):
        d = os.path.join(self.work, "spec")
        if not os.path.isdir(d):
            os.makedirs(d)
            for f in os.listdir(SPEC):
                if f.endswith(".tla") or f.endswith(".cfg"):
                    shutil.copy(os.path.join(SPEC, f), os.path.join(d, f))
        return d

    def tlc(self, module, cfg, args=(), workers=None, timeout=900, deterministic_queue=False,
            count=True, allow_violation=False, java_opts=()):
        """Run TLC on spec/<module>.tla with spec/<cfg>. Returns TLCResult.
        A time-out or a TLC error is a MachineryError; an invariant violation is returned
        (rc 12/13) only if allow_violation, otherwise also a MachineryError - callers that
        model the *implementation* pass allow_violation=True and concretise the trace."""
        d = self._stage_spec()
        self._ntlc = getattr(self, "_ntlc", 0) + 1
        meta = os.path.join(self.work, "tlcmeta%d" % self._ntlc)
        if workers is None:
            workers = "auto" if self.tier == "thorough" else 8
        cmd = ["java", "-XX:+UseParallelGC", "-Xss512m", "-Xmx12g"]
        if deterministic_queue:
            cmd.append("-Dtlc2.tool.queue.IStateQueue=StateDeque")
        cmd += list(java_opts)
        cmd += ["-cp", _classpath(), "tlc2.TLC", "-workers", str(workers), "-metadir", meta,
                "-config", cfg] + [str(a) for a in args] + [module + ".tla"]
        self.tlc_cmds.append("tlc -workers %s -config %s %s %s.tla" % (workers, cfg, " ".join(map(str, args)), module))
        t = time.time()
        try:
            p = subprocess.run(cmd, cwd=d, stdout=subprocess.PIPE, stderr=subprocess.STDOUT, text=True, timeout=timeout)
        except subprocess.TimeoutExpired:
            subprocess.run(["pkill", "-f", meta], check=False)
            raise MachineryError("TLC %s/%s timed out after %ss" % (module, cfg, timeout))
        finally:
            shutil.rmtree(meta, ignore_errors=True)
        r = TLCResult(p.returncode, p.stdout, time.time() - t)
        if count:
            self.states += r.distinct
            self.transitions += r.generated
        if r.rc != 0:
            if r.safety_violation and allow_violation:
                return r
            raise MachineryError("TLC %s/%s exit %d:\n%s" % (module, cfg, r.rc, _tlc_tail(r.out)))
        return r

    def tlc_dump_steps(self, module, cfg, var="step", **kw):
        """Exhaustive run with -dump; returns (result, list of decoded `step` JSON values),
        one per distinct state (states whose step is the empty string are skipped)."""
        dump = os.path.join(self.work, "dump%d" % (getattr(self, "_ntlc", 0) + 1))
        r = self.tlc(module, cfg, args=["-dump", dump], **kw)
        steps = list(_parse_steps(dump + ".dump", var))
        os.remove(dump + ".dump")
        return r, steps

    def tlc_simulate(self, module, cfg, num, depth, var="step", timeout=600):
        """Random behaviours; returns list of behaviours, each a list of decoded step values."""
        d = self._stage_spec()
        self._ntlc = getattr(self, "_ntlc", 0) + 1
        sim = os.path.join(self.work, "sim%d" % self._ntlc)
        os.makedirs(sim)
        r = self.tlc(module, cfg, args=["-simulate", "file=%s/t,num=%d" % (sim, num), "-depth", depth,
                                        "-seed", self.seed], workers=1, timeout=timeout, count=False)
        out = []
        for f in sorted(os.listdir(sim), key=lambda s: int(s.rsplit("_", 1)[1]) if s.rsplit("_", 1)[1].isdigit() else 0):
            b = list(_parse_steps(os.path.join(sim, f), var))
            if b:
                out.append(b)
        shutil.rmtree(sim, ignore_errors=True)
        n = sum(len(b) for b in out)
        self.states += n
        self.transitions += n
        return r, out

    def tlc_validate_trace(self, module, cfg, trace_path, trace_name="trace.ndjson", timeout=900, dfs=False):
        """Trace validation (binding B): copies the recorded ndjson next to the trace spec and
        runs TLC with -workers 1. Returns (accepted, result, highwater). The trace spec keeps the
        high-water mark of its trace index in TLC register 1 and its POSTCONDITION prints
        <<"HW", reached, len>> when the trace was not consumed completely; `highwater` is that
        index (the first trace line (1-based) no behaviour of the spec explains), or None.
        MISMATCH prints of deterministic replies are in result.mismatches()."""
        d = self._stage_spec()
        shutil.copy(trace_path, os.path.join(d, trace_name))
        r = self.tlc(module, cfg, workers=1, timeout=timeout, deterministic_queue=dfs, allow_violation=True)
        hw = None
        m = re.findall(r'<<"HW", (\d+), (\d+)>>', r.out)
        if m:
            hw = int(m[-1][0])
        if r.rc != 0 and hw is None and not r.safety_violation:
            raise MachineryError("TLC %s/%s exit %d:\n%s" % (module, cfg, r.rc, r.out[-6000:]))
        if r.rc != 0 and hw is None and r.violated is None:
            raise MachineryError("TLC %s/%s exit %d:\n%s" % (module, cfg, r.rc, r.out[-6000:]))
        return r.rc == 0, r, hw

    # ---------------------------------------------------------------- verdicts
    def case(self, canon, nontrivial=True, sample=None):
        """Count one explored case; canon is any JSON-able canonical form."""
        self.evaluations += 1
        if nontrivial:
            self._distinct.add(hashlib.sha1(json.dumps(canon, sort_keys=True).encode()).digest()[:10])
        if sample is not None and nontrivial and len(self.samples) < 5:
            self.samples.append(sample)

    def violation(self, key, what, case):
        """Record a violation observed on the real code. key names the class (input class /
        call site / history) and is matched against known_findings.json."""
        full = key if key.startswith(self.id + ":") else "%s:%s" % (self.id, key)
        ent = self._findings.get(full)
        if ent is not None and ent.get("status") == "known":
            if full not in self.known_hit:
                self.known_hit[full] = what
            self.extra.setdefault("known_finding_cases", {})
            self.extra["known_finding_cases"][full] = self.extra["known_finding_cases"].get(full, 0) + 1
            return False
        for (k, _, _) in self.viol:
            if k == full and len([1 for v in self.viol if v[0] == full]) >= 3:
                self.extra["more_" + full] = self.extra.get("more_" + full, 0) + 1
                return True
        rd = os.path.join(VERIF, "replays", self.id)
        os.makedirs(rd, exist_ok=True)
        self._nreplay += 1
        path = os.path.join(rd, "%s-%s-%d.json" % (self.tier, re.sub(r"[^A-Za-z0-9_.-]+", "_", full)[:60], self._nreplay))
        with open(path, "w") as f:
            json.dump({"property": self.id, "key": full, "what": what, "seed": self.seed, "tier": self.tier,
                       "case": case}, f, indent=1, default=str)
        self.viol.append((full, what, path))
        return True

    # ---------------------------------------------------------------- finish
    def finish(self):
        wall = round(time.time() - self.t0, 2)
        cov = {
            "states": self.states,
            "transitions": self.transitions,
            "traces_validated_against_impl": self.traces,
            "samples": self.samples[:5] if self.samples else ["<none>"],
            "evaluations": self.evaluations,
            "distinct_nontrivial": self.distinct_override if self.distinct_override is not None else len(self._distinct),
            "rule": self.rule,
            "exhaustive": self.exhaustive,
            "tlc_cmds": self.tlc_cmds,
            "known_findings_met": sorted(self.known_hit),
        }
        cov.update(self.extra)
        ev = {
            "property_id": self.id,
            "tier": self.tier,
            "seed": self.seed,
            "level": self.level,
            "coverage": cov,
            "assumptions": self.assumptions,
            "wall_s": wall,
            "violations": len(self.viol),
        }
        evdir = os.path.join(VERIF, "evidence") if REPO == "/repo" else os.path.join(VERIF, ".work", "evidence-scratch")
        os.makedirs(evdir, exist_ok=True)
        tmp = os.path.join(evdir, ".%s.%d.tmp" % (self.id, os.getpid()))
        with open(tmp, "w") as f:
            json.dump(ev, f, indent=1, default=str)
            f.write("\n")
        os.replace(tmp, os.path.join(evdir, "%s.json" % self.id))
        for k in sorted(self.known_hit):
            print("KNOWN-FINDING: property=%s %s -- %s" % (self.id, k, self.known_hit[k]))
        for (k, what, path) in self.viol:
            print("VIOLATION property=%s replay=%s key=%s %s" % (self.id, path, k, what))
        print("%s %s seed=%d: states=%d transitions=%d traces=%d evaluations=%d distinct=%d wall=%.1fs -> %s" % (
            self.id, self.tier, self.seed, self.states, self.transitions, self.traces, self.evaluations,
            (self.distinct_override if self.distinct_override is not None else len(self._distinct)), wall, "VIOLATED" if self.viol else "ok"))
        if not os.environ.get("VERIF_KEEP"):
            shutil.rmtree(self.work, ignore_errors=True)
        return 1 if self.viol else 0


def _tlc_tail(out):
    keep = [l for l in out.splitlines() if not l.startswith(("Parsing file", "Semantic processing"))]
    return "\n".join(keep)[-5000:]


def _parse_steps(path, var):
    pat = re.compile(r'^(?:/\\ )?' + re.escape(var) + r' = "(.*)"$')
    with open(path, errors="replace") as f:
        for line in f:
            m = pat.match(line.rstrip("\n"))
            if not m:
                continue
            s = m.group(1)
            if not s:
                continue
            s = s.replace('\\"', '"').replace("\\\\", "\\")
            try:
                yield json.loads(s)
            except ValueError:
                raise MachineryError("cannot decode step value: " + s[:200])


def load_findings():
    out = {}
    p = os.path.join(VERIF, "known_findings.json")
    if os.path.exists(p):
        for e in json.load(open(p)).get("findings", []):
            out[e["key"]] = e
    d = os.path.join(VERIF, "known_findings.d")
    if os.path.isdir(d):
        for f in sorted(os.listdir(d)):
            if f.endswith(".json"):
                for e in json.load(open(os.path.join(d, f))).get("findings", []):
                    out.setdefault(e["key"], e)
    return out


def write_ndjson(path, rows):
    with open(path, "w") as f:
        for r in rows:
            f.write(json.dumps(r, separators=(",", ":")))
            f.write("\n")


def read_ndjson(path):
    out = []
    with open(path) as f:
        for line in f:
            line = line.strip()
            if line:
                out.append(json.loads(line))
    return out
