#!/bin/sh
# applyfix.sh fixes/CNN-slug.diff : commit one proposed repair as a single unguarded "fix:" commit in /repo.
# The patch is already applied (uncommitted) in /repo's working tree by its builder; only the index is
# touched here (git apply --cached), so other uncommitted work in the tree stays out of the commit.
f=$1
subj=$(grep -m1 '^# fix:' "$f" | sed 's/^# //')
body=$(awk 'NR>1 && /^# /{sub(/^# /,""); print} /^(diff|---) /{exit}' "$f" | grep -v '^fix:')
[ -n "$subj" ] || { echo "no '# fix:' subject in $f"; exit 2; }
tmp=$(mktemp)
grep -v '^# ' "$f" | sed '/./,$!d' > "$tmp"
cd /repo || exit 2
git apply --cached --recount "$tmp" 2>/tmp/applyfix.err || git apply --cached --recount -p1 "$tmp" 2>>/tmp/applyfix.err || { echo "cannot apply $f to the index:"; cat /tmp/applyfix.err; rm -f "$tmp"; exit 1; }
rm -f "$tmp"
git commit -q -m "$subj" -m "$body" || exit 1
git log --format='%h %s' -1
