#!/usr/bin/env python3
"""Assemble /verif/MANIFEST.json from check/meta/<ID>.json fragments (one per claimed
property) + the fixed header below. Properties without a fragment go to not_applicable
with the reason in NA (or 'check not built yet')."""
import json
import os
import subprocess

V = os.path.dirname(os.path.dirname(os.path.abspath(__file__)))
NA = {
    "C27": "encode/decode fidelity of ~100 hinted types has no state, transition or interleaving to specify; a TLA+ "
           "module could only state Decode(Encode(x))=x and the binding would be a plain round-trip property test "
           "(DESIGN.md section 5). Objects that other checks store or transmit go through the real encoder and are "
           "compared by hash there.",
}


# specifications grown beyond the listed properties (run as `python3 check/check.py <NAME> --tier quick|thorough`;
# they are not registered as checks because they decide no single listed property)
EXTRA_ENGINES = [
    ("ISAAC", ["C03", "C04", "C06", "C08", "C11", "C38"],
     "spec/ISAAC.tla + spec/ISAACExpel.tla (expels, suffrage confirm): composed node + network specification; TLC exhaustive (2 nodes) and random behaviours (3 nodes; 4 nodes with a "
     "Byzantine member); trace validation (ISAACTrace.tla) of in-process networks of real isaacstates.States; see check/isaac.md"),
    ("HANDOVER", ["C08", "C09"],
     "spec/Handover.tla + HandoverLock.tla: the handover X/Y broker protocol; TLC exhaustive with message loss/duplication/cancel; "
     "behaviours replayed on and traces recorded from the real HandoverXBroker/HandoverYBroker; see check/handover.md"),
    ("SYNCER", ["C14", "C15"],
     "spec/Syncer.tla: implementation-level model of isaacstates.Syncer (what ISAAC.tla abstracts as SyncBlock); trace validation of the "
     "real Syncer with BatchIsValidMaps/ImportBlocks under injected faults; see check/syncer.md"),
    ("SUFVOTE", ["C03", "C17", "C23"],
     "spec/SuffrageVoting.tla: isaac.SuffrageVoting (collecting and finding expel operations), contract + implementation level; TLC "
     "call sequences replayed on the real SuffrageVoting over a real TempPool; see check/sufvote.md"),
    ("WATCHER", ["C13", "C18"],
     "spec/NodesWatcher.tla: isaac.LastConsensusNodesWatcher with the real SuffrageStateBuilder; see check/watcher.md"),
    ("FSSTORE", ["C16", "C21"],
     "spec/FSStore.tla: the block file store (LocalFSWriter.Save protocol, crash points, readers, empty-height clean-up); TLC "
     "predictions per crash state compared with the real writer/readers/start-up checks; see check/fsstore.md"),
    ("SRCPOOL", ["C15"],
     "spec/SyncSourcePool.tla + SyncSourcePoolTrace.tla: isaac.SyncSourcePool (the sources the syncer and the importers pick from); "
     "recorded call sequences of the real pool judged by the trace spec; see check/srcpool.md"),
    ("CONNPOOL", ["C30"],
     "spec/ConnPool.tla: quicstream.ConnectionPool (the connections the header client streams over); TLC scripts replayed on the real "
     "pool with a stub dialer, forced Dial/Close/CloseAll schedules; see check/connpool.md"),
    ("STUCK", ["C04"],
     "spec/StuckResolver.tla: the ballot stuck resolver; trace validation of the real DefaultBallotStuckResolver; see check/stuck.md"),
]


def main():
    ids = [json.loads(l)["id"] for l in open(os.path.join(V, "properties.jsonl"))]
    checks, na = [], []
    engines = {}
    for pid in ids:
        p = os.path.join(V, "check", "meta", pid + ".json")
        if not os.path.exists(p):
            na.append({"property_id": pid, "reason": NA.get(pid, "check not built yet in this round (see DESIGN.md section 8)")})
            continue
        m = json.load(open(p))
        c = {
            "property_id": pid,
            "quick_cmd": "python3 check/check.py %s --tier quick" % pid,
            "thorough_cmd": "python3 check/check.py %s --tier thorough" % pid,
            "evidence_file": "/verif/evidence/%s.json" % pid,
            "replay_cmd_template": "python3 check/check.py %s --tier quick --replay {path}" % pid,
            "engine": m.get("engine", "tlc+vh"),
            "level_claimed": {"category": m.get("category", "model_checking"), "text": m["text"],
                              "design_ref": m.get("design_ref", "DESIGN.md section 4 " + pid)},
            "level_note": m["note"],
            "technique": m["technique"],
        }
        checks.append(c)
        for s in m.get("specs", []):
            engines.setdefault(s, []).append(pid)
    hooks = []
    try:
        out = subprocess.run(["git", "-C", "/repo", "log", "--format=%h %s"], stdout=subprocess.PIPE, text=True).stdout
        hooks = [l.split()[0] for l in out.splitlines() if l.split(" ", 1)[1].startswith("verif hooks:")]
    except Exception:
        pass
    man = {
        "version": 1,
        "setup_cmd": "sh check/setup.sh",
        "hooks": {
            "guard": "verif",
            "enable": "go build -tags 'verif test' (harness module /verif/harness, replace github.com/spikeekips/mitum => /repo); "
                      "'test' is the repository's own fixture tag, 'verif' guards the hooks added for this framework",
            "baseline_off_cmd": "cd /repo && go test -mod=mod -json -vet=off -count=1 -timeout 25m ./...",
            "source_commits": hooks,
            "add_only": True,
        },
        "engines": [{"name": "tlc+vh", "path": "/verif/check/check.py",
                     "serves_properties": [c["property_id"] for c in checks],
                     "kind_free_text": "TLA+ specifications in /verif/spec checked by TLC (exhaustive / -simulate / trace validation) "
                                       "and bound to the Go code by the conformance harness /verif/harness (vh): TLC behaviours "
                                       "replayed into the real objects, recorded executions validated by TLC trace specs, "
                                       "TLC-chosen schedules forced through verif gates"}] +
                   [{"name": s, "path": "/verif/spec/" + s, "serves_properties": ps, "kind_free_text": "TLA+ module"}
                    for s, ps in sorted(engines.items())] +
                   [{"name": n, "path": "/verif/check/check.py", "serves_properties": ps, "kind_free_text": t}
                    for n, ps, t in EXTRA_ENGINES],
        "checks": checks,
        "notes": "Verdicts come only from real-code behaviour; known findings are in /verif/known_findings.json. "
                 "exit 2 = machinery failure (no verdict).",
        "not_applicable": na,
    }
    with open(os.path.join(V, "MANIFEST.json"), "w") as f:
        json.dump(man, f, indent=1)
        f.write("\n")
    print("MANIFEST.json: %d checks, %d not_applicable" % (len(checks), len(na)))


if __name__ == "__main__":
    main()
