#!/bin/sh
# sweep.sh <tier> [seed] : run every registered check once, sequentially; one summary line per check.
tier=${1:-quick}; seed=${2:-1}
cd "$(dirname "$0")/.."
for i in $(python3 -c "
import json
print(' '.join(c['property_id'] for c in json.load(open('MANIFEST.json'))['checks']))") ISAAC SRCPOOL CONNPOOL; do
  s=$(date +%s)
  VERIF_SEED=$seed timeout 3000 python3 check/check.py $i --tier $tier > .work/sweep_${tier}_$i.log 2>&1; rc=$?
  e=$(date +%s)
  echo "$i tier=$tier seed=$seed rc=$rc wall=$((e-s))s violations=$(grep -c '^VIOLATION' .work/sweep_${tier}_$i.log) known=$(grep -c '^KNOWN-FINDING' .work/sweep_${tier}_$i.log)"
done
