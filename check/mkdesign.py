#!/usr/bin/env python3
"""Regenerate the generated tables of DESIGN.md (between <!-- BEGIN:x --> / <!-- END:x --> markers) from
check/meta, known_findings.json, seeded/*/meta.json and /repo's git log, so that the document and the
machinery cannot drift apart."""
import glob, json, os, re, subprocess
V = os.path.dirname(os.path.dirname(os.path.abspath(__file__)))


def built():
    kf = json.load(open(os.path.join(V, "known_findings.json")))["findings"]
    by = {}
    for e in kf:
        by.setdefault(e["property"], []).append(e)
    rows = ["| id | specification modules | deciding technique (check/meta) | known findings (KNOWN-FINDING, exit 0) | repaired (fix: commits) |",
            "|----|----|----|----|----|"]
    for l in open(os.path.join(V, "properties.jsonl")):
        pid = json.loads(l)["id"]
        mp = os.path.join(V, "check", "meta", pid + ".json")
        if not os.path.exists(mp):
            rows.append("| %s | — | not applicable (section 5) | | |" % pid)
            continue
        m = json.load(open(mp))
        k = ["`%s`" % e["key"].split(":", 1)[1] for e in by.get(pid, []) if e["status"] == "known"]
        f = ["`%s` (%s)" % (e["key"].split(":", 1)[1], e.get("commit", "?")) for e in by.get(pid, []) if e["status"] == "fixed"]
        rows.append("| %s | %s | %s | %s | %s |" % (pid, ", ".join(m["specs"]), m["technique"].replace("|", "/"), "<br>".join(k), "<br>".join(f)))
    return "\n".join(rows)


def findings():
    kf = json.load(open(os.path.join(V, "known_findings.json")))["findings"]
    rows = ["| property | key | status | what fails (the specific input / call site / history) |", "|----|----|----|----|"]
    for e in kf:
        st = e["status"] + (" " + e["commit"] if e.get("commit") else "")
        rows.append("| %s | `%s` | %s | %s |" % (e["property"], e["key"], st, e["what"].replace("|", "/").replace("\n", " ")[:600]))
    return "\n".join(rows)


def seeded():
    rows = ["| seeded change | property | what it does | needs | caught by |", "|----|----|----|----|----|"]
    for d in sorted(glob.glob(os.path.join(V, "seeded", "*"))):
        mp = os.path.join(d, "meta.json")
        if not os.path.exists(mp):
            continue
        m = json.load(open(mp))
        vc = m.get("verified_by_coordinator", {})
        rows.append("| %s | %s | %s | %s | %s — %s |" % (
            os.path.basename(d), m.get("property", "?"), str(m.get("summary", ""))[:400].replace("|", "/").replace("\n", " "),
            str(m.get("needs", ""))[:300].replace("|", "/").replace("\n", " "),
            "caught" if vc.get("caught_by_check") else "MISSED", str(vc.get("check_output_tail", ""))[:200].replace("|", "/")))
    return "\n".join(rows)


def commits():
    out = subprocess.run(["git", "-C", "/repo", "log", "--reverse", "--format=%h %s"], stdout=subprocess.PIPE, text=True).stdout
    rows = []
    for l in out.splitlines():
        h, s = l.split(" ", 1)
        if s.startswith("fix:") or s.startswith("verif hooks:"):
            rows.append("- `%s` %s" % (h, s))
    return "\n".join(rows)


def main():
    p = os.path.join(V, "DESIGN.md")
    s = open(p).read()
    for name, fn in (("built", built), ("findings", findings), ("seeded", seeded), ("commits", commits)):
        a, b = "<!-- BEGIN:%s -->" % name, "<!-- END:%s -->" % name
        if a in s and b in s:
            s = s[:s.index(a) + len(a)] + "\n" + fn() + "\n" + s[s.index(b):]
    open(p, "w").write(s)


if __name__ == "__main__":
    main()
