"""C20 - reopening storage returns exactly what was stored. Spec: Database.tla (WithReopen).

`Reopen` is a stuttering step of every read of the specification (TLC: MergeAndReopenInvisible and, at the
implementation level - what lives in memory only: the permanent store's state cache, the temps' state caches -
MemoryInvisible on Database_reopen_mc.cfg). Binding A on a file-backed leveldb under the run's work dir:
  1. the shortest path to every distinct state of the exhaustive instance, (a) with Reopen after
     every action ("close/reopen after every block and after every merge"; nothing that lives in memory is
     older than one action), (b) with every read performed where the path reads and ONE Reopen at the end
     (what lives in memory is as old as the path);
  2. the shortest path to every distinct state of Database_reopen_mem_mc_*.cfg: chains of 4 blocks, the spec
     chooses per block whether the block write database has a state cache and WHERE Reopen happens; the view
     includes the memory and the last action's effect on it (a merge that invalidates a cached key, a Reopen
     that forgets cached keys / temp caches); a Reopen is appended to every path;
  3. -simulate behaviours of Database_reopen_sim.cfg (blocks of several size classes, merges, removals, pool
     puts, Reopen, NoRead), half of them with an additional Reopen after every action, half with the spec's
     Reopens only and one at the end.
At every Reopen the harness takes all reads (objects by reference; every ...Bytes read verbatim:
encoder hint, meta, body; pool items), closes pool, Center, permanent store and storage, opens
them again and repeats the reads. Verdict = before vs after (the statement); what differs from
the model but not across a reopen is C19's business and only counted.
"""
import os
import random
import re
from vlib import core
from props import c19

ID = "C20"
REOPEN = {"name": "Reopen"}


def with_reopens(case, every=True, at_end=False):
    """Reopen is enabled in every state and changes no read (the spec), so it may be inserted anywhere;
    the reads expected after it are the ones of the step before. every: after every action (not after the
    path's Read steps - the harness reads everything at a Reopen anyway); at_end: one after the last step."""
    acts, reads, ilh, ln, tf = [], [], [], [], []
    n = len(case["acts"])
    for i, a in enumerate(case["acts"]):
        acts.append(a)
        reads.append(case["reads"][i])
        ilh.append(case["ilh"][i])
        ln.append(case["len"][i])
        tf.append(case["tf"][i])
        if (a["name"] not in ("Reopen", "Read") and every) or (at_end and i == n - 1 and a["name"] != "Reopen"):
            acts.append(REOPEN)
            reads.append(case["reads"][i])
            ilh.append(case["ilh"][i])
            ln.append(case["len"][i])
            tf.append(case["tf"][i])
    out = dict(case)
    out.update({"acts": acts, "reads": reads, "ilh": ilh, "len": ln, "tf": tf})
    return out


def key_of(d):
    read = re.sub(r"\(.*\)$", "", d["read"])
    if d["part"] == "pool":
        return "pool:%s" % read
    return "%s.%s" % (read, d["part"])


def judge(ctx, cases, rows, source):
    st = ctx.extra.setdefault("counts", {"reopens": 0, "pool_items": 0, "steps": 0, "c19_class_diffs": 0})
    for c in cases:
        r = rows[c["id"]]
        acts = c19.canon_acts(c["acts"])
        ctx.traces += 1
        st["reopens"] += r["reopens"]
        st["pool_items"] += r["pooln"]
        st["steps"] += r["steps"]
        ctx.case(acts, nontrivial=r["reopens"] > 0 and any(a[0] == "Write" for a in acts),
                 sample={"source": source, "acts": acts[:24], "reopens": r["reopens"]})
        if r.get("panic"):
            ctx.violation("panic", "panic while replaying %s: %s" % (acts[-8:], r["panic"][:400]), {"case": c, "result": r})
            continue
        if r.get("fatal"):
            m = re.match(r"step (\d+): (write|merge all|merge|remove|pool put)", r["fatal"])
            if m and r["reopens"] > 0:
                # a call that the model allows fails on a database that has been reopened: the reopen lost something
                ctx.violation("after-reopen:%s-fails" % m.group(2).replace(" ", "-"),
                              "after %d reopen(s) the %s of step %s fails: %s; history %s" % (
                                  r["reopens"], m.group(2), m.group(1), r["fatal"][:300], acts[:int(m.group(1)) + 1][-8:]),
                              {"source": source, "case": c, "result": r})
                continue
            raise core.MachineryError("replay of case %s stopped: %s" % (c["id"], r["fatal"]))
        diffs = r.get("reopen", [])
        raw_reads = set(d["read"] for d in diffs if d["part"] in ("enchint", "meta", "body", "found"))
        seen = set()
        for d in diffs:
            if d["part"] == "object" and d["read"] in raw_reads:
                continue        # the same read already differs byte-wise
            k = key_of(d)
            if k in seen:
                continue
            seen.add(k)
            ctx.violation(k, "%s: %s before closing was %s, after reopening %s; history %s" % (
                d["read"], d["part"], d["before"], d["after"], acts[:d["step"] + 1][-8:]),
                {"source": source, "diff": d, "all": diffs[:20], "errs": r.get("errs", [])[:5], "case": c})
        # differences from the model: after a reopen they are C20's only if the reopen introduced them,
        # and then the before/after comparison above has them already
        st["c19_class_diffs"] += len(r.get("vsspec", []))


def run_cases(ctx, cases, keys, maxlen, tag):
    cp = os.path.join(ctx.work, "cases-%s.ndjson" % tag)
    rp = os.path.join(ctx.work, "res-%s.ndjson" % tag)
    core.write_ndjson(cp, cases)
    ctx.vh([ID, "replay", "--in", cp, "--out", rp, "--keys", ",".join(keys), "--maxlen", maxlen,
            "--dir", os.path.join(ctx.work, "ldb-" + tag)], timeout=3000)
    rows = {r["id"]: r for r in core.read_ndjson(rp)}
    if len(rows) != len(cases):
        raise core.MachineryError("harness answered %d of %d cases (%s)" % (len(rows), len(cases), tag))
    return rows


def run(ctx):
    quick = ctx.tier == "quick"
    rng = random.Random(ctx.seed)
    import time
    t0 = [time.time()]
    ph = ctx.extra.setdefault("phase_s", {})

    def phase(name):
        ph[name] = round(time.time() - t0[0], 1)
        t0[0] = time.time()
    # the model: Reopen (and merging) changes no read
    ctx.tlc("Database", "Database_reopen_mc.cfg", timeout=900)
    phase("tlc_model")

    # 1. every distinct state of the exhaustive instance, Reopen after every action
    r, states = ctx.tlc_dump_steps("Database", "Database_mc_quick.cfg", timeout=1500)
    if quick:
        # an eighth of the states (seeded), always with the deepest ones' shapes represented
        off = ctx.seed % 8
        states = [s for i, s in enumerate(states) if i % 8 == off]
    if not quick:
        r2, st2 = ctx.tlc_dump_steps("Database", "Database_mc_thorough.cfg", timeout=1500)
        st2 = [s for s in st2 if s["len"] == 4]
        rng.shuffle(st2)
        states = states + st2[:1500]
    phase("tlc_exhaustive")
    cases = []
    for i, s in enumerate(states):
        pc, wc = (0, 2, 4096)[i % 3], (0, 1, 64)[(i // 3) % 3]
        # (a) nothing in memory is older than one action
        cases.append(with_reopens(c19.path_case(len(cases), s, permcache=pc, writecache=wc)))
        # (b) the memory is as old as the path: every read where the path reads, one Reopen at the end
        if len(s["path"]) > 2:
            cases.append(with_reopens(c19.path_case(len(cases), s, permcache=(4096, 2)[i % 2], writecache=wc, reads_in_path=True),
                                      every=False, at_end=True))
    rows = run_cases(ctx, cases, c19.KEYS_Q, 4, "exh")
    judge(ctx, cases, rows, "exhaustive")
    ctx.extra["exhaustive_states_replayed"] = len(cases)
    phase("replay_exhaustive")

    # 2. memory: chains of 4 blocks, per-block state cache choice, Reopen where the spec takes it, one at the end
    cfg_m = "Database_reopen_mem_mc_quick.cfg" if quick else "Database_reopen_mem_mc_thorough.cfg"
    r, states = ctx.tlc_dump_steps("Database", cfg_m, timeout=1500)
    phase("tlc_mem")
    states = [s for s in states if s["rd"]]
    nall = len(states)
    is_merge_drop = lambda s: bool(s["mem"]["eff"]["drop"]) and s["a"]["name"] in ("MergeOne", "MergeAll")
    ndrop = sum(1 for s in states if is_merge_drop(s))
    per = 3 if quick else 40
    states, nstrata = c19.stratified(
        states, lambda s: (s["a"]["name"], s["mem"]["eff"]["tc"], bool(s["mem"]["eff"]["drop"]), len(s["mem"]["pc"]), s["len"],
                           any(a["name"] == "Reopen" for a in s["path"])), per, rng, must=is_merge_drop)
    cases = [with_reopens(c19.path_case(i, s, permcache=(4096, 2, 4096)[i % 3], writecache=(64, 1)[(i // 3) % 2], model_wc=True,
                                        reads_in_path=True), every=False, at_end=True) for i, s in enumerate(states)]
    rows = run_cases(ctx, cases, c19.KEYS_Q, 4, "mem")
    judge(ctx, cases, rows, "memory")
    ctx.extra["memory_states"] = {"states": nall, "strata": nstrata, "replayed": len(cases),
                                  "merge_invalidates_cached_key": ndrop}
    if ndrop == 0:
        raise core.MachineryError("no state in which a merge invalidates a cached key")
    phase("replay_mem")

    # 3. random behaviours with pool puts, size classes, per-block state cache choice, NoRead steps
    num, depth = (40, 30) if quick else (300, 40)
    _, behs = ctx.tlc_simulate("Database", "Database_reopen_sim.cfg", num=num, depth=2 * depth)
    cases = []
    for i, b in enumerate(behs):
        c = c19.steps_to_case(i, b, permcache=(0, 2, 4096)[i % 3], writecache=(1, 64)[(i // 3) % 2], model_wc=True)
        # even: a Reopen after every action; odd: the spec's own Reopens and one at the end
        cases.append(with_reopens(c) if i % 2 == 0 else with_reopens(c, every=False, at_end=True))
    rows = run_cases(ctx, cases, ["a", "b", "SUF", "POL"], 6, "sim")
    judge(ctx, cases, rows, "simulate")
    phase("simulate")

    if ctx.extra["counts"]["reopens"] == 0:
        raise core.MachineryError("no reopen was performed")
    ctx.exhaustive = True
    ctx.rule = ("behaviours of Database.tla replayed on a file-backed leveldb, all reads compared before closing / after "
                "reopening; exhaustive part: shortest path to %s distinct state of Database_mc_quick.cfg%s, once with Reopen "
                "after every action and once with all the path's reads and one Reopen at the end; memory part: shortest path to "
                "the distinct states (view includes memory and the last action's effect on it) of %s (stratified sample + "
                "every merge that invalidates a cached key), Reopen where the spec takes it and at the end; random part: "
                "-simulate of Database_reopen_sim.cfg with pool puts and size classes, half with Reopen after every action; "
                "non-trivial = at least one block and one reopen; distinct by action sequence" % (
                    "every eighth (seeded)" if quick else "every",
                    "" if quick else " + 1500 sampled 4-block states of Database_mc_thorough.cfg", cfg_m))
    ctx.assumptions = [
        "quiescent points only: the storage is closed between calls, never inside one (crashes are C21)",
        "TempPool.LastVoteproofs is memory-only by design and not part of the compared pool contents",
        "pool operations' header time stamps are part of the compared bytes (they are stored, not regenerated)",
    ]
