"""C15 - importing a block range stores every block. Spec: Import.tla.

1. TLC checks the implementation-level transcription of ImportBlocks/BatchWork (variant
   "fixed", every completion order of the jobs of a batch, every single fault) against the
   statement; the "pinned" variant is run too and is expected to violate it (candidates).
2. Binding A: TLC enumerates every case (from, count, limit, fault) with what the statement
   demands and what each variant of the transcription predicts; every case is replayed into
   the real isaacblock.ImportBlocks with recording importers. Verdicts come from the real
   run only: success reported => every height of A..B stored (saved, not cancelled), merged
   (deferred merge + merge-all) and B merged last.
"""
import os
import re
import random
from vlib import core



def final_coverage_zero(r):
    """actions with count 0 in the *final* coverage report only: with -coverage 1 TLC also prints interim
    reports every minute, in which actions the breadth-first search has not reached yet show 0:0."""
    mark = "The coverage statistics at"
    at = r.out.rfind(mark)
    if at < 0:
        raise core.MachineryError("no coverage report in the TLC output")
    z = []
    for m in re.finditer(r"^<(\w+) line .*?>: (\d+):(\d+)$", r.out[at:], re.M):
        if int(m.group(2)) == 0 and int(m.group(3)) == 0:
            z.append(m.group(1))
    taken = {m.group(1) for m in re.finditer(r"^<(\w+) line .*?>: (\d+):(\d+)$", r.out[at:], re.M)
             if int(m.group(2)) > 0 or int(m.group(3)) > 0}
    return [a for a in z if a not in taken]      # an action split into several disjuncts counts as taken if one is


def _set(a, b):
    return "{" + ", ".join(str(i) for i in range(a, b + 1)) + "}"


def _rand_cfg(ctx, rng, ncounts, nlimits):
    counts = sorted(rng.sample(range(41, 201), ncounts))
    limits = set()
    for c in counts[: nlimits // 2]:
        divs = [d for d in range(2, 101) if c % d == 0]
        if divs:
            limits.add(rng.choice(divs))
    while len(limits) < nlimits:
        limits.add(rng.randint(1, 100))
    limits = sorted(limits)
    froms = sorted({0, rng.randint(1, 1000)})
    txt = """INIT Init
NEXT Next
CONSTANTS
  Counts = {%s}
  Limits = {%s}
  Froms = {%s}
  FaultKinds = {}
  Variants = {"pinned", "fixed"}
  Interleave = FALSE
  Emit = TRUE
CHECK_DEADLOCK FALSE
""" % (", ".join(map(str, counts)), ", ".join(map(str, limits)), ", ".join(map(str, froms)))
    d = ctx._stage_spec()
    with open(os.path.join(d, "Import_rand.cfg"), "w") as f:
        f.write(txt)
    return {"counts": counts, "limits": limits, "froms": froms}


def replay_isolating_crashes(ctx, prop, nrows, inp, out, timeout=1500):
    """run the harness; a panic in a goroutine started by the code under test kills the harness
    process: then replay sequentially and attribute each crash to the first case without result.
    returns (results by index, {index: stderr tail})."""
    p = ctx.vh([prop, "replay", "--in", inp, "--out", out], timeout=timeout, check=False)
    if p.returncode == 0:
        return {r["i"]: r for r in core.read_ndjson(out)}, {}
    if "panic" not in p.stderr and "fatal error" not in p.stderr:
        raise core.MachineryError("vh %s exited %d:\n%s" % (prop, p.returncode, p.stderr[-3000:]))
    res, crashes, start = {}, {}, 0
    while start < nrows and len(crashes) < 5:
        part = out + ".seq"
        if os.path.exists(part):
            os.remove(part)
        p = ctx.vh([prop, "replay", "--in", inp, "--out", part, "--seq", "1", "--start", start], timeout=timeout, check=False)
        got = core.read_ndjson(part) if os.path.exists(part) else []
        for r in got:
            res[r["i"]] = r
        if p.returncode == 0:
            break
        if "panic" not in p.stderr and "fatal error" not in p.stderr:
            raise core.MachineryError("vh %s exited %d:\n%s" % (prop, p.returncode, p.stderr[-3000:]))
        k = start + len(got)
        crashes[k] = p.stderr[:1500]
        start = k + 1
    return res, crashes


def _key(c):
    f = c["fault"]
    return (c["from"], c["count"], c["limit"], f["kind"], f["at"])


def classify(c, r):
    """key of a violating real run (class of the input), see CONVENTIONS.md."""
    cnt, lim, frm, kind = c["count"], c["limit"], c["from"], c["fault"]["kind"]
    rng = list(range(frm, frm + cnt))
    if r.get("panic"):
        return "panic(fault=%s)" % kind
    unstored = sorted(set(rng) - set(r["stored"]))
    unmerged = sorted((set(rng) - set(r["merged"])) | (set(rng) - set(r["perm"])))
    if unstored or unmerged:
        lastbatch = rng[-lim:]
        if cnt % lim == 0 and unstored == lastbatch and not (set(lastbatch) & set(r["merged"])) and (
                kind == "none" or c["fault"]["at"] in lastbatch):
            # the last batch was never handed to saveImporters (so a fault inside it was never met either)
            return "count%limit==0"
        if kind != "none":
            return "success-despite-fault(%s)" % kind
        what = "unstored" if unstored else "unmerged"
        if cnt % lim == 0:
            return what + "(count%limit==0;not-the-whole-last-batch)"
        return what + "(count%limit!=0)"
    if kind != "none":
        return "success-despite-fault(%s)" % kind
    if not r["merged"] or r["merged"][-1] != rng[-1]:
        return "last-merged!=B"
    return None


def run(ctx):
    quick = ctx.tier == "quick"
    # ---- 1. the transcription against the statement -------------------------------------
    cfg = "Import_mc_quick.cfg" if quick else "Import_mc_thorough.cfg"
    r = ctx.tlc("Import", cfg, args=[] if quick else ["-coverage", "1"], timeout=1500)
    ctx.extra["mc_fixed"] = {"cfg": cfg, "distinct": r.distinct, "generated": r.generated, "wall_s": round(r.wall, 1)}
    if not quick:
        zero = [z for z in final_coverage_zero(r) if z in ("SavePrevBatch", "AllocBatch", "Work", "EndBatch", "FinalSave", "Init")]
        ctx.extra["coverage_zero_actions"] = zero
        if zero:
            raise core.MachineryError("actions never taken in %s: %s" % (cfg, zero))
    rp = ctx.tlc("Import", "Import_mc_pinned.cfg", timeout=600, allow_violation=True)
    ctx.extra["mc_pinned"] = {"violated": rp.violated, "distinct": rp.distinct}

    # ---- 2. cases enumerated by TLC -------------------------------------------------------
    steps = []
    for c in (["Import_cases_quick.cfg", "Import_faults_quick.cfg"] if quick
              else ["Import_cases_thorough.cfg", "Import_faults_thorough.cfg"]):
        rr, st = ctx.tlc_dump_steps("Import", c, timeout=1500, workers=4)
        ctx.extra.setdefault("case_cfgs", {})[c] = {"distinct": rr.distinct, "cases": len(st), "wall_s": round(rr.wall, 1)}
        steps.extend(st)
    rng = random.Random(ctx.seed)
    ctx.extra["random_instance"] = _rand_cfg(ctx, rng, 6 if quick else 24, 6 if quick else 16)
    _, st = ctx.tlc_dump_steps("Import", "Import_rand.cfg", timeout=1500, workers=4)
    steps.extend(st)

    cases = {}
    for s in steps:
        k = _key(s)
        c = cases.setdefault(k, {"from": s["from"], "count": s["count"], "limit": s["limit"], "fault": s["fault"],
                                 "want": s["want"], "impl": {}})
        c["impl"][s["variant"]] = s["impl"]
    order = sorted(cases)
    rows = []
    for i, k in enumerate(order):
        c = cases[k]
        rows.append({"i": i, "from": c["from"], "count": c["count"], "limit": c["limit"], "fault": c["fault"]})
    inp = os.path.join(ctx.work, "cases.ndjson")
    out = os.path.join(ctx.work, "res.ndjson")
    core.write_ndjson(inp, rows)
    resd, crashes = replay_isolating_crashes(ctx, "C15", len(rows), inp, out)
    for k, tail in crashes.items():
        # the process died inside this call: ImportBlocks panicked in one of its job goroutines
        resd[k] = {"i": k, "ok": False, "panic": tail, "stored": [], "merged": [], "perm": [], "crashed_process": True}
    ctx.extra["process_crashes"] = len(crashes)
    if not crashes and len(resd) != len(rows):
        raise core.MachineryError("harness answered %d of %d cases" % (len(resd), len(rows)))
    res = [resd.get(i) for i in range(len(rows))]

    ctx.exhaustive = True
    ctx.rule = ("every (from, count, limit, single fault) of Import.tla's case configs (%s tier) plus a seeded instance "
                "with counts 41..200; one real ImportBlocks call per case; non-trivial = every case; distinct by "
                "(from,count,limit,fault)" % ctx.tier)
    match = {"pinned": 0, "fixed": 0, "neither": 0}
    neither = []
    cands, reproduced, model_only = 0, 0, []
    unexpected_err = []
    sac = 0
    for k, row in zip(order, res):
        if row is None:          # not replayed: the crash budget was used up
            ctx.extra["not_replayed_after_crashes"] = ctx.extra.get("not_replayed_after_crashes", 0) + 1
            continue
        c = cases[k]
        want = c["want"]
        key = None
        if row.get("panic") or row["ok"]:
            key = classify(c, row)
        elif want["ok"]:
            unexpected_err.append({"case": rows[row["i"]], "err": row.get("err")})
        ctx.case(list(k), nontrivial=True,
                 sample={"case": rows[row["i"]], "real": {x: row[x] for x in ("ok", "stored", "merged", "perm")},
                         "want_ok": want["ok"]})
        ctx.traces += 1
        if key:
            what = "ImportBlocks(from=%d, to=%d, batchlimit=%d, fault=%s@%d) %s; stored=%s merged=%s merge-all covered=%s" % (
                c["from"], c["from"] + c["count"] - 1, c["limit"], c["fault"]["kind"], c["fault"]["at"],
                "panicked" if row.get("panic") else "returned nil", _brief(row["stored"]), _brief(row["merged"]),
                _brief(row["perm"]))
            ctx.violation(key, what, {"case": rows[row["i"]], "want": want, "real": row, "transcription": c["impl"]})
        # which variant of the transcription does the code follow (information only)
        real = ("panic" if row.get("panic") else "ok" if row["ok"] else "err",
                sorted(row["stored"]), row["merged"], sorted(row["perm"]))
        if row.get("save_after_cancel"):
            sac += 1
        m = [v for v, p in c["impl"].items()
             if (p["ret"], sorted(p["stored"]), p["merged"], sorted(p["perm"])) == real]
        if len(m) == 2:
            match["pinned"] += 1
            match["fixed"] += 1
        elif m:
            match[m[0]] += 1
        else:
            match["neither"] += 1
            if len(neither) < 5:
                neither.append({"case": rows[row["i"]], "real": real, "transcription": c["impl"]})
        # candidates: the pinned transcription predicts success without all heights stored
        p = c["impl"].get("pinned")
        if p and p["ret"] == "ok" and sorted(p["stored"]) != want["stored"]:
            cands += 1
            if key:
                reproduced += 1
            elif len(model_only) < 5:
                model_only.append(rows[row["i"]])
            else:
                model_only.append(None)
    ctx.extra["real_calls"] = len(rows)
    _real_storage(ctx, quick)
    ctx.extra["code_follows_transcription"] = match
    if neither:
        ctx.extra["transcription_mismatch_samples"] = neither
    ctx.extra["pinned_model_candidates"] = {"total": cands, "reproduced_on_real_code": reproduced,
                                            "model_only": len(model_only)}
    ctx.extra["model_only_counterexamples"] = [m for m in model_only if m][:5]
    ctx.extra["observation_save_returned_after_cancel_on_error_path"] = sac
    ctx.extra["stronger_reading_unexpected_errors"] = {"n": len(unexpected_err), "samples": unexpected_err[:3]}
    ctx.assumptions = [
        "stub replay: importers are recording stubs (isaacblock.DummyBlockImporter), block maps are real isaacblock.BlockMap values without items; real-storage replay: real LocalFSWriter blocks, real BlockImporter, real Center over leveldb mem storages, without faults",
        "stored(h) = Save returned nil and no CancelImport afterwards; merged(h) = the deferred function returned nil and a later merge-all call returned nil",
        "a fault is a single failing environment call for one height; an import that errors without a fault is only reported (stronger reading)",
    ]


def _real_storage(ctx, quick):
    """the same question asked of the real storage: real blocks written by LocalFSWriter, imported by the
    real BlockImporter into a real Center; observable = Center.LastBlockMap()/BlockMap(h) and the imported fs."""
    rows = []
    for frm in ([0] if quick else [0, 3]):
        for cnt in range(1, 7 if quick else 13):
            for lim in range(1, 8 if quick else 14):
                rows.append({"i": len(rows), "from": frm, "count": cnt, "limit": lim})
    inp = os.path.join(ctx.work, "real.ndjson")
    out = os.path.join(ctx.work, "realres.ndjson")
    core.write_ndjson(inp, rows)
    ctx.vh(["C15", "real", "--in", inp, "--out", out], timeout=1500)
    res = core.read_ndjson(out)
    if len(res) != len(rows):
        raise core.MachineryError("real mode answered %d of %d cases" % (len(res), len(rows)))
    nerr = 0
    for c, r in zip(rows, res):
        if r.get("setup_error"):
            raise core.MachineryError("real mode set-up failed for %s: %s" % (c, r["setup_error"]))
        b = c["from"] + c["count"] - 1
        rng = list(range(c["from"], b + 1))
        ctx.case(["real", c["from"], c["count"], c["limit"]], nontrivial=True)
        ctx.traces += 1
        key = None
        if r.get("panic"):
            key = "panic(real-importer)"
        elif r["ok"]:
            missing = sorted(set(r["missing"]) | set(r["missing_fs"]))
            if missing or r["last_height"] != b:
                if c["count"] % c["limit"] == 0 and missing == rng[-c["limit"]:]:
                    key = "count%limit==0"
                elif missing:
                    key = "unstored(real-importer;count%%limit%s0)" % ("==" if c["count"] % c["limit"] == 0 else "!=")
                else:
                    key = "last-stored!=B(real-importer)"
            elif not r["last_voteproofs_set"]:
                key = "last-voteproofs-not-set(real-importer)"
        else:
            nerr += 1
        if key:
            ctx.violation(key, "real BlockImporter + Center: ImportBlocks(from=%d, to=%d, batchlimit=%d) %s; "
                          "Center.LastBlockMap() height=%d, heights without BlockMap in the database %s, in the imported fs %s" % (
                              c["from"], b, c["limit"], "panicked" if r.get("panic") else "returned nil",
                              r["last_height"], _brief(r["missing"]), _brief(r["missing_fs"])),
                          {"case": c, "real": r})
    ctx.extra["real_storage_imports"] = len(rows)
    ctx.extra["real_storage_unexpected_errors"] = nerr


def _brief(xs):
    xs = list(xs)
    if len(xs) <= 8:
        return str(xs)
    return "[%d..%d](%d)" % (xs[0], xs[-1], len(xs)) if xs == list(range(xs[0], xs[0] + len(xs))) else "%s...(%d)" % (xs[:6], len(xs))
