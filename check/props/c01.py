"""C01 - vote tally. Spec: Tally.tla. Binding A: every distinct state of the exhaustive TLC
run (and of the -simulate walks on a larger instance) is replayed into base.FindVoteResult,
base.FindMajority and Threshold.VoteResult; result and key must equal the spec's."""
import os
from vlib import core


def classify(c):
    total = sum(c["cnt"])
    if total > c["q"] + max(c["cnt"]):
        return "uint-wrap(total>q+max)"
    return "tally-mismatch(%s)" % c.get("entry_", "?")


def run(ctx):
    cfg = "Tally_mc_quick.cfg" if ctx.tier == "quick" else "Tally_mc_thorough.cfg"
    r, steps = ctx.tlc_dump_steps("Tally", cfg, timeout=1500)
    ctx.exhaustive = True
    ctx.rule = ("every distinct state (q, t10|r, cnt) of Tally.tla under %s plus -simulate walks of Tally_sim.cfg; "
                "non-trivial = at least one vote cast; distinct by (q,r,t10,cnt)" % cfg)
    _, behs = ctx.tlc_simulate("Tally", "Tally_sim.cfg", num=300 if ctx.tier == "quick" else 5000, depth=80)
    for b in behs:
        steps.extend(b)
        ctx.traces += 1
    cases = os.path.join(ctx.work, "cases.ndjson")
    core.write_ndjson(cases, steps)
    res = os.path.join(ctx.work, "res.ndjson")
    ctx.vh(["C01", "replay", "--in", cases, "--out", res], timeout=1200)
    rows = core.read_ndjson(res)
    if len(rows) != len(steps):
        raise core.MachineryError("harness answered %d of %d cases" % (len(rows), len(steps)))
    calls = 0
    skipped = 0
    for c, row in zip(steps, rows):
        calls += row["calls"]
        skipped += row.get("skipped_threshold_entry", 0)
        ctx.case([c["q"], c["r"], c["t10"], c["cnt"]], nontrivial=sum(c["cnt"]) > 0,
                 sample={"case": c, "calls": row["calls"], "ok": row["ok"]})
        if not row["ok"]:
            c2 = dict(c)
            c2["entry_"] = row["entry"]
            ctx.violation(classify(c2), "%s(q=%d,r=%d,cnt=%s) = %s, statement says %s" % (
                row["entry"], c["q"], c["r"], c["cnt"], row["got"], row["want"]), {"case": c, "result": row})
    ctx.traces += len(steps)
    ctx.extra["real_calls"] = calls
    ctx.extra["threshold_entry_skipped_as_C02"] = skipped
    ctx.assumptions = ["votes are strings; facts abstracted to F1..Fn", "Req mismatches of Threshold.Threshold belong to C02"]
