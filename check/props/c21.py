"""C21 - block commit is atomic across crashes. Spec: BlockCommit.tla (+ BlockCommitTrace.tla,
Database.tla for the reads).

BlockCommit.tla is the implementation-level write protocol of committing a block X and merging it
into the permanent store (block write batches of 128, Put of block map / proof keys / merged
marker, the next block, the permanent merge in parallel batches of 333, removal of merged temps)
with Crash after any write and Recover = what a node start does. TLC enumerates every distinct
crash configuration for a small block (one permanent batch) and large ones (3 and 4 batches).
Binding A: each configuration is forced on the real code over a file-backed leveldb through the
verif write hook of storage/leveldb (sequential writes: the first k land; X's parallel permanent
batches: exactly the chosen subset lands), all handles are dropped, the database is started again
and every read is compared with Database.tla's Reads of the chain up to the reported height; every
filler state of X must be readable iff X is visible; the next block must be writable.
Binding B: the write log of the fault-free run is validated by BlockCommitTrace.tla, so the
protocol whose crash points are explored is the code's.
"""
import os
from vlib import core
from props import c19

ID = "C21"
SIZES = {"small": (0, 14, True), "large": (350, 714, True), "xlarge": (600, 1214, True),
         "largens": (350, 711, False)}     # filler states, batched keys of X, X changes the suffrage
KNOWN_KEY = "perm-merge;blockmap-batch-before-others"


def classify(c, r):
    """name the crash configuration class and what is wrong after the restart."""
    perm = sorted(c["perm"])
    np_, bmb = c["np"], c["bmbatch"]
    if c["seq"] < c["nseq"]:
        where = "crash-after(%s)" % (c["seqnames"][c["seq"] - 1] if c["seq"] > 0 else "nothing")
    elif len(perm) < np_:
        if bmb in perm:
            where = "perm-merge;blockmap-batch-before-others"
        else:
            where = "perm-merge;blockmap-batch-missing"
    else:
        where = "after-perm-merge(rm=%d)" % c["rm"]
    return where


def run(ctx):
    quick = ctx.tier == "quick"
    sizes = ["small", "large"] if quick else ["small", "large", "xlarge", "largens"]
    st = ctx.extra.setdefault("counts", {"configurations": 0, "forced": 0, "infeasible": 0, "model_partial": 0,
                                         "partial_on_code": 0})
    # the model: the statement holds for one permanent batch, fails for several (candidate), holds when the batch
    # with the block map is written last (the repair a maintainer could choose)
    ctx.tlc("BlockCommit", "BlockCommit_small_prop.cfg", timeout=600)
    cand = ctx.tlc("BlockCommit", "BlockCommit_large_prop.cfg", args=["-noGenerateSpecTE"], allow_violation=True, timeout=600)
    ctx.tlc("BlockCommit", "BlockCommit_large_repaired.cfg", timeout=600)
    ctx.extra["model_AllOrNothing_violated_for_parallel_batches"] = bool(cand.safety_violation)

    cases = []
    logs = []
    for sz in sizes:
        nfill, nkeys, suf = SIZES[sz]
        r, states = ctx.tlc_dump_steps("BlockCommit", "BlockCommit_%s.cfg" % sz, timeout=900)
        for s in states:
            # the parallel phase depends on goroutine timing (a failed batch cancels the ones not yet started):
            # its configurations are tried three times in the thorough tier
            reps = 3 if (not quick and s["seq"] == s["nseq"] and 0 < len(s["perm"]) < s["np"]) else 1
            for _ in range(reps):
                c = dict(s)
                c.update({"id": len(cases), "mode": "crash", "nfill": nfill, "suf": suf, "size": sz, "nkeys": nkeys})
                cases.append(c)
        logs.append({"id": 100000 + len(logs), "mode": "log", "nfill": nfill, "suf": suf, "size": sz, "nkeys": nkeys,
                     "np": states[0]["np"], "nseq": states[0]["nseq"], "reads": [], "perm": [], "seqnames": []})
    cp = os.path.join(ctx.work, "cases.ndjson")
    rp = os.path.join(ctx.work, "res.ndjson")
    core.write_ndjson(cp, cases + logs)
    ctx.vh([ID, "run", "--in", cp, "--out", rp, "--dir", os.path.join(ctx.work, "ldb")], timeout=3000)
    rows = {r["id"]: r for r in core.read_ndjson(rp)}
    if len(rows) != len(cases) + len(logs):
        raise core.MachineryError("harness answered %d of %d cases" % (len(rows), len(cases) + len(logs)))

    # binding B: the fault-free write log is a behaviour of the protocol
    for lg in logs:
        r = rows[lg["id"]]
        if r.get("fatal") or r.get("panic"):
            raise core.MachineryError("fault-free run (%s): %s" % (lg["size"], r.get("fatal") or r.get("panic")))
        t = os.path.join(ctx.work, "trace-%s.ndjson" % lg["size"])
        events = [{"a": "Reset"}] + [{k: w[k] for k in ("a", "kind", "op", "n", "classes", "hasbm", "landed")} for w in r["log"]]
        core.write_ndjson(t, events)
        ok, res, hw = ctx.tlc_validate_trace("BlockCommitTrace", "BlockCommitTrace_%s.cfg" % lg["size"], t, timeout=600)
        ctx.traces += 1
        ctx.extra.setdefault("write_log_events", {})[lg["size"]] = len(events) - 1
        if not ok:
            ev = events[hw - 1] if hw and 0 < hw <= len(events) else None
            what = "write %s of the fault-free commit (%s block) is not a step of the protocol of BlockCommit.tla: %s" % (
                hw, lg["size"], ev) if hw else "the fault-free commit (%s block) ends before the protocol does (%s)" % (
                lg["size"], res.violated)
            ctx.violation("write-protocol(%s)" % (ev["kind"] if ev else "incomplete"), what,
                          {"size": lg["size"], "line": hw, "event": ev, "log": events[:60]})

    # binding A: every crash configuration
    for c in cases:
        r = rows[c["id"]]
        st["configurations"] += 1
        canon = [c["size"], c["seq"], sorted(c["perm"]), c["rm"]]
        if r.get("panic"):
            ctx.violation("panic", "panic in configuration %s: %s" % (canon, r["panic"][:400]), {"case_id": c["id"], "result": r})
            continue
        if r.get("fatal"):
            raise core.MachineryError("configuration %s: %s" % (canon, r["fatal"]))
        if r.get("infeasible"):
            st["infeasible"] += 1
            continue
        if r.get("nkeysx") != c["nkeys"]:
            raise core.MachineryError("block X has %s batched keys, the configuration of BlockCommit.tla says %s" % (
                r.get("nkeysx"), c["nkeys"]))
        st["forced"] += 1
        ctx.traces += 1
        ctx.case(canon, nontrivial=c["seq"] > 0, sample={"size": c["size"], "seq": c["seq"], "perm": c["perm"], "rm": c["rm"],
                                                          "last": r["last"], "model_last": c["last"], "model_x": c["x"]})
        if not c["ok"]:
            st["model_partial"] += 1
        where = classify(c, r)
        problems = []
        if r.get("diffs"):
            d = r["diffs"][0]
            problems.append("%s(%s) = %s, the chain up to height %d says %s" % (d["read"], d.get("arg", ""), d["got"], r["last"], d["want"]))
        x_visible = r["last"] >= 2
        if r["fill_total"]:
            if x_visible and r["fill_found"] < r["fill_total"]:
                problems.append("only %d of %d states of block 2 are readable although the last height is %d" % (
                    r["fill_found"], r["fill_total"], r["last"]))
            if not x_visible and r["fill_found"] > 0:
                problems.append("%d states of block 2 are readable although the last height is %d" % (r["fill_found"], r["last"]))
        if r.get("continue"):
            problems.append("the chain cannot go on: " + r["continue"])
        if problems:
            st["partial_on_code"] += 1
            ctx.violation(where, "%s block, %d sequential writes landed%s, permanent batches landed %s of %d (block map in batch %d), "
                                 "removals %d; after the restart: %s" % (
                                     c["size"], c["seq"], " (last: %s)" % c["seqnames"][c["seq"] - 1] if 0 < c["seq"] <= len(c["seqnames"]) else "",
                                     sorted(c["perm"]), c["np"], c["bmbatch"], c["rm"], "; ".join(problems)),
                          {"configuration": {k: c[k] for k in ("size", "seq", "perm", "rm", "nseq", "np", "bmbatch", "last", "x", "ok")},
                           "result": {k: r.get(k) for k in ("last", "diffs", "fill_found", "fill_total", "stopped", "continue", "errs")}})
        elif r["last"] != c["last"]:
            ctx.extra["model_last_differs"] = ctx.extra.get("model_last_differs", 0) + 1
    if st["forced"] == 0:
        raise core.MachineryError("no crash configuration could be forced")
    moc = []
    if cand.safety_violation and not any(KNOWN_KEY in k for k in list(ctx.known_hit) + [v[0] for v in ctx.viol]):
        moc.append("AllOrNothing fails in BlockCommit.tla when the batch holding the block map lands before another one; "
                   "not met on this tree")
    ctx.extra["model_only_counterexamples"] = moc
    ctx.exhaustive = True
    ctx.rule = ("every distinct crash configuration of BlockCommit.tla (sequential writes landed x subset of X's permanent "
                "batches landed x removals) for %s blocks, each forced on the real code and followed by a restart; non-trivial = "
                "at least one write landed; distinct by configuration" % "/".join(sizes))
    ctx.assumptions = [
        "a leveldb Put/Batch is atomic and durable (goleveldb is trusted); the crash is modelled at mitum's write boundary",
        "the batches of one permanent merge are issued concurrently, so any subset of them may have landed at a crash",
        "the block writer calls SetStates, SetOperations, SetBlockMap, SetSuffrageProof, Write, MergeBlockWriteDatabase in this order",
        "a start = new storage handle, LeveldbPermanent, Center (loadTemps), MergeAllPermanent - as launch.LoadDatabase does",
    ]
