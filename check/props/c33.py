"""C33 - job workers (util/worker.go). Spec: JobWorker.tla + JobWorkerTrace.tla (binding B).

JobWorker.tla: worker state (accepted/started/ended jobs, cancel cause - first wins, pending cancel
calls, Done) with runWorker's driver transcribed at implementation level; TLC checks the
statement's properties (incl. liveness: every accepted job ends) and produces the candidate
"RunJobWorker returns context.Canceled instead of the first error". The harness drives the real
workers (NewBaseJobWorker / NewErrCallbackJobWorker call by call with Done, Wait / LazyWait, late
NewJob, Close and parent cancellation; RunJobWorker / RunErrCallbackJobWorker; BatchWork) with
seeded job counts, worker sizes, failing jobs and cancellations; JobWorkerTrace.tla validates the
event log, searching the unlogged steps (cancel call of a failing job, acceptance point of a
NewJob call, effect of a cancellation)."""
import os
import re
from vlib import core


def split(events):
    hs, cur = [], None
    for e in events:
        if e["a"] in ("Reset", "Eof"):
            if cur is not None:
                hs.append(cur)
            cur = (e, []) if e["a"] == "Reset" else None
        elif cur is not None:
            cur[1].append(e)
    if cur is not None:
        hs.append(cur)
    return hs


def tlc_traces(ctx, hs):
    path = os.path.join(ctx.work, "part.ndjson")
    rows = []
    for (r, evs) in hs:
        rows.append(r)
        rows.extend(evs)
    rows.append({"a": "Eof"})
    core.write_ndjson(path, rows)
    ok, res, hw = ctx.tlc_validate_trace("JobWorkerTrace", "JobWorkerTrace.cfg", path, timeout=3000, dfs=True)
    if not ok:
        raise core.MachineryError("JobWorkerTrace did not finish: %s" % res.out[-1500:])
    m = re.findall(r'<<\s*"NOTOK",\s*\{([^}]*)\}\s*>>', res.out)
    if not m:
        raise core.MachineryError("JobWorkerTrace printed no NOTOK line: %s" % res.out[-1500:])
    return set(int(x) for x in re.sub(r"\s", "", m[-1]).split(",") if x), hw


def errclass(e):
    return {0: "nil", 100: "parent-cause", 101: "context-canceled", 102: "done-error", 150: "pref-error"}.get(
        e, "job-error" if 0 < e < 100 else "other-error")


def classify(r, evs, ev):
    a = ev.get("a", "?")
    kind = "batch" if r["kind"] == "batch" else ("run" if r["kind"].startswith("run") else "worker")
    if a in ("RunRet", "WaitRet"):
        e = ev["e"]
        if e == 0:
            return "%s:%s-nil-though-a-job-had-not-ended-or-failed" % (kind, a)
        if e == 101:
            return "%s:%s-context-canceled-instead-of-first-error" % (kind, a)
        return "%s:%s-%s-is-not-the-first-error" % (kind, a, errclass(e))
    if a == "Start":
        n = sum(1 for x in evs if x["a"] == "Start" and x["j"] == ev["j"])
        if n > 1:
            return "%s:job-started-twice" % kind
        return "%s:job-start-not-explained(batch-order,last,cancel-state)" % kind
    if a == "NewJobRet":
        return "worker:NewJob-%s" % ("accepted-after-done-or-cancel" if ev.get("ok") else "refused-while-open")
    if a == "Pref":
        return "batch:pref-before-previous-batch-ended-or-wrong-last"
    return "%s:unexplained-%s" % (kind, a)


def brief(evs, around):
    lo = max(0, around - 12)
    return [{k: v for k, v in e.items()} for e in evs[lo:around + 1]]


def run(ctx):
    quick = ctx.tier == "quick"
    ctx.tlc("JobWorker", "JobWorker_mc_quick.cfg" if quick else "JobWorker_mc_thorough.cfg", workers=4)
    ctx.tlc("JobWorker", "JobWorker_mc_errcb.cfg", workers=4)
    cand = ctx.tlc("JobWorker", "JobWorker_cand.cfg", workers=1, allow_violation=True, count=False)

    trace = os.path.join(ctx.work, "jobs.ndjson")
    num = 450 if quick else 4500
    ctx.vh(["C33", "record", "--num", num, "--trace", trace], timeout=3000)
    hs = split(core.read_ndjson(trace))
    if len(hs) < num:
        raise core.MachineryError("harness recorded %d of %d traces" % (len(hs), num))
    byi = {r["i"]: (r, evs) for (r, evs) in hs}
    ctx.rule = ("executions of the real workers: NewBaseJobWorker/NewErrCallbackJobWorker driven call by call (0..60 jobs, size 1..16, "
                "failing jobs, Done, Wait/LazyWait, late NewJob, Close, parent cancellation), RunJobWorker/RunErrCallbackJobWorker "
                "(1..40 x 1..16), BatchWork (size 1..40 x limit 1..40, failing jobs / pref), plus the schedule of TLC's candidate; "
                "non-trivial = at least one job ran; distinct by event sequence")
    kinds = {}
    for (r, evs) in hs:
        kinds[r["kind"]] = kinds.get(r["kind"], 0) + 1
        ctx.case([r["kind"], r["size"], r["limit"], [[e.get("a"), e.get("j"), e.get("e"), e.get("ok"), e.get("cc"), e.get("last"), e.get("c")] for e in evs]],
                 nontrivial=any(e["a"] == "Start" for e in evs),
                 sample={"kind": r["kind"], "size": r["size"], "limit": r["limit"], "events": evs[:20]})
    ctx.traces += len(hs)
    ctx.extra["traces_by_kind"] = kinds
    ctx.extra["jobs_run"] = sum(1 for (_, evs) in hs for e in evs if e["a"] == "Start")

    notok = set()
    CH = 1500
    for k in range(0, len(hs), CH):
        n, _ = tlc_traces(ctx, hs[k:k + CH])
        notok |= n
    ctx.extra["traces_not_explained"] = len(notok)
    seen_keys = {}
    forced_seen = False
    for i in sorted(notok):
        r, evs = byi[i]
        # cheap pre-classification to bound the single-trace TLC runs: 3 per (kind, last event kind)
        pre = (r["kind"], r.get("forced", ""))
        if seen_keys.get(pre, 0) >= 3:
            ctx.extra["traces_not_diagnosed"] = ctx.extra.get("traces_not_diagnosed", 0) + 1
            continue
        seen_keys[pre] = seen_keys.get(pre, 0) + 1
        _, hw = tlc_traces(ctx, [byi[i]])
        ev = evs[hw - 2] if hw and 2 <= hw <= len(evs) + 1 else {}
        key = classify(r, evs, ev)
        if r.get("forced"):
            forced_seen = True
        ctx.violation(key, "%s size=%s limit=%s%s: first event no behaviour of JobWorker.tla explains: %s after %s" % (
            r["kind"], r["size"], r["limit"], " (forced %s)" % r["forced"] if r.get("forced") else "", ev, brief(evs, hw - 2)[-8:]),
            {"reset": r, "unexplained_line": hw, "events": evs})
    mo = []
    if cand.safety_violation and not forced_seen:
        mo.append({"invariant": cand.violated, "schedule": "worker size 1, job 1 fails while the driver is inside NewJob(2)"})
    ctx.extra["model_only_counterexamples"] = mo
    ctx.assumptions = [
        "Wait returning an error does not have to wait for running jobs (the code returns as soon as the context is cancelled); "
        "Wait returning nil requires every accepted job to have ended",
        "the error a refused NewJob call returns is not constrained for a worker driven call by call; for RunJobWorker/BatchWork the "
        "returned error must be the first job error or the parent's cause",
        "which of two failing jobs cancels first is not observable: either error is accepted unless the logged cancellation "
        "states of the jobs' contexts exclude it",
    ]
