"""C33 - job workers (util/worker.go). Spec: JobWorker.tla + JobWorkerTrace.tla (binding B).

JobWorker.tla: worker state (accepted/started/ended jobs, cancel cause - first wins, pending cancel
calls, Done) with runWorker's driver transcribed at implementation level; TLC checks the
statement's properties (incl. liveness: every accepted job ends) and produces the candidate
"RunJobWorker returns context.Canceled instead of the first error". The harness drives the real
workers (NewBaseJobWorker / NewErrCallbackJobWorker call by call with Done, Wait / LazyWait, late
NewJob, Close and parent cancellation; RunJobWorker / RunErrCallbackJobWorker; BatchWork) with
seeded job counts, worker sizes, failing jobs and cancellations; JobWorkerTrace.tla validates the
event log, searching the unlogged steps (cancel call of a failing job, acceptance point of a
NewJob call, effect of a cancellation).

The end of a job goroutine is modelled as separate steps (callback returns / cancel with the error /
release the slot) in the order the constant EndOrder names: TLC shows that cancel-release keeps
"Wait's nil => no accepted job failed" and "nothing is accepted after a failed job gave its slot
back", and that release-cancel does not (JobWorker_order_rc_*.cfg, expected counterexamples). The
windows of those counterexamples - a Wait / NewJob / the driver of RunJobWorker and BatchWork
stepping between two tail steps of a failing job that is the last holder of a slot - are what the
harness aims at on the real code (harness/internal/c33/window.go: handshake + balanced delay +
swept offsets + contention on the context's mutex); the aimed histories are judged by the same
trace specification."""
import json
import os
import re
from vlib import core


def split(events):
    hs, cur = [], None
    for e in events:
        if e["a"] in ("Reset", "Eof"):
            if cur is not None:
                hs.append(cur)
            cur = (e, []) if e["a"] == "Reset" else None
        elif cur is not None:
            cur[1].append(e)
    if cur is not None:
        hs.append(cur)
    return hs


def tlc_traces(ctx, hs):
    """validates the traces in one TLC run; returns (indices of unexplained traces, {index: first unexplained event})"""
    path = os.path.join(ctx.work, "part.ndjson")
    rows, line = [], {}
    for (r, evs) in hs:
        line[r["i"]] = len(rows) + 1            # 1-based line of the trace's Reset
        rows.append(r)
        rows.extend(evs)
    rows.append({"a": "Eof"})
    core.write_ndjson(path, rows)
    ok, res, hw = ctx.tlc_validate_trace("JobWorkerTrace", "JobWorkerTrace.cfg", path, timeout=3000, dfs=True)
    if not ok:
        raise core.MachineryError("JobWorkerTrace did not finish: %s" % res.out[-1500:])
    m = re.findall(r'<<\s*"NOTOK",\s*\{([^}]*)\}\s*>>', res.out)
    if not m:
        raise core.MachineryError("JobWorkerTrace printed no NOTOK line: %s" % res.out[-1500:])
    notok = set(int(x) for x in re.sub(r"\s", "", m[-1]).split(",") if x)
    first = {}
    for (i, h) in re.findall(r'<<\s*"HWT",\s*(\d+),\s*(\d+)\s*>>', res.out):
        first[int(i)] = int(h) - line[int(i)] - 1   # index into the trace's events
    for i in notok:
        if i not in first:
            raise core.MachineryError("JobWorkerTrace printed no HWT line for trace %d: %s" % (i, res.out[-1500:]))
    return notok, first


def errclass(e):
    return {0: "nil", 100: "parent-cause", 101: "context-canceled", 102: "done-error", 150: "pref-error"}.get(
        e, "job-error" if 0 < e < 100 else "other-error")


def classify(r, evs, k):
    """key of the class of an unexplained trace; k = index of its first unexplained event"""
    ev = evs[k] if 0 <= k < len(evs) else {}
    a = ev.get("a", "?")
    kind = "batch" if r["kind"] == "batch" else ("run" if r["kind"].startswith("run") else "worker")
    before = evs[:max(k, 0)]
    errcb = r["kind"] in ("errcb", "runerrcb")
    failed = (not errcb) and any(x["a"] == "End" and x["e"] != 0 for x in before)
    if a in ("RunRet", "WaitRet"):
        e = ev["e"]
        if e == 0:
            if failed:
                return "%s:%s-nil-after-an-accepted-job-failed" % (kind, a)
            return "%s:%s-nil-though-a-job-had-not-ended-or-failed" % (kind, a)
        if e == 101:
            return "%s:%s-context-canceled-instead-of-first-error" % (kind, a)
        return "%s:%s-%s-is-not-the-first-error" % (kind, a, errclass(e))
    if a == "Start":
        n = sum(1 for x in evs if x["a"] == "Start" and x["j"] == ev["j"])
        if n > 1:
            return "%s:job-started-twice" % kind
        if failed and kind != "worker":
            return "%s:job-started-after-a-job-of-an-earlier-batch-failed" % kind
        return "%s:job-start-not-explained(batch-order,last,cancel-state)" % kind
    if a == "NewJobRet":
        if ev.get("ok") and failed and not any(x["a"] == "Done" for x in before):
            return "worker:NewJob-accepted-after-a-job-failed-and-freed-its-slot"
        return "worker:NewJob-%s" % ("accepted-after-done-or-cancel" if ev.get("ok") else "refused-while-open")
    if a == "Pref":
        if failed:
            return "batch:next-batch-prepared-after-a-job-failed"
        return "batch:pref-before-previous-batch-ended-or-wrong-last"
    return "%s:unexplained-%s" % (kind, a)


def brief(evs, around):
    lo = max(0, around - 12)
    return [{k: v for k, v in e.items()} for e in evs[lo:around + 1]]


def run(ctx):
    quick = ctx.tier == "quick"
    ctx.tlc("JobWorker", "JobWorker_mc_quick.cfg" if quick else "JobWorker_mc_thorough.cfg", workers=4)
    ctx.tlc("JobWorker", "JobWorker_mc_errcb.cfg", workers=4)
    # the pinned NewJob (interrupted acquire answers ctx.Err(); repaired in /repo): expected counterexample
    cand = ctx.tlc("JobWorker", "JobWorker_cand.cfg", workers=1, allow_violation=True, count=False)
    # the other order of a job goroutine's end (release the slot, then cancel): expected counterexamples,
    # the windows the harness aims at
    orders = {"cancel-release": "keeps WaitNilNoFailure, SlotFreeOnlyAfterCancel, NoAcceptAfterFailure (JobWorker_mc_*.cfg)"}
    for (cfg, inv) in (("JobWorker_order_rc_wait.cfg", "WaitNilNoFailure"), ("JobWorker_order_rc_accept.cfg", "NoAcceptAfterFailure")):
        o = ctx.tlc("JobWorker", cfg, workers=1, allow_violation=True, count=False)
        if not o.safety_violation or o.violated != inv:
            raise core.MachineryError("%s: the order release-cancel is expected to violate %s (got %s): the "
                                      "specification no longer tells the orders apart" % (cfg, inv, o.violated))
        orders["release-cancel;" + inv] = "violated (model only; aimed at on the real code)"
    ctx.extra["end_orders"] = orders

    trace = os.path.join(ctx.work, "jobs.ndjson")
    stats = os.path.join(ctx.work, "aimed.json")
    num = 450 if quick else 4500
    aimed = ["--aimed-ms", 9000, "--aimed-min", 500, "--aimed-max", 40000] if quick else \
            ["--aimed-ms", 90000, "--aimed-min", 3000, "--aimed-max", 400000]
    ctx.vh(["C33", "record", "--num", num, "--trace", trace, "--stats", stats] + aimed, timeout=3000)
    hs = split(core.read_ndjson(trace))
    nrand = sum(1 for (r, _) in hs if not r.get("aimed"))
    if nrand < num:
        raise core.MachineryError("harness recorded %d of %d traces" % (nrand, num))
    st = json.load(open(stats))
    byi = {r["i"]: (r, evs) for (r, evs) in hs}
    ctx.rule = ("executions of the real workers: NewBaseJobWorker/NewErrCallbackJobWorker driven call by call (0..60 jobs, size 1..16, "
                "failing jobs, Done, Wait/LazyWait, late NewJob, Close, parent cancellation), RunJobWorker/RunErrCallbackJobWorker "
                "(1..40 x 1..16), BatchWork (size 1..40 x limit 1..40, failing jobs / pref), the schedule of TLC's candidate, and aimed "
                "histories (Wait / LazyWait / NewJob / RunJobWorker / BatchWork stepping into the end of a failing job that is the last "
                "holder of a slot; worker size 1..3); non-trivial = at least one job ran; distinct by event sequence")
    kinds = {}
    for (r, evs) in hs:
        kd = "aimed:" + r["aimed"] if r.get("aimed") else r["kind"]
        kinds[kd] = kinds.get(kd, 0) + 1
        ctx.case([r["kind"], r["size"], r["limit"], [[e.get("a"), e.get("j"), e.get("e"), e.get("ok"), e.get("cc"), e.get("last"), e.get("c")] for e in evs]],
                 nontrivial=any(e["a"] == "Start" for e in evs),
                 sample={"kind": r["kind"], "size": r["size"], "limit": r["limit"], "events": evs[:20]})
    ctx.traces += len(hs)
    ctx.extra["traces_by_kind"] = kinds
    ctx.extra["jobs_run"] = sum(1 for (_, evs) in hs for e in evs if e["a"] == "Start")
    # aimed histories: every shot was run on the real code; shots with the same event sequence are validated once
    ctx.extra["aimed"] = st
    shots = sum(v for (k, v) in st["counts"].items() if k.startswith("shots:"))
    if shots < (500 if quick else 3000):
        raise core.MachineryError("only %d aimed histories were run" % shots)

    notok, first = set(), {}
    CH = 1500
    for k in range(0, len(hs), CH):
        n, f = tlc_traces(ctx, hs[k:k + CH])
        notok |= n
        first.update(f)
    ctx.extra["traces_not_explained"] = len(notok)
    forced_seen = False
    for i in sorted(notok):
        r, evs = byi[i]
        k = first[i]
        ev = evs[k] if 0 <= k < len(evs) else {}
        key = classify(r, evs, k)
        if r.get("forced"):
            forced_seen = True
        how = " (forced %s)" % r["forced"] if r.get("forced") else (" (aimed %s)" % r["aimed"] if r.get("aimed") else "")
        ctx.violation(key, "%s size=%s limit=%s%s: first event no behaviour of JobWorker.tla explains: %s after %s" % (
            r["kind"], r["size"], r["limit"], how, ev, brief(evs, k)[-8:]),
            {"reset": r, "unexplained_event": k, "events": evs})
    mo = []
    if cand.safety_violation and not forced_seen:
        mo.append({"invariant": cand.violated, "cfg": "JobWorker_cand.cfg (AcquireAnswer = ctxerr: the pinned NewJob, repaired in /repo)",
                   "schedule": "worker size 1, job 1 fails while the driver is inside NewJob(2); not reproduced on this tree"})
    ctx.extra["model_only_counterexamples"] = mo
    ctx.assumptions = [
        "Wait returning an error does not have to wait for running jobs (the code returns as soon as the context is cancelled); "
        "Wait returning nil requires every accepted job to have ended without error (base worker)",
        "the error a refused NewJob call returns is not constrained for a worker driven call by call; for RunJobWorker/BatchWork the "
        "returned error must be the first job error or the parent's cause",
        "which of two failing jobs cancels first is not observable: either error is accepted unless the logged cancellation "
        "states of the jobs' contexts exclude it",
        "a failing job counts as failed from the End event its callback logs before it returns; a NewJob call is explained as accepted "
        "only if a slot is free while the worker is open, a failed job keeping its slot until its error is in the context",
        "the aimed histories make the windows at the end of a job goroutine likely (no gate in util/worker.go: "
        "fixes/HOOK-C33-worker-gates.diff proposes one); a change that opens such a window is found with high probability, not with certainty",
    ]
