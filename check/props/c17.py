"""C17 - suffrage changes preserve suffrage well-formedness. Spec: SuffrageOps.tla
(EXTENDS BlockProcess.tla).

TLC builds every ordered sequence of up to MaxOps distinct catalogue operations (joins with
missing / foreign / duplicated / forged / insufficient signatures, expired and unknown
candidates, wrong starts; disjoins and expels of members and non-members, conflicting
join+join, disjoin+expel ...), evaluates the transcription of the real processors (SeqBlock)
and compares it with Decl, the statement written over the *set* of operations. Binding A:
every sequence is replayed through the real DefaultProposalProcessor and processors (C10's
driver) on a real database and saved; the suffrage and candidate states read back from the
database must be Decl's, must be the same for every permutation of a set, members must be
unique and the suffrage height must move by one exactly when the suffrage changed."""
import itertools

from vlib import core
from props import c10

# world B: m4 registered with its other key, two candidates alive, 3-of-3 threshold
QUICK_B = ('{"j1", "j12", "j13", "jx2", "j4", "j6", "cx1", "cc2", "d2", "d4", "d4a", "d2k", '
           '"e1", "e2", "e1b", "ex1", "w2a"}')


def mset(p):
    return sorted((m["n"], m["key"], m["start"]) for m in p["members"])


def cset(p):
    return sorted((c["n"], c["key"], c["start"], c["deadline"]) for c in p["cands"])


def targeting(cat, ids, node, only=None):
    """operations of the sequence on this node (only: restricted to these positions)"""
    t = sorted(i for k, i in enumerate(ids) if cat[i]["n"] == node and (only is None or k in only))
    return "+".join(t) if t else "-"


def culprits(cat, ids, node, saved, spec_res, sign):
    """the operations to name in the key: those the real processors put into a state when the
    node joined / left / changed unexpectedly, those the specification accepts when it did not"""
    real_in = set(r["i"] for r in (saved.get("results") or []) if r["in"])
    spec_in = set(k for k, v in enumerate(spec_res) if v == "in")
    only = (real_in - spec_in) or real_in if sign in "+~" else (spec_in - real_in) or spec_in
    t = targeting(cat, ids, node, only)
    return t if t != "-" else targeting(cat, ids, node)


def judge_sequence(ctx, world, cat, c, out, prior):
    """one sequence: the database after the block against Decl (the statement)"""
    ids = c["ops"]
    if out.get("err"):
        raise core.MachineryError("harness could not run sequence %s: %s" % (ids, out["err"][:600]))
    spec_expels = [i for i in ids if cat[i]["k"] == "expel"]
    if (out.get("expels") or []) != spec_expels:
        raise core.MachineryError("the voteproof orders the expels %s, the specification's ExpelOrder gives %s" % (
            out.get("expels"), spec_expels))
    saved = out["saved"]
    runs = list(out.get("runs") or []) + [saved]
    sample = {"world": world["world"], "sequence": ids, "decl": c["decl"]}
    if any(r.get("panic") for r in runs):
        p = [r for r in runs if r.get("panic")][0]
        ctx.violation("panic(%s)" % "+".join(sorted(cat[i]["k"] for i in ids)),
                      "processing %s panicked: %s" % (ids, p["panic"][:300]), {"case": sample, "run": p})
        return None
    if saved.get("err"):
        ctx.extra.setdefault("deterministic_process_errors", {})
        e = saved["err"][:120]
        ctx.extra["deterministic_process_errors"][e] = ctx.extra["deterministic_process_errors"].get(e, 0) + 1
        return None
    after = out["after"]
    got_m, got_c = mset(after), cset(after)
    want_m = sorted((m["n"], m["key"], m["start"]) for m in c["decl"]["members"])
    want_c = sorted((x["n"], x["key"], x["start"], x["deadline"]) for x in c["decl"]["cands"])
    sample["database"] = {"members": got_m, "sufh": after["sufh"], "cands": got_c}
    # unique members
    names = [m[0] for m in got_m]
    for n in sorted(set(names)):
        if names.count(n) > 1:
            ctx.violation("duplicate-member(%s:%s)" % (n, targeting(cat, ids, n)),
                          "after %s the suffrage holds %s %d times" % (ids, n, names.count(n)), sample)
    # suffrage height: +1 exactly when the suffrage changed
    changed = got_m != mset(prior)
    if after["sufh"] != prior["sufh"] + (1 if changed else 0):
        ctx.violation("suffrage-height(%+d;changed=%s)" % (after["sufh"] - prior["sufh"], changed),
                      "after %s the suffrage height went from %d to %d, suffrage changed: %s" % (
                          ids, prior["sufh"], after["sufh"], changed), sample)
    # who joined / left against the statement
    if got_m != want_m:
        gn, wn = dict((m[0], m) for m in got_m), dict((m[0], m) for m in want_m)
        for n in sorted(set(gn) | set(wn)):
            if gn.get(n) == wn.get(n):
                continue
            sign = "+" if n not in wn else "-" if n not in gn else "~"
            ctx.violation("membership(%s%s:%s)" % (sign, n, culprits(cat, ids, n, saved, c["res"], sign)),
                          "after %s the suffrage has %s, the statement gives %s (operations on %s: %s)" % (
                              ids, gn.get(n), wn.get(n), n, [cat[i] for i in ids if cat[i]["n"] == n]), sample)
    if got_c != want_c:
        gn, wn = dict((x[0], x) for x in got_c), dict((x[0], x) for x in want_c)
        for n in sorted(set(gn) | set(wn)):
            if gn.get(n) == wn.get(n):
                continue
            sign = "+" if n not in wn else "-" if n not in gn else "~"
            ctx.violation("candidates(%s%s:%s)" % (sign, n, culprits(cat, ids, n, saved, c["res"], sign)),
                          "after %s the candidates have %s, the statement gives %s" % (ids, gn.get(n), wn.get(n)), sample)
    return (got_m, after["sufh"], got_c)


def run_plan(ctx, tag, cfg, subst, sim, seen_worlds, limit=None):
    c = c10.stage_cfg(ctx, cfg, "c17-%s.cfg" % tag, subst) if subst else cfg
    world, cases, r = c10.run_model(ctx, "SuffrageOps", c, simulate=sim, timeout=1500)
    if not cases:
        raise core.MachineryError("TLC %s produced no sequence" % c)
    cat = {o["id"]: o for o in world["catalogue"]}
    # distinct sequences
    seen, seqs = set(), []
    for x in cases:
        k = tuple(x["ops"])
        if k not in seen:
            seen.add(k)
            seqs.append(x)
    if limit and len(seqs) > limit:
        # keep whole permutation classes
        import random
        rnd = random.Random(ctx.seed)
        classes = {}
        for x in seqs:
            classes.setdefault(frozenset(x["ops"]), []).append(x)
        keys = sorted(classes, key=lambda s: sorted(s))
        rnd.shuffle(keys)
        seqs = []
        for k in keys:
            if len(seqs) >= limit:
                break
            seqs.extend(classes[k])
    groups = [{"ops": x["ops"], "scheds": [], "wants": [{"res": x["res"], "want": x["want"]}]} for x in seqs]
    _, outs = c10.replay(ctx, "C17", tag, world, groups, [64], 1)
    prior = None
    by_set = {}
    for x, out in zip(seqs, outs):
        c10.check_world(ctx, "C17", world, out, seen_worlds)
        if prior is None and out.get("prior"):
            prior = out["prior"]
            want_prior = world["script_want"][-1]
            if c10.proj_diff(prior, want_prior):
                # reported by check_world; the sequences cannot be judged on another prior state
                return
        res = judge_sequence(ctx, world, cat, x, out, prior)
        ctx.traces += 1 + len(out.get("runs") or [])
        changes = any(v == "in" for v in x["res"])
        ctx.case([world["world"], x["ops"]], nontrivial=changes,
                 sample={"world": world["world"], "sequence": x["ops"], "spec_outcome": x["res"],
                         "decl_members": sorted(m["n"] for m in x["decl"]["members"]),
                         "database_members": [m["n"] for m in (out.get("after") or {}).get("members", [])]})
        if res is not None:
            by_set.setdefault(frozenset(x["ops"]), []).append((x["ops"], res))
    # the result does not depend on the order
    nperm = 0
    for s, lst in by_set.items():
        if len(lst) < 2:
            continue
        nperm += 1
        first = lst[0]
        for ids, res in lst[1:]:
            if res != first[1]:
                kk = "+".join(sorted(cat[i]["k"] for i in s))
                ctx.violation("order-dependent(%s)" % kk,
                              "operations %s in order %s leave %s, in order %s leave %s" % (
                                  sorted(s), first[0], first[1], ids, res),
                              {"world": world["world"], "a": {"order": first[0], "result": first[1]},
                               "b": {"order": ids, "result": res}})
                break
    ctx.extra.setdefault("sequences_per_plan", {})[tag] = len(seqs)
    ctx.extra.setdefault("permutation_classes_compared", {})[tag] = nperm


def threshold_table(ctx, maxn):
    """'at least the threshold of distinct current members': the acceptance rule itself
    (base.CheckFactSignsBySuffrage on real suffrages and real signatures) against exact arithmetic"""
    import os
    res = os.path.join(ctx.work, "threshold.ndjson")
    ctx.vh(["C17", "threshold", "--out", res, "--maxn", maxn], timeout=1800)
    rows = core.read_ndjson(res)
    summary = rows[-1]
    ctx.extra["threshold_table"] = {"maxn": maxn, "evaluated": summary["total"], "differ": summary["diff"]}
    ctx.evaluations += 0
    for r in rows[:-1]:
        exact = r["k"] * 1000 == r["t10"] * r["n"]
        key = "threshold-float(exactly-at-threshold)" if exact and r["want"] and not r["real"] else \
            "threshold(n=%d,k=%d,t=%s)" % (r["n"], r["k"], r["t10"] / 10)
        ctx.violation(key, "CheckFactSignsBySuffrage with %d valid member signatures of %d members at threshold %s%% says %s, "
                      "exact arithmetic says %s" % (r["k"], r["n"], r["t10"] / 10,
                                                     "enough" if r["real"] else "not enough",
                                                     "enough" if r["want"] else "not enough"), r)


def run(ctx):
    quick = ctx.tier == "quick"
    seen_worlds = set()
    threshold_table(ctx, 33 if quick else 64)
    if quick:
        run_plan(ctx, "A-mc", "SuffrageOps_mc_quick.cfg", {}, None, seen_worlds)
        run_plan(ctx, "B-mc", "SuffrageOps_mc_quick.cfg", {"World": '"B"', "CatIds": QUICK_B}, None, seen_worlds)
        run_plan(ctx, "A-sim", "SuffrageOps_sim.cfg", {}, (40, 12), seen_worlds)
    else:
        run_plan(ctx, "A-mc", "SuffrageOps_mc_thorough.cfg", {}, None, seen_worlds)
        run_plan(ctx, "B-mc", "SuffrageOps_mc_thorough.cfg", {"World": '"B"'}, None, seen_worlds)
        run_plan(ctx, "A-mc3", "SuffrageOps_mc3.cfg", {}, None, seen_worlds, limit=3000)
        run_plan(ctx, "B-mc3", "SuffrageOps_mc3.cfg", {"World": '"B"'}, None, seen_worlds, limit=3000)
        run_plan(ctx, "A-sim", "SuffrageOps_sim.cfg", {}, (600, 12), seen_worlds)
        run_plan(ctx, "B-sim", "SuffrageOps_sim.cfg", {"World": '"B"'}, (600, 12), seen_worlds)
    ctx.exhaustive = True
    ctx.rule = ("every ordered sequence of up to MaxOps distinct operations of the suffrage catalogue (TLC, invariant "
                "MatchesDecl: transcription of the processors = the statement over the set) replayed on the real "
                "processors and saved; plus seeded -simulate sequences of up to 4; distinct by (world, sequence); "
                "non-trivial = at least one operation changes a state; permutations of one set are compared with "
                "each other")
    ctx.assumptions = [
        "operations reach the processor validated (IsValid), as from the operation pool",
        "conflicting candidate registrations of one node and more registrations than the candidate limiter admits "
        "are order-dependent by design and are not generated",
        "expels are carried by the INIT voteproof in the order of their fact hashes (fixed for the catalogue)",
    ]
