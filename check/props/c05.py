"""C05 - the ballot box keeps stage points isolated and releases finished ones exactly once.

Spec: Ballotbox.tla (records keyed by (stage point, suffrage-confirm flag), record objects with
identity, `removed` list, recycle pool with put/use counters; invariants ReadsIsolated,
KeyMatchesRecord, NoAliasing, PutOncePerUse, PutExactlyOncePerUse and the action properties
CleanReleases / NothingPassedAfterClean / NotConsulted) - checked exhaustively by TLC.
Binding B: a real isaacstates.Ballotbox is fed really signed INIT / ACCEPT / suffrage-confirm
ballots (scripts = behaviours of Ballotbox.tla from -simulate, the counterexample of the
implementation-level clean() transcription, and seeded random consensus-like flows with
deviations; sequentially and from goroutines); after every call the harness logs the call, its
result, the voteproofs read from Voteproof(), LastPoint() and the verif accessor's view of the
records, the removed list and the pool-put counter; BallotboxTrace.tla validates the recording.
"""
import os
import re
from vlib import core

PREFIX = "C05-"
# classes that are consequences of a record object staying reachable after its release: the
# first class met in a history names the defect, later ones of the same history are its effects
CONSEQUENCES = ("live-and-removed", "live-and-pooled", "key-record-mismatch", "aliased-keys", "double-put",
                "put-count", "puts-differ", "pool-identity", "removed-differ", "votes-differ", "voted-read",
                "voted-read-foreign", "missing-read", "record-not-removed", "record-identity", "record-unexpected")


def history_of(events, line):
    """events of the history that contains 1-based line, up to that line"""
    j = line - 1
    while j > 0 and events[j]["a"] != "Reset":
        j -= 1
    return j, events[j:line]


def brief(e):
    if e["a"] in ("Vote", "Call"):
        return "%s(%s,h%d r%d s%d%s,%s%s)%s" % (e["a"], e.get("node"), e.get("h", 0), e.get("r", 0), e.get("s", 0),
                                                 ",sc" if e.get("sc") else "", e.get("f"),
                                                 ",ex=" + "+".join(e["ex"]) if e.get("ex") else "",
                                                 "" if e["a"] == "Call" else "=%s" % e.get("voted"))
    if e["a"] == "SetLast":
        return "SetLast(h%d r%d s%d maj=%s)=%s" % (e["h"], e["r"], e["s"], e["maj"], e["ret"])
    if e["a"] in ("Voted", "Missing"):
        return "%s(h%d r%d s%d)" % (e["a"], e["h"], e["r"], e["s"])
    return e["a"]


def steps_to_history(steps, n=2, tag=""):
    ops = []
    for s in steps:
        if s["a"] == "Vote":
            ops.append({"op": "Vote", "b": {"node": s["node"], "h": s["h"], "r": s["r"], "s": s["s"], "sc": s["sc"],
                                            "f": s["f"], "ex": sorted(s["ex"]), "evp": {"name": ""}}})
        elif s["a"] == "SetLast":
            ops.append({"op": "SetLast", "h": s["h"], "r": s["r"], "s": s["s"], "maj": s["maj"], "sc": s["sc"]})
    return {"n": n, "local": "n0", "t10": 670, "hold": "never", "ops": ops, "tag": tag}


def counterexample_steps(ctx, out):
    p = os.path.join(ctx.work, "cex%d.txt" % getattr(ctx, "_ntlc", 0))
    with open(p, "w") as f:
        f.write(out)
    return list(core._parse_steps(p, "step"))


def judge(ctx, events, res, source, prefix=PREFIX, consequences=CONSEQUENCES):
    """turn the MISMATCH prints of one validated recording into verdicts"""
    per_hist = {}
    divergences = {}
    for (cls, line, info) in res.mismatches():
        if cls.startswith("X-"):
            divergences[cls] = divergences.get(cls, 0) + 1
            continue
        if not cls.startswith(prefix):
            continue
        start, _ = history_of(events, line)
        per_hist.setdefault(start, []).append((line, cls[len(prefix):], info))
    for cls, n in divergences.items():
        ctx.extra.setdefault("model_divergences_not_alarmed", {})
        ctx.extra["model_divergences_not_alarmed"][cls] = ctx.extra["model_divergences_not_alarmed"].get(cls, 0) + n
    for start, ms in sorted(per_hist.items()):
        ms.sort()
        first_line = ms[0][0]
        roots = [m for m in ms if m[0] == first_line]
        # at the first deviating event report the classes that are not mere consequences; if all are, report them all
        named = [m for m in roots if m[1] not in consequences] or roots
        later = sorted({m[1] for m in ms if m[0] != first_line})
        for (line, cls, info) in named:
            _, hist = history_of(events, line)
            calls = [brief(e) for e in hist if e["a"] != "Reset"]
            ev = events[line - 1]
            ctx.violation(cls, "%s at event %d (%s) info=%s after %s%s" % (
                cls, line, brief(ev), info, calls[-7:], (" ; later in this history: " + ",".join(later)) if later else ""),
                {"source": source, "class": cls, "line": line, "info": info, "reset": hist[0], "calls": calls,
                 "event": ev, "later_classes": later})


def validate(ctx, path, source):
    events = core.read_ndjson(path)
    if not events:
        raise core.MachineryError("harness recorded no events (%s)" % source)
    ok, res, hw = ctx.tlc_validate_trace("BallotboxTrace", "BallotboxTrace.cfg", path, timeout=1500)
    if not ok:
        raise core.MachineryError("trace validation of %s stopped at event %s:\n%s" % (source, hw, res.out[-3000:]))
    return events, res


def account(ctx, events):
    hist = None
    hists = []
    for e in events:
        if e["a"] == "Reset":
            hist = {"reset": e, "ops": [], "cleans": 0, "sc_released": 0}
            hists.append(hist)
        else:
            hist["ops"].append(brief(e))
            if e.get("pd"):
                hist["cleans"] += 1
    for h in hists:
        ctx.case([h["reset"]["nodes"], h["reset"]["local"], h["reset"]["t10"], h["ops"]], nontrivial=h["cleans"] > 0,
                 sample={"suffrage": len(h["reset"]["nodes"]), "t10": h["reset"]["t10"], "ops": h["ops"][:12]})
    ctx.traces += len(hists)
    return len(hists)


def run(ctx):
    quick = ctx.tier == "quick"
    # 1. the closed model: invariants and action properties, exhaustive
    r = ctx.tlc("Ballotbox", "Ballotbox_mc_quick.cfg" if quick else "Ballotbox_mc_thorough.cfg", timeout=1500)
    ctx.exhaustive = True
    ctx.extra["model_states"] = r.distinct
    scripts = []
    # 2. implementation-level clean(): removal key computed from the record with prefix "sign-" (what the pinned
    #    tree did) - TLC compares it with the release the statement asks for; the counterexample is a candidate
    ri = ctx.tlc("Ballotbox", "Ballotbox_impl_clean.cfg", allow_violation=True, count=False, timeout=900)
    cex = []
    if ri.safety_violation:
        cex = counterexample_steps(ctx, ri.out)
        scripts.append(steps_to_history(cex, tag="cex-clean-prefix"))
        ctx.extra["impl_model_counterexample"] = {"violated": ri.violated, "steps": [s for s in cex if s]}
    # 3. behaviours of the closed model as input scripts
    _, behs = ctx.tlc_simulate("Ballotbox", "Ballotbox_sim.cfg", num=60 if quick else 600, depth=40)
    for i, b in enumerate(behs):
        h = steps_to_history(b, tag="sim%d" % i)
        if h["ops"]:
            scripts.append(h)
    sp = os.path.join(ctx.work, "scripts.ndjson")
    core.write_ndjson(sp, scripts)
    t1 = os.path.join(ctx.work, "trace_scripts.ndjson")
    ctx.vh(["C05", "run", "--in", sp, "--out", t1], timeout=900)
    ev1, res1 = validate(ctx, t1, "model-scripts")
    account(ctx, ev1)
    judge(ctx, ev1, res1, "model-scripts")
    # was the implementation-level counterexample reproduced by the real code?
    if cex:
        first_hist_classes = set()
        for (cls, line, info) in res1.mismatches():
            start, _ = history_of(ev1, line)
            if start == 0 and cls.startswith(PREFIX):
                first_hist_classes.add(cls)
        if not first_hist_classes:
            ctx.extra["model_only_counterexamples"] = [{"config": "Ballotbox_impl_clean.cfg", "violated": ri.violated,
                                                        "note": "clean() of this tree releases what the statement asks for"}]
    # 4. seeded random histories: sequential, and with a concurrent part
    runs = [("random-seq", ["--num", 40 if quick else 500, "--len", 36, "--nmax", 9, "--conc", 0]),
            ("random-conc", ["--num", 30 if quick else 400, "--len", 24, "--nmax", 7, "--conc", 1])]
    for name, a in runs:
        t = os.path.join(ctx.work, "trace_%s.ndjson" % name)
        p = ctx.vh(["C05", "record"] + a + ["--out", t], timeout=1200)
        m = re.search(r"unsettled=(\d+)", p.stdout)
        if m and int(m.group(1)) > 0:
            ctx.extra["unsettled_calls"] = ctx.extra.get("unsettled_calls", 0) + int(m.group(1))
        ev, res = validate(ctx, t, name)
        account(ctx, ev)
        judge(ctx, ev, res, name)
    ctx.rule = ("one case = one history on a fresh real Ballotbox (suffrage of 1..9 really keyed nodes, threshold, ordered calls "
                "Vote/Count/SetLastPoint/Voted/MissingNodes with their ballots); non-trivial = at least one clean cycle handed "
                "a record back to the pool; distinct by (suffrage, local, threshold, call sequence)")
    ctx.assumptions = [
        "suffrage known for every height (the not-yet-validated path of voterecords.vote is not driven)",
        "a clean cycle is taken to have run exactly when the call emitted a voteproof (countVoterecords calls clean() then)",
        "concurrent parts are judged by schedule-independent facts only (votes of a live record were accepted for its own key, "
        "no non-empty record of a passed point remains at rest, object invariants)",
    ]
    if ctx.extra.get("unsettled_calls", 0) > 50:
        raise core.MachineryError("too many calls did not come to rest: %s" % ctx.extra["unsettled_calls"])
