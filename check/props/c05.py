"""C05 - the ballot box keeps stage points isolated and releases finished ones exactly once.

Spec: Ballotbox.tla (records keyed by (stage point, suffrage-confirm flag), record objects with
identity, `removed` list, recycle pool with put/use counters; invariants ReadsIsolated,
KeyMatchesRecord, NoAliasing, PutOncePerUse, PutExactlyOncePerUse and the action properties
CleanReleases / NothingPassedAfterClean / NotConsulted) - checked exhaustively by TLC.
Binding B: a real isaacstates.Ballotbox is fed really signed INIT / ACCEPT / suffrage-confirm
ballots (scripts = behaviours of Ballotbox.tla from -simulate, the counterexample of the
implementation-level clean() transcription, and seeded random consensus-like flows with
deviations; sequentially and from goroutines); after every call the harness logs the call, its
result, the voteproofs read from Voteproof(), LastPoint() and the verif accessor's view of the
records, the removed list and the pool-put counter; BallotboxTrace.tla validates the recording.
"""
import os
import re
from vlib import core

PREFIX = "C05-"
# classes that are consequences of a record object staying reachable after its release: the
# first class met in a history names the defect, later ones of the same history are its effects
CONSEQUENCES = ("live-and-removed", "live-and-pooled", "key-record-mismatch", "aliased-keys", "double-put",
                "put-count", "puts-differ", "pool-identity", "removed-differ", "votes-differ", "voted-read",
                "voted-read-foreign", "missing-read", "record-not-removed", "record-identity", "record-unexpected")


def history_of(events, line):
    """events of the history that contains 1-based line, up to that line"""
    j = line - 1
    while j > 0 and events[j]["a"] != "Reset":
        j -= 1
    return j, events[j:line]


def brief(e):
    if e["a"] in ("Vote", "Call"):
        return "%s(%s,h%d r%d s%d%s,%s%s)%s" % (e["a"], e.get("node"), e.get("h", 0), e.get("r", 0), e.get("s", 0),
                                                 ",sc" if e.get("sc") else "", e.get("f"),
                                                 ",ex=" + "+".join(e["ex"]) if e.get("ex") else "",
                                                 "" if e["a"] == "Call" else "=%s" % e.get("voted"))
    if e["a"] == "SetLast":
        return "SetLast(h%d r%d s%d maj=%s)=%s" % (e["h"], e["r"], e["s"], e["maj"], e["ret"])
    if e["a"] in ("Voted", "Missing"):
        return "%s(h%d r%d s%d)" % (e["a"], e["h"], e["r"], e["s"])
    return e["a"]


def steps_to_history(steps, n=2, tag=""):
    ops = []
    for s in steps:
        if s["a"] == "Vote":
            ops.append({"op": "Vote", "b": {"node": s["node"], "h": s["h"], "r": s["r"], "s": s["s"], "sc": s["sc"],
                                            "f": s["f"], "ex": sorted(s["ex"]), "evp": {"name": ""}}})
        elif s["a"] == "SetLast":
            ops.append({"op": "SetLast", "h": s["h"], "r": s["r"], "s": s["s"], "maj": s["maj"], "sc": s["sc"]})
    return {"n": n, "local": "n0", "t10": 670, "hold": "never", "ops": ops, "tag": tag}


def counterexample_steps(ctx, out):
    p = os.path.join(ctx.work, "cex%d.txt" % getattr(ctx, "_ntlc", 0))
    with open(p, "w") as f:
        f.write(out)
    return list(core._parse_steps(p, "step"))


def judge(ctx, events, res, source, prefix=PREFIX, consequences=CONSEQUENCES):
    """turn the MISMATCH prints of one validated recording into verdicts"""
    per_hist = {}
    divergences = {}
    for (cls, line, info) in res.mismatches():
        if cls.startswith("X-"):
            divergences[cls] = divergences.get(cls, 0) + 1
            continue
        if not cls.startswith(prefix):
            continue
        start, _ = history_of(events, line)
        per_hist.setdefault(start, []).append((line, cls[len(prefix):], info))
    for cls, n in divergences.items():
        ctx.extra.setdefault("model_divergences_not_alarmed", {})
        ctx.extra["model_divergences_not_alarmed"][cls] = ctx.extra["model_divergences_not_alarmed"].get(cls, 0) + n
    for start, ms in sorted(per_hist.items()):
        ms.sort()
        first_line = ms[0][0]
        roots = [m for m in ms if m[0] == first_line]
        # at the first deviating event report the classes that are not mere consequences; if all are, report them all
        named = [m for m in roots if m[1] not in consequences] or roots
        later = sorted({m[1] for m in ms if m[0] != first_line})
        for (line, cls, info) in named:
            _, hist = history_of(events, line)
            calls = [brief(e) for e in hist if e["a"] != "Reset"]
            ev = events[line - 1]
            ctx.violation(cls, "%s at event %d (%s) info=%s after %s%s" % (
                cls, line, brief(ev), info, calls[-7:], (" ; later in this history: " + ",".join(later)) if later else ""),
                {"source": source, "class": cls, "line": line, "info": info, "reset": hist[0], "calls": calls,
                 "event": ev, "later_classes": later})


def validate(ctx, path, source):
    events = core.read_ndjson(path)
    if not events:
        raise core.MachineryError("harness recorded no events (%s)" % source)
    ok, res, hw = ctx.tlc_validate_trace("BallotboxTrace", "BallotboxTrace.cfg", path, timeout=1500)
    if not ok:
        raise core.MachineryError("trace validation of %s stopped at event %s:\n%s" % (source, hw, res.out[-3000:]))
    return events, res


def account(ctx, events):
    hist = None
    hists = []
    for e in events:
        if e["a"] == "Reset":
            hist = {"reset": e, "ops": [], "cleans": 0, "sc_released": 0}
            hists.append(hist)
        else:
            hist["ops"].append(brief(e))
            if e.get("pd"):
                hist["cleans"] += 1
    for h in hists:
        ctx.case([h["reset"]["nodes"], h["reset"]["local"], h["reset"]["t10"], h["ops"]], nontrivial=h["cleans"] > 0,
                 sample={"suffrage": len(h["reset"]["nodes"]), "t10": h["reset"]["t10"], "ops": h["ops"][:12]})
    ctx.traces += len(hists)
    return len(hists)


def parallel(jobs):
    """run the TLC jobs side by side (each is a separate JVM); returns results in order"""
    import threading
    import time
    out = [None] * len(jobs)
    err = [None] * len(jobs)

    def w(i, f):
        try:
            out[i] = f()
        except BaseException as e:     # noqa: BLE001 - re-raised in the caller's thread
            err[i] = e
    ts = []
    for i, f in enumerate(jobs):
        t = threading.Thread(target=w, args=(i, f))
        t.start()
        ts.append(t)
        time.sleep(0.4)                # the runner numbers its work directories at call start
    for t in ts:
        t.join()
    for e in err:
        if e is not None:
            raise e
    return out


def run(ctx):
    quick = ctx.tier == "quick"
    ctx._stage_spec()
    rd = os.path.join(core.VERIF, "replays", ctx.id)
    if os.path.isdir(rd):               # replays of earlier runs of this tier are stale
        for f in os.listdir(rd):
            if f.startswith(ctx.tier + "-"):
                os.remove(os.path.join(rd, f))
    # 1. the closed model: invariants and action properties, exhaustive
    # 2. implementation-level clean(): removal key computed from the record with prefix "sign-" (what the pinned
    #    tree did) - TLC compares it with the release the statement asks for; the counterexample is a candidate
    # 3. behaviours of the closed model as input scripts
    r, ri, sim = parallel([
        lambda: ctx.tlc("Ballotbox", "Ballotbox_mc_quick.cfg" if quick else "Ballotbox_mc_thorough.cfg", timeout=1800),
        lambda: ctx.tlc("Ballotbox", "Ballotbox_impl_clean.cfg", allow_violation=True, count=False, timeout=900, workers=4),
        lambda: ctx.tlc_simulate("Ballotbox", "Ballotbox_sim.cfg", num=40 if quick else 800, depth=40),
    ])
    ctx.exhaustive = True
    ctx.extra["model_states"] = r.distinct
    scripts = []
    cex = []
    if ri.safety_violation:
        cex = counterexample_steps(ctx, ri.out)
        scripts.append(steps_to_history(cex, tag="cex-clean-prefix"))
        ctx.extra["impl_model_counterexample"] = {"violated": ri.violated, "steps": [s for s in cex if s]}
    for i, b in enumerate(sim[1]):
        h = steps_to_history(b, tag="sim%d" % i)
        if h["ops"]:
            scripts.append(h)
    sp = os.path.join(ctx.work, "scripts.ndjson")
    core.write_ndjson(sp, scripts)
    # 4. the real ballot box: the scripts, then seeded random histories (sequential / with a concurrent part)
    parts = [("model-scripts", ["run", "--in", sp]),
             ("random-seq", ["record", "--num", 30 if quick else 600, "--len", 36, "--nmax", 9, "--conc", 0]),
             ("random-conc", ["record", "--num", 24 if quick else 500, "--len", 24, "--nmax", 7, "--conc", 1])]
    traces = []
    for name, a in parts:
        t = os.path.join(ctx.work, "trace_%s.ndjson" % name)
        p = ctx.vh(["C05"] + a + ["--out", t], timeout=1200)
        m = re.search(r"unsettled=(\d+)", p.stdout)
        if m and int(m.group(1)) > 0:
            ctx.extra["unsettled_calls"] = ctx.extra.get("unsettled_calls", 0) + int(m.group(1))
        traces.append((name, t))
    # one JVM for everything: the recordings are concatenated (every history starts with a Reset; the pool and
    # its counters are per process: the first Reset of a recording says "newproc" and the trace spec re-bases)
    groups = [("all", [t for _, t in traces])]
    jobs = []
    for name, files in groups:
        path = os.path.join(ctx.work, "trace_%s_cat.ndjson" % name)
        with open(path, "w") as out:
            for f in files:
                out.write(open(f).read())
        jobs.append((name, path))
    results = [validate(ctx, p, n) for n, p in jobs]
    cex_reproduced = False
    for (name, path), (ev, res) in zip(jobs, results):
        account(ctx, ev)
        judge(ctx, ev, res, name)
        if cex and name in ("all", "model-scripts"):
            for (cls, line, info) in res.mismatches():
                start, _ = history_of(ev, line)
                if start == 0 and cls.startswith(PREFIX):
                    cex_reproduced = True
    # was the implementation-level counterexample reproduced by the real code?
    if cex and not cex_reproduced:
        ctx.extra["model_only_counterexamples"] = [{"config": "Ballotbox_impl_clean.cfg", "violated": ri.violated,
                                                    "note": "the transcription with CleanSC=\"sign-\" (the pinned tree) leaves a "
                                                    "suffrage-confirm record reachable; clean() of this tree releases it"}]
    ctx.rule = ("one case = one history on a fresh real Ballotbox (suffrage of 1..9 really keyed nodes, threshold, ordered calls "
                "Vote/Count/SetLastPoint/Voted/MissingNodes with their ballots); non-trivial = at least one clean cycle handed "
                "a record back to the pool; distinct by (suffrage, local, threshold, call sequence)")
    ctx.assumptions = [
        "suffrage known for every height (the not-yet-validated path of voterecords.vote is not driven)",
        "a clean cycle is taken to have run exactly when the call emitted a voteproof (countVoterecords calls clean() then)",
        "concurrent parts are judged by schedule-independent facts only (votes of a live record were accepted for its own key, "
        "no non-empty record of a passed point remains at rest, object invariants)",
    ]
    if ctx.extra.get("unsettled_calls", 0) > 50:
        raise core.MachineryError("too many calls did not come to rest: %s" % ctx.extra["unsettled_calls"])
