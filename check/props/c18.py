"""C18 - suffrage history sync. Spec: SuffrageChain.tla, Mode = "build".

1. TLC checks the transcription of SuffrageStateBuilder.Build/buildBatch/prove over every
   arrival order, local state, batch limit and remote behaviour of the catalogue against the
   statement (a successful return is the gap-free linked chain from the local state to the
   remote's last proof; never a panic): variant "ideal" (a complete repair) must satisfy
   everything, "fixed" (the tree with the fix diffs) must not panic and is expected to violate
   the chain property (known findings), "pinned" is expected to panic.
2. Binding A: every terminal state is replayed into the real isaac.SuffrageStateBuilder with
   callbacks serving real proofs. Verdict from the real run only.
"""
import os
import re
from vlib import core



def final_coverage_zero(r):
    """actions with count 0 in the *final* coverage report only: with -coverage 1 TLC also prints interim
    reports every minute, in which actions the breadth-first search has not reached yet show 0:0."""
    mark = "The coverage statistics at"
    at = r.out.rfind(mark)
    if at < 0:
        raise core.MachineryError("no coverage report in the TLC output")
    z = []
    for m in re.finditer(r"^<(\w+) line .*?>: (\d+):(\d+)$", r.out[at:], re.M):
        if int(m.group(2)) == 0 and int(m.group(3)) == 0:
            z.append(m.group(1))
    taken = {m.group(1) for m in re.finditer(r"^<(\w+) line .*?>: (\d+):(\d+)$", r.out[at:], re.M)
             if int(m.group(2)) > 0 or int(m.group(3)) > 0}
    return [a for a in z if a not in taken]      # an action split into several disjuncts counts as taken if one is


def replay_isolating_crashes(ctx, prop, nrows, inp, out, timeout=3000):
    """the harness writes one result per case, unbuffered. A panic in a job goroutine of the code under
    test kills it. Build may return (with an error) while other jobs of the batch still run, so the
    panic can also come from the case before the first one without a result: both are re-run alone in
    their own process (which waits before it exits); the one that dies alone is the culprit."""
    res, crashes, start = {}, {}, 0

    def alone(n):
        one = out + ".one"
        if os.path.exists(one):
            os.remove(one)
        p = ctx.vh([prop, "replay", "--in", inp, "--out", one, "--only", n], timeout=300, check=False)
        if p.returncode == 0:
            return core.read_ndjson(one)[0], None
        if "panic" not in p.stderr and "fatal error" not in p.stderr:
            raise core.MachineryError("vh %s --only %d exited %d:\n%s" % (prop, n, p.returncode, p.stderr[-3000:]))
        return None, p.stderr[:1500]

    while start < nrows:
        part = out + ".part"
        if os.path.exists(part):
            os.remove(part)
        p = ctx.vh([prop, "replay", "--in", inp, "--out", part, "--start", start], timeout=timeout, check=False)
        got = core.read_ndjson(part) if os.path.exists(part) else []
        for r in got:
            res[r["idx"]] = r
        if p.returncode == 0:
            break
        if "panic" not in p.stderr and "fatal error" not in p.stderr:
            raise core.MachineryError("vh %s exited %d:\n%s" % (prop, p.returncode, p.stderr[-3000:]))
        k = start + len(got)
        culprit = False
        for n in (k - 1, k):
            if n < 0 or n >= nrows or n in crashes:
                continue
            r, tail = alone(n)
            if tail is not None:
                crashes[n] = tail
                res.pop(n, None)
                culprit = True
            else:
                res[n] = r
        if not culprit:
            ctx.extra["crash_not_reproduced_alone"] = ctx.extra.get("crash_not_reproduced_alone", 0) + 1
        start = k + 1
        if len(crashes) >= 60:
            break
    return res, crashes


def lab(l):
    return "%s%d" % (l["c"], l["x"]) if l["x"] >= 0 else l["c"]


def classify(c, row):
    sc, frm, lim = c["scen"], c["local"] + 1, c["limit"]
    if row["ret"] == "panic":
        if sc["kind"] == "wrongheight" and sc["b"] < frm + ((sc["a"] - frm) // lim) * lim:
            return "negative-index"          # the answer lies below the batch's previous state
        if sc["kind"] == "nongenesis-zero":
            return "nil-previous"
        return "panic(%s)" % sc["kind"]
    if row["ret"] != "ok":
        return None
    out = [lab(l) for l in row["out"]]
    want = [lab(l) for l in c["want"]["chain"]]
    d = out[:-1] if len(out) >= 2 and out[-1] == out[-2] else out
    if d == want and c["want"]["possible"]:
        return None
    if "nil" in out:
        return "hole"
    if len(row["out"]) >= 2 and row["out"][-1]["x"] == row["out"][-2]["x"] and out[-1] != out[-2]:
        return "last-proof-unlinked"
    if not c["want"]["possible"]:
        return "unlinked-chain-accepted(%s)" % sc["kind"]
    if d and len(d) < len(want) and d == want[-len(d):]:
        return "earlier-batches-dropped"
    return "wrong-chain(%s)" % sc["kind"]


def run(ctx):
    quick = ctx.tier == "quick"
    cfg = "SuffrageChain_build_mc_quick.cfg" if quick else "SuffrageChain_build_mc_thorough.cfg"
    r = ctx.tlc("SuffrageChain", cfg, args=[] if quick else ["-coverage", "1"], timeout=1500)
    ctx.extra["mc_ideal"] = {"cfg": cfg, "distinct": r.distinct, "generated": r.generated, "wall_s": round(r.wall, 1)}
    if not quick:
        zero = [z for z in final_coverage_zero(r) if z in ("BStart", "BPref", "BArrive", "BEndBatch", "InitBuild")]
        ctx.extra["coverage_zero_actions"] = zero
        if zero:
            raise core.MachineryError("actions never taken in %s: %s" % (cfg, zero))
    rf = ctx.tlc("SuffrageChain", "SuffrageChain_build_mc_fixed.cfg", timeout=900)
    ctx.extra["mc_fixed_nopanic"] = {"distinct": rf.distinct}
    rc = ctx.tlc("SuffrageChain", "SuffrageChain_build_mc_fixed_chain.cfg", timeout=900, allow_violation=True)
    rp = ctx.tlc("SuffrageChain", "SuffrageChain_build_mc_pinned.cfg", timeout=900, allow_violation=True)
    ctx.extra["mc_expected_violations"] = {"fixed:BReturnedIsChain": rc.violated, "pinned:BNoPanic": rp.violated}

    ccfg = "SuffrageChain_build_cases_quick.cfg" if quick else "SuffrageChain_build_cases_thorough.cfg"
    rr, steps = ctx.tlc_dump_steps("SuffrageChain", ccfg, timeout=2400, workers=4)
    ctx.extra["cases_cfg"] = {"cfg": ccfg, "distinct": rr.distinct, "terminal": len(steps), "wall_s": round(rr.wall, 1)}
    cases = {}
    for s in steps:
        sc = s["scen"]
        k = (s["k"], s["local"], s["limit"], sc["kind"], sc["a"], sc["b"])
        c = cases.setdefault(k, dict(s, impl={}))
        c["impl"].setdefault(s["variant"], [])
        sig = (s["impl"]["ret"], tuple(lab(l) for l in s["impl"]["out"]))
        if sig not in c["impl"][s["variant"]]:
            c["impl"][s["variant"]].append(sig)
    order = sorted(cases)
    rows = [{"idx": n, "k": cases[k]["k"], "gap": cases[k]["gap"], "local": cases[k]["local"], "limit": cases[k]["limit"],
             "scen": cases[k]["scen"], "last": cases[k]["last"], "lastsigned": cases[k]["lastsigned"],
             "resp": cases[k]["resp"], "forkat": cases[k]["forkat"]} for n, k in enumerate(order)]
    inp = os.path.join(ctx.work, "cases.ndjson")
    out = os.path.join(ctx.work, "res.ndjson")
    core.write_ndjson(inp, rows)
    resd, crashes = replay_isolating_crashes(ctx, "C18", len(rows), inp, out)
    for n, tail in crashes.items():
        resd[n] = {"idx": n, "ret": "panic", "panic": tail, "out": [], "crashed_process": True}
    ctx.extra["process_crashes"] = len(crashes)

    ctx.exhaustive = True
    ctx.rule = ("every (chain length, local state, batch limit, remote behaviour) of %s; one real Build per case "
                "(arrival order left to the scheduler, jittered by the seed); non-trivial = every case" % ccfg)
    follow = {"pinned": 0, "fixed": 0, "ideal": 0, "none": 0}
    refused_consistent = 0
    notrun = 0
    for n, k in enumerate(order):
        c, row = cases[k], resd.get(n)
        if row is None:
            notrun += 1
            continue
        ctx.case(list(k), nontrivial=True, sample={"case": rows[n], "real": {"ret": row["ret"], "out": [lab(l) for l in row["out"]]},
                                                   "want": {"possible": c["want"]["possible"],
                                                            "chain": [lab(l) for l in c["want"]["chain"]]}})
        ctx.traces += 1
        key = classify(c, row)
        if row["ret"] == "err" and c["scen"]["kind"] == "consistent":
            refused_consistent += 1
        if key:
            sc = c["scen"]
            what = ("Build(local=%s) against a remote with chain 0..%d, batch limit %d, behaviour %s(a=%d,b=%d): %s; "
                    "the statement allows %s" % (
                        "none" if c["local"] < 0 else "s%d" % c["local"], c["k"], c["limit"], sc["kind"], sc["a"], sc["b"],
                        "panic" if row["ret"] == "panic" else "returned %s" % [lab(l) for l in row["out"]],
                        ("an error or %s" % [lab(l) for l in c["want"]["chain"]]) if c["want"]["possible"] else "only an error"))
            ctx.violation(key, what, {"case": rows[n], "want": c["want"], "real": row,
                                      "transcription": {v: [list(x) for x in p] for v, p in c["impl"].items()}})
        sig = (row["ret"], tuple(lab(l) for l in row["out"]))
        m = [v for v, p in c["impl"].items() if sig in p]
        for v in m:
            follow[v] += 1
        if not m:
            follow["none"] += 1
            ctx.extra.setdefault("transcription_mismatch_samples", [])
            if len(ctx.extra["transcription_mismatch_samples"]) < 5:
                ctx.extra["transcription_mismatch_samples"].append(
                    {"case": rows[n], "real": [sig[0], list(sig[1])],
                     "transcription": {v: [list(x) for x in p] for v, p in c["impl"].items()}})
    ctx.extra["real_calls"] = len(rows) - notrun
    ctx.extra["not_replayed_after_crash_budget"] = notrun
    ctx.extra["code_follows_transcription"] = follow
    ctx.extra["stronger_reading_consistent_remote_refused"] = refused_consistent
    ctx.assumptions = [
        "one deviation of the remote per case; remote chains of at most %d suffrage states; block height = 3 x suffrage height" % (5 if quick else 8),
        "proofs are real (states, fixed trees, signed maps); the last suffrage candidate state is absent",
        "arrival order of answers inside a batch is not forced (the model shows the outcome does not depend on it)",
        "a trailing duplicate of the last proof in the returned list is tolerated (weaker reading)",
    ]
