"""C09 - node state machine transitions. Spec: States.tla (implementation level) + StatesTrace.tla.

Binding G: maximal behaviours of small instances of States.tla (exported by TLC: exhaustive
families + seeded simulation) are forced on a real isaacstates.States (verif gates
switch:begin / switch:checked, stub handlers with scripted enter/exit outcomes).
Binding B: the event log of every forced schedule and of seeded free-running concurrent drivers
is validated by StatesTrace.tla; the statement's properties are evaluated on the logged values
(TLC prints MISMATCH lines; the same predicates are evaluated here to name the defect class and
to judge logs the model does not explain).

Verdicts come only from logged facts of the real code:
  Enter{st,prev,sf,al}  committed entry: handler entered, state of States.cs and allow flag read
                        under the state lock, from() of the switch context
  Switched{n,cur}       WhenStateSwitchedFunc argument and States.Current() in the callback
"""
import json
import os
import random
import re
import shutil
import subprocess
import threading
import time

from vlib import core

J, C, H, S, B, BR = "JOINING", "CONSENSUS", "HANDOVER", "STOPPED", "BOOTING", "BROKEN"
CLASSES = {
    "StoppedEdges": "stopped-edge",
    "StaleRequestNoEffect": "stale-request-effect",
    "NotAllowedNeverEnters": "enter-consensus-while-not-allowed",
    "ReportMatches": "report-mismatch",
    "ToSyncing": "not-redirected-to-syncing",
}


# ------------------------------------------------------------------ judging a log
def histories(events):
    """[(first_line(1-based), [events])] split at Reset"""
    out = []
    for i, e in enumerate(events):
        if e["a"] == "Reset":
            out.append((i + 1, []))
        if out:
            out[-1][1].append(e)
    return out


def _window_start(evs, i, t):
    """index of the Begin of thread t's switchState call that contains event i"""
    j = i
    while j >= 0 and not (evs[j]["a"] == "Begin" and evs[j].get("t") == t):
        j -= 1
    return max(j, 0)


def _concurrent(evs, a, b, t):
    """what ran concurrently with thread t during events a..b: (a Hold call?, a SetAllowConsensus(false) call?)"""
    tog_calls, hold_calls = {}, {}
    for k, e in enumerate(evs):
        if e["a"] == "TogC" and not e["b"]:
            tog_calls[e["id"]] = [k, None]
        elif e["a"] == "TogR" and e["id"] in tog_calls:
            tog_calls[e["id"]][1] = k
        elif e["a"] == "HoldC":
            hold_calls[e["id"]] = [k, None]
        elif e["a"] == "HoldR" and e["id"] in hold_calls:
            hold_calls[e["id"]][1] = k

    def overlaps(c):
        return c[0] <= b and (c[1] is None or c[1] >= a)

    tog = any(overlaps(c) for c in tog_calls.values())
    hold = t == "hold" or any(overlaps(c) for c in hold_calls.values())
    return hold, tog


def judge(evs):
    """statement predicates on one history -> [(index, class, key, what)]"""
    out = []
    for i, e in enumerate(evs):
        if e["a"] == "Enter" and e["o"] in ("ok", "redirect"):
            t = e["t"]
            a = _window_start(evs, i, t)
            hold, tog = _concurrent(evs, a, i, t)
            if e["prev"] == S and e["st"] not in (B, BR):
                key = "hold-concurrent-with-switch" if hold else "stopped-edge(%s)" % e["st"]
                out.append((i, "StoppedEdges", key, "entered %s from STOPPED" % e["st"]))
            if e["sf"] != e["prev"]:
                key = "hold-concurrent-with-switch" if hold else "stale-request-effect"
                out.append((i, "StaleRequestNoEffect", key,
                            "request from %s took effect (entered %s) while the machine was in %s" % (e["sf"], e["st"], e["prev"])))
            if e["st"] in (J, C) and e["prev"] != H and not e["al"]:
                key = "toggle-between-check-and-enter" if tog else "enter-consensus-while-not-allowed"
                out.append((i, "NotAllowedNeverEnters", key,
                            "entered %s from %s while consensus was not allowed (flag read under the state lock)" % (e["st"], e["prev"])))
        elif e["a"] == "Switched" and e["cur"] != e["n"]:
            t = e["t"]
            a = _window_start(evs, i, t)
            hold, _ = _concurrent(evs, a, i, t)
            key = "hold-concurrent-with-switch" if hold else "report-mismatch"
            out.append((i, "ReportMatches", key, "reported %s, Current() = %s" % (e["n"], e["cur"])))
    return out


def short(evs, upto=None, n=14):
    r = []
    for e in (evs if upto is None else evs[:upto + 1]):
        a = e["a"]
        if a in ("Begin", "Checked"):
            r.append("%s:%s(%s>%s)" % (e["t"], a, e["f"], e["n"]))
        elif a == "Enter":
            r.append("%s:Enter(%s<-%s,al=%s,%s)" % (e["t"], e["st"], e["prev"], int(e["al"]), e["o"]))
        elif a == "Exit":
            r.append("%s:Exit(%s,%s)" % (e["t"], e["st"], e["o"]))
        elif a == "Switched":
            r.append("%s:Switched(%s)" % (e["t"], e["n"]))
        elif a == "AskC":
            r.append("Ask(%s>%s)" % (e["f"], e["n"]))
        elif a == "TogC":
            r.append("Allow(%s)" % int(e["b"]))
        elif a == "TogR":
            r.append("Allow-ret")
        elif a in ("HoldC", "HoldR", "NewY", "AskY", "Notify"):
            r.append(a)
    return r[-n:]


# ------------------------------------------------------------------ TLC helpers
def sched_lines(out):
    res = []
    for m in re.finditer(r'^<<"SCHED", "(.*)">>$', out, re.M):
        s = m.group(1).replace('\\"', '"').replace("\\\\", "\\")
        res.append(json.loads(s))
    return res


def mismatch_lines(out):
    """(class, line) of every MISMATCH print (TLC may wrap long tuples over several lines)"""
    return sorted(set((m.group(1), int(m.group(2))) for m in
                      re.finditer(r'<<\s*"MISMATCH",\s*"([^"]*)",\s*(\d+),', out)))


def validate_parallel(ctx, chunks, timeout):
    """chunks: list of ndjson paths. Runs StatesTrace on each in its own directory, a few at a
    time. -> [(accepted, out, hw)]"""
    res = [None] * len(chunks)
    errs = []
    sem = threading.Semaphore(6 if ctx.tier == "thorough" else 3)

    def one(i, path):
        with sem:
            d = os.path.join(ctx.work, "tv%d_%d" % (ctx._tv, i))
            os.makedirs(d)
            for f in ("States.tla", "StatesTrace.tla", "StatesTrace.cfg"):
                shutil.copy(os.path.join(core.SPEC, f), d)
            shutil.copy(path, os.path.join(d, "trace.ndjson"))
            cmd = ["java", "-XX:+UseParallelGC", "-Xss64m", "-Xmx3g", "-Dtlc2.tool.queue.IStateQueue=StateDeque",
                   "-cp", core._classpath(), "tlc2.TLC", "-workers", "1", "-metadir", os.path.join(d, "meta"),
                   "-config", "StatesTrace.cfg", "StatesTrace.tla"]
            try:
                p = subprocess.run(cmd, cwd=d, stdout=subprocess.PIPE, stderr=subprocess.STDOUT, text=True, timeout=timeout)
            except subprocess.TimeoutExpired:
                errs.append("trace validation of %s timed out after %ss" % (path, timeout))
                return
            r = core.TLCResult(p.returncode, p.stdout, 0)
            hw = None
            m = re.findall(r'<<"HW", (\d+), (\d+)>>', p.stdout)
            if m:
                hw = int(m[-1][0])
            if p.returncode != 0 and hw is None:
                errs.append("TLC StatesTrace exit %d:\n%s" % (p.returncode, p.stdout[-3000:]))
                return
            res[i] = (p.returncode == 0, r, hw)
            shutil.rmtree(d, ignore_errors=True)

    ts = [threading.Thread(target=one, args=(i, p)) for i, p in enumerate(chunks)]
    for t in ts:
        t.start()
    for t in ts:
        t.join()
    ctx._tv += 1
    if errs:
        raise core.MachineryError(errs[0])
    ctx.tlc_cmds.append("tlc -workers 1 -config StatesTrace.cfg StatesTrace.tla   (x%d trace chunks, depth-first queue)" % len(chunks))
    for (_, r, _) in res:
        ctx.states += r.distinct
        ctx.transitions += r.generated
    return res


def validate_and_judge(ctx, label, events, meta):
    """events: whole recording. meta: per history {first,last,...}. Splits into chunks at Reset,
    validates, judges. A history the model does not explain is judged here and removed, the rest
    of its chunk is validated again."""
    hs = histories(events)
    nchunks = max(1, min(12 if ctx.tier == "thorough" else 3, len(hs) // 40))
    per = (len(hs) + nchunks - 1) // nchunks
    groups = [hs[i:i + per] for i in range(0, len(hs), per)]
    unexplained = []
    tlc_mis = set()
    for rnd in range(8):
        paths = []
        for gi, g in enumerate(groups):
            p = os.path.join(ctx.work, "%s_chunk%d_%d.ndjson" % (label, rnd, gi))
            core.write_ndjson(p, [e for (_, evs) in g for e in evs])
            paths.append(p)
        res = validate_parallel(ctx, paths, timeout=1500)
        again = []
        for g, (ok, r, hw) in zip(groups, res):
            # chunk-relative lines -> (history, index)
            offs = []
            n = 0
            for (first, evs) in g:
                offs.append((n, first, evs))
                n += len(evs)

            def locate(line):
                for (o, first, evs) in reversed(offs):
                    if line - 1 >= o:
                        return first, evs, line - 1 - o
                return None

            for (cls, line) in mismatch_lines(r.out):
                loc = locate(line)
                if loc:
                    tlc_mis.add((loc[0], loc[2], cls))
            if not ok:
                loc = locate(hw) if hw else None
                if loc is None:
                    raise core.MachineryError("trace rejected without a usable high-water mark:\n" + r.out[-2000:])
                first, evs, idx = loc
                unexplained.append((first, evs, idx))
                rest = [h for h in g if h[0] != first]
                if rest:
                    again.append(rest)
        groups = again
        if not groups:
            break
    else:
        ctx.extra.setdefault("unvalidated_histories", 0)
        ctx.extra["unvalidated_histories"] += sum(len(g) for g in groups)

    # verdicts: the statement predicates on the logged values of every history
    nviol = 0
    py = set()
    for (first, evs) in hs:
        for (i, cls, key, what) in judge(evs):
            py.add((first, i, cls))
            nviol += 1
            ctx.violation(key, "%s; history: %s" % (what, " ".join(short(evs, i))),
                          {"class": cls, "source": label, "first_line": first, "index": i, "events": evs[:i + 2]})
    # ToSyncing is evaluated by the trace spec only (it needs the model's allow flag at the check)
    for (first, i, cls) in sorted(tlc_mis):
        if cls == "ToSyncing":
            evs = [h for h in hs if h[0] == first][0][1]
            ctx.violation(CLASSES[cls], "a request to JOINING/CONSENSUS passed the check while not allowed and was not turned "
                          "to SYNCING; history: %s" % " ".join(short(evs, i)),
                          {"class": cls, "source": label, "first_line": first, "index": i, "events": evs[:i + 2]})
    exp_first = set(u[0] for u in unexplained)
    dis = [x for x in (py ^ set(t for t in tlc_mis if t[2] != "ToSyncing")) if x[0] not in exp_first]
    if dis:
        ctx.extra.setdefault("judge_disagreements", []).extend(sorted(dis)[:10])
    for (first, evs, idx) in unexplained:
        ctx.extra.setdefault("unexplained_histories", []).append(
            {"source": label, "first_line": first, "unexplained_event": evs[idx] if idx < len(evs) else None,
             "before": short(evs, idx, 10), "statement_violations": [j[1] for j in judge(evs)]})
    return len(hs), len(unexplained)


# ------------------------------------------------------------------ the check
def run(ctx):
    ctx._tv = 0
    quick = ctx.tier == "quick"
    rnd = random.Random(ctx.seed)
    ctx.rule = ("schedules = maximal behaviours of States.tla instances (exhaustive families toggle/hold/handover-y + "
                "-simulate walks of States_sim.cfg), each forced on a real States with stub handlers; plus seeded free-running "
                "histories (1-2 askers, a toggler, Hold, handover-y broker, random handler outcomes); every event log validated "
                "by StatesTrace.tla. non-trivial = schedule/history with at least one request, toggle or Hold; distinct by "
                "action sequence")

    phase = ctx.extra.setdefault("phase_s", {})
    # 1. the implementation-level model: what the code establishes (exhaustive)
    t0 = time.time()
    ctx.tlc("States", "States_mc_quick.cfg" if quick else "States_mc_thorough.cfg", timeout=2400)
    phase["mc"] = round(time.time() - t0, 1)

    # 2. schedules = maximal behaviours of small instances; TLC marks those on which the model
    #    violates a property of the statement (candidates: verdicts only from forcing them)
    scheds = []   # (family, steps, model_bad)
    fams = [("toggle", "States_sched_toggle.cfg"), ("hold", "States_sched_hold.cfg")]
    if not quick:
        fams += [("y", "States_sched_y.cfg")]
    quota = {"toggle": (100, 5000), "hold": (60, 2000), "y": (0, 800)}
    cand = set()
    for fam, cfg in fams:
        t0 = time.time()
        r = ctx.tlc("States", cfg, timeout=2400)
        allf = sched_lines(r.out)
        if not allf:
            raise core.MachineryError("no schedules exported by %s" % cfg)
        bad = [x for x in allf if x["bad"]]
        good = [x for x in allf if not x["bad"]]
        for x in bad:
            cand.update(x["bad"])
        q = quota[fam][0 if quick else 1]
        nb = len(bad) if (not quick or len(bad) <= 120) else 60
        sel = rnd.sample(bad, min(nb, len(bad))) + rnd.sample(good, min(len(good), q))
        ctx.extra["schedules_%s" % fam] = {"exported": len(allf), "model_bad": len(bad), "forced": len(sel)}
        phase["sched_" + fam] = round(time.time() - t0, 1)
        scheds += [(fam, x["h"], x["bad"]) for x in sel]
    t0 = time.time()
    _, behs = ctx.tlc_simulate("States", "States_sim.cfg", num=250 if quick else 1500, depth=70)
    for b in behs:
        scheds.append(("sim", b[-1]["h"], b[-1]["bad"]))
        cand.update(b[-1]["bad"])
    phase["simulate"] = round(time.time() - t0, 1)
    ctx.extra["model_candidates"] = sorted(cand)

    # 3. force them (binding G), a few harness processes side by side
    t0 = time.time()
    nproc = 3 if quick else 6
    parts = [scheds[i::nproc] for i in range(nproc)]
    results = [None] * nproc
    errs = []

    def forcepart(k):
        inp = os.path.join(ctx.work, "sched%d.ndjson" % k)
        core.write_ndjson(inp, [s[1] for s in parts[k]])
        tr = os.path.join(ctx.work, "forced%d.ndjson" % k)
        rs = os.path.join(ctx.work, "forced%d.res" % k)
        try:
            ctx.vh(["C09", "force", "--in", inp, "--out", tr, "--res", rs], timeout=2400)
            results[k] = (core.read_ndjson(tr), core.read_ndjson(rs))
        except core.MachineryError as e:
            errs.append(str(e))

    ts = [threading.Thread(target=forcepart, args=(k,)) for k in range(nproc) if parts[k]]
    for t in ts:
        t.start()
    for t in ts:
        t.join()
    if errs:
        raise core.MachineryError(errs[0])
    events = []
    meta = []
    infeasible = diverged = stuck = 0
    notes = []
    for k in range(nproc):
        if not parts[k]:
            continue
        evs, res = results[k]
        if len(res) != len(parts[k]):
            raise core.MachineryError("harness answered %d of %d schedules" % (len(res), len(parts[k])))
        for (fam, steps, bad), row in zip(parts[k], res):
            if row["reason"].startswith("infeasible"):
                infeasible += 1
            elif row["reason"]:
                diverged += 1
                if len(notes) < 10:
                    notes.append({"family": fam, "reason": row["reason"]})
            stuck += 1 if row["stuck"] else 0
            canon = [[s.get("a"), s.get("t"), s.get("f"), s.get("n"), s.get("o"), s.get("rd"), s.get("b")] for s in steps]
            ctx.case(canon, nontrivial=any(s["a"] in ("Ask", "Toggle", "Hold") for s in steps),
                     sample={"family": fam, "schedule": [dict((k2, v) for k2, v in s.items()) for s in steps][:40],
                             "model_says_violates": bad, "harness": row["reason"] or "carried out as scheduled"})
        events += evs
    ctx.extra["forced"] = {"schedules": len(scheds), "infeasible_skipped": infeasible, "diverged_from_model": diverged,
                           "stuck": stuck, "diverged_samples": notes}
    if infeasible > len(scheds) // 3:
        raise core.MachineryError("%d of %d schedules infeasible - gates not reached (harness or hooks broken?)" % (infeasible, len(scheds)))
    phase["force"] = round(time.time() - t0, 1)
    t0 = time.time()
    n, unexp = validate_and_judge(ctx, "forced", events, meta)
    ctx.traces += n
    phase["validate_forced"] = round(time.time() - t0, 1)

    # 4. free-running histories (binding B)
    t0 = time.time()
    num = 250 if quick else 2000
    nproc = 1 if quick else 4
    events = []
    for k in range(nproc):
        tr = os.path.join(ctx.work, "free%d.ndjson" % k)
        rs = os.path.join(ctx.work, "free%d.res" % k)
        ctx.vh(["C09", "free", "--num", num // nproc, "--out", tr, "--res", rs], timeout=2400,
               env_extra={"VERIF_SEED": str(ctx.seed * 7 + k)})
        rows = core.read_ndjson(rs)
        st = sum(1 for r in rows if r["stuck"])
        ctx.extra["free_stuck_histories"] = ctx.extra.get("free_stuck_histories", 0) + st
        events += core.read_ndjson(tr)
    for (first, evs) in histories(events):
        canon = [[e["a"], e.get("t"), e.get("f"), e.get("n"), e.get("st"), e.get("o"), e.get("b")] for e in evs]
        ctx.case(canon, nontrivial=any(e["a"] in ("AskC", "TogC", "HoldC") for e in evs))
    n2, unexp2 = validate_and_judge(ctx, "free", events, meta)
    ctx.traces += n2
    phase["free+validate"] = round(time.time() - t0, 1)
    ctx.extra["histories"] = {"forced": n, "free": n2, "not_explained_by_model": unexp + unexp2}
    if ctx.extra.get("free_stuck_histories"):
        ctx.extra["free_stuck_note"] = (
            "a stuck free-running history is a deadlock of the real code, outside the statement of C09 (safety only) and "
            "therefore not a verdict: SetAllowConsensus holds the read side of States.stateLock and then calls st.current() "
            "(states.go, directly and through HandoverYBroker.cancel -> whenCanceledf), which takes the read side again; when "
            "exitAndEnter is waiting for the write side in between, sync.RWMutex blocks the second RLock forever (goroutine "
            "dump taken with VERIF_C09_DUMP=<file>). The partial log of such a history is still validated.")
    if unexp + unexp2 > (n + n2) // 10:
        raise core.MachineryError("%d of %d recorded histories are not explained by States.tla - the model no longer "
                                  "describes the code (see evidence: unexplained_histories)" % (unexp + unexp2, n + n2))

    # candidates of the model that the real code did not show
    seen = set(k.split(":", 1)[1] for k in list(ctx.known_hit) + [v[0] for v in ctx.viol])
    mo = []
    if "NotAllowedNeverEnters" in ctx.extra["model_candidates"] and "toggle-between-check-and-enter" not in seen:
        mo.append("NotAllowedNeverEnters (toggle between check and enter)")
    if any(c in ctx.extra["model_candidates"] for c in ("StoppedEdges", "StaleRequestNoEffect", "ReportMatches")) \
            and "hold-concurrent-with-switch" not in seen:
        mo.append("StoppedEdges/StaleRequestNoEffect/ReportMatches (Hold concurrent with a switch)")
    ctx.extra["model_only_counterexamples"] = mo
    ctx.exhaustive = not quick
    ctx.assumptions = [
        "state handlers are verif stubs with scripted enter/exit outcomes (the real handlers' reactions - asking to move to "
        "SYNCING when consensus is disallowed - are emulated by the stub script)",
        "requests before States.start() has installed the stopped handler are not generated",
        "the switch goroutine's reads of current / allow flag / handover-y broker inside checkStateSwitchContext are one atomic step of the model",
        "entries out of HANDOVER are exempt from the allow rule whether or not the handover finished (weaker reading)",
    ]
