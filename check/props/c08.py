"""C08 - the local node never equivocates. Spec: Broadcaster.tla (implementation level) +
BroadcasterTrace.tla.

Binding G: maximal behaviours of small instances of Broadcaster.tla (exhaustive families
mimic/mimic and handler/mimic + seeded -simulate walks of a larger instance) are forced on the
real objects: the real mimic-ballot function of States (installed in a real Ballotbox, stub
SYNCING handler), the real DefaultBallotBroadcaster over a real TempPool, through the verif
gates mimic:checked / mimic:signed / mimic:broadcast and the broadcast function.
Binding B: the event log of every forced schedule and of seeded free-running concurrent
deliveries is validated by BroadcasterTrace.tla.

Verdict only from the broadcast log (Send events = what the broadcast function was handed):
two different facts for one stage point (suffrage-confirm flag included) in one execution.
"""
import json
import os
import random
import re
import shutil
import subprocess
import threading
import time

from vlib import core


def histories(events):
    out = []
    for i, e in enumerate(events):
        if e["a"] == "Reset":
            out.append((i + 1, []))
        if out:
            out[-1][1].append(e)
    return out


def kind(c):
    return "mimic" if c.startswith("d") else "handler"


def judge(evs):
    """-> ([(index, key, what)], signed_twice?)"""
    sent = {}
    out = []
    for i, e in enumerate(evs):
        if e["a"] == "Send" and e.get("local", True):
            prevs = sent.setdefault(e["s"], [])
            other = [p for p in prevs if p[1] != e["f"]]
            if other and not any(p[1] == e["f"] for p in prevs):
                kinds = sorted(set([kind(e["c"])] + [kind(p[0]) for p in other]))
                key = "%s;check-before-set" % "+".join(kinds)
                out.append((i, key, "stage point %s: fact %s handed to the broadcast function by %s after fact %s by %s" % (
                    e["s"], e["f"], e["c"], other[0][1], other[0][0])))
            prevs.append((e["c"], e["f"]))
    signed = {}
    for e in evs:
        if e["a"] in ("Signed", "HSign"):
            signed.setdefault(e["s"], set()).add(e["f"])
    return out, any(len(v) > 1 for v in signed.values())


def short(evs, upto=None, n=16):
    r = []
    for e in (evs if upto is None else evs[:upto + 1]):
        a = e["a"]
        if a in ("Signed", "HSign", "Send"):
            r.append("%s:%s(%s,%s)" % (e["c"], a, e["s"], e["f"]))
        elif a == "HLook":
            r.append("%s:HLook(%s)" % (e["c"], e["f"] if e["found"] else "-"))
        elif a in ("Checked", "AtBcast", "BcastC", "Again", "Deliver"):
            r.append("%s:%s" % (e["c"], a))
    return r[-n:]


def sched_lines(out):
    res = []
    for m in re.finditer(r'^<<"SCHED", "(.*)">>$', out, re.M):
        res.append(json.loads(m.group(1).replace('\\"', '"').replace("\\\\", "\\")))
    return res


def mismatch_lines(out):
    return sorted(set((m.group(1), int(m.group(2))) for m in
                      re.finditer(r'<<\s*"MISMATCH",\s*"([^"]*)",\s*(\d+),', out)))


def validate_parallel(ctx, chunks, timeout):
    res = [None] * len(chunks)
    errs = []
    sem = threading.Semaphore(6 if ctx.tier == "thorough" else 3)

    def one(i, path):
        with sem:
            d = os.path.join(ctx.work, "tv%d_%d" % (ctx._tv, i))
            os.makedirs(d)
            for f in ("Broadcaster.tla", "BroadcasterTrace.tla", "BroadcasterTrace.cfg"):
                shutil.copy(os.path.join(core.SPEC, f), d)
            shutil.copy(path, os.path.join(d, "trace.ndjson"))
            cmd = ["java", "-XX:+UseParallelGC", "-Xss64m", "-Xmx3g", "-Dtlc2.tool.queue.IStateQueue=StateDeque",
                   "-cp", core._classpath(), "tlc2.TLC", "-workers", "1", "-metadir", os.path.join(d, "meta"),
                   "-config", "BroadcasterTrace.cfg", "BroadcasterTrace.tla"]
            try:
                p = subprocess.run(cmd, cwd=d, stdout=subprocess.PIPE, stderr=subprocess.STDOUT, text=True, timeout=timeout)
            except subprocess.TimeoutExpired:
                errs.append("trace validation of %s timed out after %ss" % (path, timeout))
                return
            r = core.TLCResult(p.returncode, p.stdout, 0)
            hw = None
            m = re.findall(r'<<"HW", (\d+), (\d+)>>', p.stdout)
            if m:
                hw = int(m[-1][0])
            if p.returncode != 0 and hw is None:
                errs.append("TLC BroadcasterTrace exit %d:\n%s" % (p.returncode, p.stdout[-3000:]))
                return
            res[i] = (p.returncode == 0, r, hw)
            shutil.rmtree(d, ignore_errors=True)

    ts = [threading.Thread(target=one, args=(i, p)) for i, p in enumerate(chunks)]
    for t in ts:
        t.start()
    for t in ts:
        t.join()
    ctx._tv += 1
    if errs:
        raise core.MachineryError(errs[0])
    ctx.tlc_cmds.append("tlc -workers 1 -config BroadcasterTrace.cfg BroadcasterTrace.tla   (x%d trace chunks, depth-first queue)" % len(chunks))
    for (_, r, _) in res:
        ctx.states += r.distinct
        ctx.transitions += r.generated
    return res


def validate_and_judge(ctx, label, events):
    hs = histories(events)
    nchunks = max(1, min(12 if ctx.tier == "thorough" else 3, len(hs) // 40))
    per = (len(hs) + nchunks - 1) // nchunks
    groups = [hs[i:i + per] for i in range(0, len(hs), per)]
    unexplained = []
    tlc_mis = set()
    for rnd in range(8):
        paths = []
        for gi, g in enumerate(groups):
            p = os.path.join(ctx.work, "%s_chunk%d_%d.ndjson" % (label, rnd, gi))
            core.write_ndjson(p, [e for (_, evs) in g for e in evs])
            paths.append(p)
        res = validate_parallel(ctx, paths, timeout=1500)
        again = []
        for g, (ok, r, hw) in zip(groups, res):
            offs = []
            n = 0
            for (first, evs) in g:
                offs.append((n, first, evs))
                n += len(evs)

            def locate(line):
                for (o, first, evs) in reversed(offs):
                    if line - 1 >= o:
                        return first, evs, line - 1 - o
                return None

            for (cls, line) in mismatch_lines(r.out):
                loc = locate(line)
                if loc:
                    tlc_mis.add((loc[0], loc[2]))
            if not ok:
                loc = locate(hw) if hw else None
                if loc is None:
                    raise core.MachineryError("trace rejected without a usable high-water mark:\n" + r.out[-2000:])
                first, evs, idx = loc
                unexplained.append((first, evs, idx))
                rest = [h for h in g if h[0] != first]
                if rest:
                    again.append(rest)
        groups = again
        if not groups:
            break
    else:
        ctx.extra["unvalidated_histories"] = ctx.extra.get("unvalidated_histories", 0) + sum(len(g) for g in groups)

    py = set()
    twice = 0
    for (first, evs) in hs:
        vs, tw = judge(evs)
        twice += 1 if tw else 0
        for (i, key, what) in vs:
            py.add((first, i))
            ctx.violation(key, "%s; history: %s" % (what, " ".join(short(evs, i))),
                          {"source": label, "first_line": first, "index": i, "events": evs[:i + 2]})
    exp_first = set(u[0] for u in unexplained)
    dis = [x for x in (py ^ tlc_mis) if x[0] not in exp_first]
    if dis:
        ctx.extra.setdefault("judge_disagreements", []).extend(sorted(dis)[:10])
    for (first, evs, idx) in unexplained:
        ctx.extra.setdefault("unexplained_histories", []).append(
            {"source": label, "first_line": first, "unexplained_event": evs[idx] if idx < len(evs) else None,
             "before": short(evs, idx, 12), "statement_violations": [j[1] for j in judge(evs)[0]]})
    return len(hs), len(unexplained), twice


def _steps_from_text(text):
    res = []
    for line in text.splitlines():
        m = re.match(r'^(?:/\\ )?step = "(.*)"$', line)
        if m and m.group(1):
            res.append(json.loads(m.group(1).replace('\\"', '"').replace("\\\\", "\\")))
    return res


def run(ctx):
    ctx._tv = 0
    quick = ctx.tier == "quick"
    rnd = random.Random(ctx.seed)
    phase = ctx.extra.setdefault("phase_s", {})
    ctx.rule = ("schedules = maximal behaviours of Broadcaster.tla (exhaustive: 2 mimic deliveries over 2 stage points; 1 mimic "
                "delivery + 1 handler call with a re-broadcast; -simulate: 3 deliveries + 2 handler calls over 3 stage points), "
                "each forced on the real mimic function / broadcaster / pool; plus seeded free-running histories (2-4 sync "
                "sources, 0-2 handler calls, 1-2 stage points); every event log validated by BroadcasterTrace.tla. "
                "non-trivial = at least two callers on one stage point; distinct by event sequence")

    # 1. model of the current tree: what it establishes
    t0 = time.time()
    ctx.tlc("Broadcaster", "Broadcaster_mc_quick.cfg" if quick else "Broadcaster_mc_thorough.cfg", timeout=2400)
    # 2. model of the pinned tree (Broadcast sends its argument): candidate counterexample
    r = ctx.tlc("Broadcaster", "Broadcaster_pinned.cfg", allow_violation=True, count=False, timeout=900)
    cand = None
    if r.violated:
        st = _steps_from_text(r.out)
        cand = st[-1]["h"] if st else None
    ctx.extra["pinned_model_violates"] = r.violated
    phase["mc"] = round(time.time() - t0, 1)

    # 3. schedules
    t0 = time.time()
    scheds = []
    for fam, cfg, q in (("mimic", "Broadcaster_sched_mimic.cfg", (90, 10 ** 6)), ("handler", "Broadcaster_sched_handler.cfg", (90, 10 ** 6))):
        r = ctx.tlc("Broadcaster", cfg, timeout=1200)
        allf = sched_lines(r.out)
        if not allf:
            raise core.MachineryError("no schedules exported by %s" % cfg)
        tw = [x for x in allf if x["twice"]]       # two facts signed for one stage point: where the pinned tree equivocates
        rest = [x for x in allf if not x["twice"]]
        n = q[0 if quick else 1]
        sel = rnd.sample(tw, min(len(tw), n * 2 // 3)) + rnd.sample(rest, min(len(rest), n // 3 if quick else n))
        ctx.extra["schedules_%s" % fam] = {"exported": len(allf), "two_facts_signed": len(tw), "forced": len(sel)}
        scheds += [(fam, x["h"], x["twice"]) for x in sel]
    _, behs = ctx.tlc_simulate("Broadcaster", "Broadcaster_sim.cfg", num=150 if quick else 2500, depth=60)
    for b in behs:
        scheds.append(("sim", b[-1]["h"], b[-1]["twice"]))
    if cand:
        scheds.append(("pinned-counterexample", cand, True))
    phase["schedules"] = round(time.time() - t0, 1)

    # 4. force (binding G)
    t0 = time.time()
    nproc = 3 if quick else 6
    parts = [scheds[i::nproc] for i in range(nproc)]
    results = [None] * nproc
    errs = []

    def forcepart(k):
        inp = os.path.join(ctx.work, "sched%d.ndjson" % k)
        core.write_ndjson(inp, [s[1] for s in parts[k]])
        tr = os.path.join(ctx.work, "forced%d.ndjson" % k)
        rs = os.path.join(ctx.work, "forced%d.res" % k)
        try:
            ctx.vh(["C08", "force", "--in", inp, "--out", tr, "--res", rs], timeout=2400)
            results[k] = (core.read_ndjson(tr), core.read_ndjson(rs))
        except core.MachineryError as e:
            errs.append(str(e))

    ts = [threading.Thread(target=forcepart, args=(k,)) for k in range(nproc) if parts[k]]
    for t in ts:
        t.start()
    for t in ts:
        t.join()
    if errs:
        raise core.MachineryError(errs[0])
    events = []
    infeasible = diverged = 0
    notes = []
    for k in range(nproc):
        if not parts[k]:
            continue
        evs, res = results[k]
        if len(res) != len(parts[k]):
            raise core.MachineryError("harness answered %d of %d schedules" % (len(res), len(parts[k])))
        for (fam, steps, tw), row in zip(parts[k], res):
            if row["reason"].startswith("infeasible"):
                infeasible += 1
            elif row["reason"]:
                diverged += 1
                if len(notes) < 10:
                    notes.append({"family": fam, "reason": row["reason"]})
            canon = [[s.get("a"), s.get("c"), s.get("found"), s.get("s"), s.get("f")] for s in steps] + [steps[0].get("dsp"), steps[0].get("df")]
            sps = [steps[0]["dsp"][c] for c in steps[0]["dsp"]]
            ctx.case(canon, nontrivial=len(sps) != len(set(sps)),
                     sample={"family": fam, "schedule": steps[:40], "two_facts_signed_in_model": tw,
                             "harness": row["reason"] or "carried out as scheduled"})
        events += evs
    ctx.extra["forced"] = {"schedules": len(scheds), "infeasible_skipped": infeasible, "diverged_from_model": diverged,
                           "diverged_samples": notes}
    if infeasible > len(scheds) // 3:
        raise core.MachineryError("%d of %d schedules infeasible - gates not reached (harness or hooks broken?)" % (infeasible, len(scheds)))
    phase["force"] = round(time.time() - t0, 1)
    t0 = time.time()
    n, unexp, twice = validate_and_judge(ctx, "forced", events)
    ctx.traces += n
    phase["validate_forced"] = round(time.time() - t0, 1)

    # 5. free-running (binding B)
    t0 = time.time()
    num = 150 if quick else 2400
    nproc = 1 if quick else 4
    events = []
    for k in range(nproc):
        tr = os.path.join(ctx.work, "free%d.ndjson" % k)
        ctx.vh(["C08", "free", "--num", num // nproc, "--out", tr], timeout=2400, env_extra={"VERIF_SEED": str(ctx.seed * 7 + k)})
        events += core.read_ndjson(tr)
    for (first, evs) in histories(events):
        canon = [[e["a"], e.get("c"), e.get("s"), e.get("f"), e.get("found")] for e in evs[1:]] + [evs[0]["dsp"], evs[0]["df"]]
        callers = set(e["c"] for e in evs[1:] if "c" in e)
        sps = [evs[0]["dsp"][c] for c in callers]
        ctx.case(canon, nontrivial=len(sps) != len(set(sps)))
    n2, unexp2, twice2 = validate_and_judge(ctx, "free", events)
    ctx.traces += n2
    phase["free+validate"] = round(time.time() - t0, 1)

    ctx.extra["histories"] = {"forced": n, "free": n2, "not_explained_by_model": unexp + unexp2}
    ctx.extra["stronger_reading_two_facts_signed_histories"] = twice + twice2
    ctx.extra["stronger_reading_note"] = ("the mimic path still signs (and votes into the local ballot box) a second fact when two "
                                          "deliveries pass the pool check together; only one of them is handed to the broadcast function")
    if unexp + unexp2 > (n + n2) // 10:
        raise core.MachineryError("%d of %d recorded histories are not explained by Broadcaster.tla - the model no longer "
                                  "describes the code (see evidence: unexplained_histories)" % (unexp + unexp2, n + n2))
    seen = set(k.split(":", 1)[1] for k in list(ctx.known_hit) + [v[0] for v in ctx.viol])
    ctx.extra["model_only_counterexamples"] = (
        ["NoEquivocation on the pinned-tree model (SendKept = FALSE): two callers pass the pool check before either stores"]
        if ctx.extra["pinned_model_violates"] and not any("check-before-set" in k for k in seen) else [])
    ctx.exhaustive = not quick
    ctx.assumptions = [
        "the consensus handlers themselves are not run: their pattern (pool lookup, sign, Broadcast, re-broadcast by the ballot "
        "timers) is performed by harness goroutines on the real DefaultBallotBroadcaster / TempPool",
        "the current state handler is a verif stub (SYNCING); consensus allowed; every delivering node is a sync source in the suffrage",
        "facts A/B are two proposals (INIT, suffrage confirm) / two new-block hashes (ACCEPT) for height 33 round 0",
    ]
