"""C23 - expel-operation pool lookups. Spec: PoolExpels.tla (abstract Cover/LookupSet/AfterRemove
from the statement + transcription of the descending-key iteration, compared by TLC).
Binding A: every distinct state of the exhaustive run (stored set + the abstract answer to every
traversal / lookup / removal-by-height) and every step of seeded -simulate walks on a larger
instance is replayed into a real TempPool (real signed SuffrageExpelOperations, JSON encoder,
leveldb mem storage). TLC's counterexample on the pinned-tree transcription (EarlyStop=TRUE) is
a candidate that is replayed too; only what the real pool answers decides."""
import os
import re
from vlib import core


def parse(i):
    n, s, e = i.rsplit(":", 2)
    return n, int(s), int(e)


def by_descending_end(order):
    ends = [parse(i)[2] for i in order]
    return all(ends[k] >= ends[k + 1] for k in range(len(ends) - 1))


def pinned_traverse(order, h):
    """the pinned-tree iteration on the real key order: (visited, stopped because start > h)"""
    out = []
    for i in order:
        _, s, e = parse(i)
        if e < h:
            return sorted(out), False
        if s > h:
            return sorted(out), True
        out.append(i)
    return sorted(out), False


def pinned_lookup(order, node, h):
    for i in order:
        n, s, e = parse(i)
        if n != node:
            continue
        if e < h:
            return [], False
        if s > h:
            return [], True
        return [i], False
    return [], False


def classify(m):
    """key = class of the failing query, from the real key order and the answer"""
    c = m["class"]
    got, want, order = m.get("got") or [], m.get("want") or [], m.get("order") or []
    if c == "traverse":
        pv, early = pinned_traverse(order, m["h"])
        if early and by_descending_end(order) and sorted(got) == pv and set(got) < set(want):
            return "stop-at-start>height"
        if set(got) - set(want):
            return "traverse-visits-non-covering"
        if len(got) != len(set(got)):
            return "traverse-visits-twice"
        return "traverse-misses-covering"
    if c == "lookup-found":
        pv, early = pinned_lookup(order, m.get("node"), m["h"])
        if not got and want and early and by_descending_end(order):
            return "stop-at-start>height"
        return "lookup-misses-covering" if want else "lookup-finds-non-covering"
    if c == "lookup-op":
        return "lookup-returns-non-covering"
    if c == "remove-by-height":
        if set(got) - set(want):
            return "remove-by-height-keeps-ended"
        return "remove-by-height-removes-live"
    if c == "stored":
        return "stored-set-after-%s" % m.get("after", "?")
    if c == "panic":
        return "panic(%s)" % (m.get("msg", "").split(":")[0])
    return "error(%s)" % m.get("after", "?")


def last_step_of_counterexample(ctx, out):
    p = os.path.join(ctx.work, "cex.txt")
    open(p, "w").write(out)
    steps = list(core._parse_steps(p, "step"))
    return steps[-1] if steps else None


def run(ctx):
    quick = ctx.tier == "quick"
    cfg = "PoolExpels_mc_quick.cfg" if quick else "PoolExpels_mc_thorough.cfg"
    r, steps = ctx.tlc_dump_steps("PoolExpels", cfg, timeout=2400)
    ctx.exhaustive = True
    ctx.rule = ("every distinct stored set of PoolExpels.tla under %s (each with every traversal, lookup and removal height) "
                "plus seeded -simulate walks of PoolExpels_sim.cfg (Set/RemoveByFact/RemoveByHeight, all queries after "
                "every step); non-trivial = at least one stored operation; distinct by stored set / action sequence" % cfg)
    if not quick:
        _, more = ctx.tlc_dump_steps("PoolExpels", "PoolExpels_mc_thorough2.cfg", timeout=2400)
        steps.extend(more)
    cases = []
    for s in steps:
        cases.append({"i": len(cases), "kind": "state", "st": s["st"]})
    nstates = len(cases)
    # candidate from the pinned-tree transcription
    rp = ctx.tlc("PoolExpels", "PoolExpels_pinned.cfg", allow_violation=True, count=False, timeout=600)
    cand = None
    if rp.safety_violation:
        s = last_step_of_counterexample(ctx, rp.out)
        if s is not None:
            cand = len(cases)
            cases.append({"i": cand, "kind": "state", "st": s["st"], "candidate": rp.violated})
    ctx.extra["pinned_transcription_violates"] = rp.violated
    _, behs = ctx.tlc_simulate("PoolExpels", "PoolExpels_sim.cfg", num=100 if quick else 1000, depth=12 if quick else 20)
    for b in behs:
        cases.append({"i": len(cases), "kind": "beh", "steps": b})
    inp = os.path.join(ctx.work, "cases.ndjson")
    core.write_ndjson(inp, cases)
    res = os.path.join(ctx.work, "res.ndjson")
    ctx.vh(["C23", "replay", "--in", inp, "--out", res, "--variants", 3 if quick else 6], timeout=2400)
    rows = core.read_ndjson(res)
    if len(rows) != len(cases):
        raise core.MachineryError("harness answered %d of %d cases" % (len(rows), len(cases)))
    calls = 0
    cand_reproduced = False
    for c, row in zip(cases, rows):
        if row["i"] != c["i"]:
            raise core.MachineryError("result order broken at %d" % c["i"])
        calls += row["calls"]
        if c["kind"] == "state":
            ops = sorted("%s:%d:%d" % (o["node"], o["start"], o["end"]) for o in c["st"]["ops"])
            ctx.case(["state", ops], nontrivial=len(ops) > 0,
                     sample={"stored": ops, "cover": c["st"]["cover"], "real_calls": row["calls"]} if len(ops) > 1 else None)
        else:
            seq = [[s["a"], s.get("op"), s.get("facts"), s.get("h")] for s in c["steps"]]
            ctx.case(["beh", seq], nontrivial=any(s["a"] == "Set" for s in c["steps"]),
                     sample={"behaviour": [[s["a"], s.get("op") or s.get("facts") or s.get("h")] for s in c["steps"]],
                             "real_calls": row["calls"]})
        ctx.traces += 1
        seen = set()
        for m in row.get("mis") or []:
            key = classify(m)
            if c["i"] == cand:
                cand_reproduced = True
            if key in seen:
                continue
            seen.add(key)
            what = "%s at height %s%s after %s: got %s, statement says %s; stored %s, key order %s" % (
                m["class"], m.get("h"), (" node " + m["node"]) if m.get("node") else "", m.get("after"),
                m.get("got"), m.get("want"), m.get("ops"), m.get("order"))
            if m["class"] in ("panic", "error"):
                what += " " + (m.get("msg") or "")[:300]
            case = {"mismatch": m, "variant": row["variant"], "kind": c["kind"]}
            if c["kind"] == "beh":
                case["behaviour_prefix"] = [[s["a"], s.get("op") or s.get("facts") or s.get("h")] for s in c["steps"][:m["step"] + 1]]
            ctx.violation(key, what, case)
    if cand is not None and not cand_reproduced:
        ctx.extra["model_only_counterexamples"] = [{
            "config": "PoolExpels_pinned.cfg", "invariant": rp.violated,
            "state": cases[cand]["st"]["ops"],
            "note": "transcription of the pinned-tree iteration (stop at start > height); the real pool answers this case as the statement says"}]
    ctx.extra["real_calls"] = calls
    ctx.extra["exhaustive_states"] = nstates
    ctx.extra["behaviours"] = len(behs)
    ctx.assumptions = ["an expel operation is identified by (node, start, end): the fact hash covers nothing else",
                       "order among operations ending at the same height = fact-hash order; varied by using several address sets",
                       "the stored set is read from the raw leveldb keys (suffix = fact hash)"]
