"""C03 - agreement between accepted voteproofs. Spec: Agreement.tla (+ Quorum.tla, TLAPS, thorough tier).

 1. "cands" mode: TLC enumerates every candidate voteproof of a suffrage of n nodes (who signed A / B,
    which nodes are expelled, which family of nodes signed the expels, plain / expel / stuck, claimed result,
    INIT / ACCEPT, and a catalogue of structural mutations applied to the candidates that are accepted or one
    vote short) together with the verdict of Accepted, the transcription of the two validators.
    Binding A: the harness builds each candidate as a real, really signed voteproof and asks
    vp.IsValid(networkID) and isaac.IsValidVoteproofWithSuffrage(vp, suffrage).
    "orbits" mode: for suffrages too large to enumerate (n=5,6,7 quick; up to 10 and t=80 thorough) TLC enumerates the
    candidates up to a renaming of the nodes - one representative per profile (expelled k, votes for the claimed fact,
    votes for the other fact, signer family, stage), placed so that the voteproofs for A and those for B share as few
    signers as any placement can (OrbitRepresents / OrbitOverlapMinimal are checked by TLC in "agree" mode); they are
    built and validated by the real code exactly like the others. These sizes are where ceil((n-k)t/100) < n-k and where
    k<f, k=f, k>f are all inhabited, so the threshold arithmetic of the expel branch is observable.
 1b. Validation HISTORIES (emitted by the same "orbits" runs): sequences of voteproofs handed, in the model's order, to the
    validators of ONE harness process - a genuine voteproof and the voteproof forged from its signatures (signature
    transplants: the sign of node v for fact X attached to fact Y / to the fact of another stage point / the signature of
    another node under v's name), genuine first and forged first. Each history has its own stage points, facts and fresh
    signatures. A forged voteproof that the real validators accept is a violation whatever was validated before; it is
    reported as a conflict when the history then holds two accepted voteproofs with different majorities and at most f
    real double-signers. The transplants are also in the catalogue of the isolated candidates (n=3).
 2. Agreement is evaluated on the table of REAL verdicts: every pair of really accepted candidates with
    different majority facts for which at most f nodes really signed both facts is a conflict. Pairs in which
    one side expels more than f nodes are the recorded design-level finding (key expel-voteproof;k>f);
    every other conflicting pair is a violation.
 3. "agree"/"closed" modes: TLC checks the agreement invariants on the model (explicit n<=5, cardinality
    form n<=7); the class the model violates (AgreeExpelBeyondF) is concretised by looking its two voteproofs
    up in the real table.
Differences between Accepted and the real validators that create no conflicting real pair are evidence."""
import os
import re
import shutil
import subprocess
import time
from concurrent.futures import ThreadPoolExecutor
from vlib import core

KNOWN = "expel-voteproof;k>f"
FORGED = ("wrongkey", "badsig")
TP_ALL = ("tp-fact-all", "tp-point-all")
TP_ONE = ("tp-fact-one", "tp-point-one", "tp-node-one")
FORGED_LABEL = {"wrongkey": "foreign-key-signature", "badsig": "other-network-signature",
                "tp-fact-all": "transplanted-signature;fact", "tp-fact-one": "transplanted-signature;fact",
                "tp-point-all": "transplanted-signature;point", "tp-point-one": "transplanted-signature;point",
                "tp-node-one": "transplanted-signature;node"}


def _sub(ctx, name):
    sub = core.Ctx.__new__(core.Ctx)
    sub.__dict__.update(ctx.__dict__)
    sub.work = os.path.join(ctx.work, name)
    os.makedirs(sub.work)
    sub.states = sub.transitions = 0
    sub.tlc_cmds = []
    sub._ntlc = 0
    return sub


def _signed(c):
    """bit masks of the suffrage nodes that REALLY signed A resp. B in the candidate"""
    a = b = 0
    first = True
    for i, v in enumerate(c["votes"]):
        if v == "-":
            continue
        forged = (first and (c["mut"] in FORGED or c["mut"] in TP_ONE)) or c["mut"] in TP_ALL
        first = False
        if forged:
            if c["mut"].startswith("tp-fact"):      # the signature was really made by this node: for the other fact of this stage point
                if v == "A":
                    b |= 1 << i
                else:
                    a |= 1 << i
            continue
        if v == "A":
            a |= 1 << i
        else:
            b |= 1 << i
    return a, b


def _desc(c):
    va = [i + 1 for i, v in enumerate(c["votes"]) if v == "A"]
    vb = [i + 1 for i, v in enumerate(c["votes"]) if v == "B"]
    ex = [i + 1 for i, e in enumerate(c["ex"]) if e]
    s = "%s %s voteproof claiming %s: A<-%s B<-%s" % (c["stage"], c["kind"], c["claim"], va, vb)
    if ex:
        s += " expels %s (signers: %s)" % (ex, c["fam"])
    if c["mut"] != "none":
        s += " mutation=%s" % c["mut"]
    if c.get("pt"):
        s += " (at another stage point)"
    return s


def _histories(ctx, hists):
    """replay the validation histories in one harness process; judge forged voteproofs that were accepted"""
    if not hists:
        return
    hin = os.path.join(ctx.work, "histories.ndjson")
    hout = os.path.join(ctx.work, "history-verdicts.ndjson")
    core.write_ndjson(hin, [{"n": h["n"], "t10": h["t10"],
                             "hist": [{k: c[k] for k in ("votes", "ex", "signers", "kind", "claim", "mut", "stage", "pt")} for c in h["hist"]]}
                            for h in hists])
    ctx.vh(["C03", "history", "--in", hin, "--out", hout], timeout=1200)
    rows = core.read_ndjson(hout)
    if len(rows) != len(hists):
        raise core.MachineryError("harness answered %d of %d histories" % (len(rows), len(hists)))
    ctx.traces += len(hists)
    depend = {}
    nforged = 0
    for h, r in zip(hists, rows):
        n, t10 = h["n"], h["t10"]
        f = (n * 1000 - n * t10) // 1000
        seq = h["hist"]
        for c in seq:
            c["n"], c["t10"] = n, t10
        ctx.case(["history", n, t10, [[c[k] for k in ("votes", "ex", "kind", "claim", "mut", "stage", "pt")] for c in seq]],
                 nontrivial=True,
                 sample={"history": [_desc(c) for c in seq], "model": h["why"], "real": [x["accepted"] for x in r["steps"]]})
        if len(r["steps"]) != len(seq):
            raise core.MachineryError("history %d: %d of %d validations answered" % (r["i"], len(r["steps"]), len(seq)))
        # who REALLY signed which fact of the stage point (pt 0) anywhere in this history (_signed: a signature transplanted
        # from the other fact was really made for that fact)
        sa = sb = 0
        for c in seq:
            a, b = _signed(c)
            if c["pt"] == 0:
                sa, sb = sa | a, sb | b
        double = [i + 1 for i in range(n) if (sa & sb) >> i & 1]
        accepted = []
        for j, (c, want, x) in enumerate(zip(seq, h["accepted"], r["steps"])):
            if x.get("panic"):
                ctx.violation("panic(validator)", "validating %s panicked: %s" % (_desc(c), x["panic"][:300]), {"history": seq, "real": r})
                continue
            if x["accepted"]:
                accepted.append((j, c))
            if x["accepted"] != want and c["mut"] not in FORGED_LABEL:
                k = "step %d of %d|%s|model:%s|real:%s" % (j + 1, len(seq), "after " + "+".join(d["mut"] for d in seq[:j]) if j else "cold",
                                                          h["why"][j], "accepted" if x["accepted"] else (x.get("verr") or x.get("serr") or "")[:60])
                d = depend.setdefault(k, {"count": 0, "example": [_desc(d) for d in seq]})
                d["count"] += 1
        for j, c in accepted:
            if c["mut"] not in FORGED_LABEL:
                continue
            nforged += 1
            before = "after-genuine" if any(d["mut"] == "none" for d in seq[:j]) else ("cold" if j == 0 else "after-forged")
            label = "%s;%s" % (FORGED_LABEL[c["mut"]], before)
            rival = [d for (i, d) in accepted if d["pt"] == c["pt"] and d["stage"] == c["stage"] and d["claim"] in ("A", "B")
                     and c["claim"] in ("A", "B") and d["claim"] != c["claim"]]
            if rival and len(double) <= f:
                key = "conflict;accepted-with(%s)" % label
                what = ("n=%d t=%.1f f=%d: one validator, in this order: %s; it accepted [%s] although its signatures were not made for it, "
                        "and [%s]: two majorities for one stage point, nodes that really signed both facts: %s"
                        % (n, t10 / 10, f, " THEN ".join("[%s]" % _desc(d) for d in seq), _desc(c), _desc(rival[0]), double))
            else:
                key = "accepted-with(%s)" % label
                what = ("n=%d t=%.1f f=%d: one validator, in this order: %s; it accepted [%s] although its signatures were not made for it"
                        % (n, t10 / 10, f, " THEN ".join("[%s]" % _desc(d) for d in seq), _desc(c)))
            ctx.violation(key, what, {"n": n, "t10": t10, "history": seq, "real": r["steps"], "double_signers": double})
    ctx.extra["validation_histories"] = len(hists)
    ctx.extra["forged_voteproofs_accepted_in_histories"] = nforged
    ctx.extra["history_dependent_verdicts_on_genuine_voteproofs(evidence, not a verdict)"] = depend


def _tlapm(ctx):
    d = os.path.join(ctx.work, "tlaps")
    os.makedirs(d)
    shutil.copy(os.path.join(core.SPEC, "Quorum.tla"), d)
    t = time.time()
    try:
        p = subprocess.run(["timeout", "600", "tlapm", "--threads", "8", "Quorum.tla"], cwd=d, stdout=subprocess.PIPE,
                           stderr=subprocess.STDOUT, text=True, timeout=700)
    except subprocess.TimeoutExpired:
        raise core.MachineryError("tlapm Quorum.tla timed out")
    out = p.stdout
    m = re.search(r"All (\d+) obligations? proved", out)
    tot = re.findall(r"(\d+)/(\d+) obligations? (?:proved|failed)", out)
    info = {"cmd": "tlapm --threads 8 Quorum.tla", "wall_s": round(time.time() - t, 1), "rc": p.returncode}
    if m:
        info["obligations"] = int(m.group(1))
        info["discharged"] = int(m.group(1))
    else:
        info["tail"] = out[-1500:]
        if tot:
            info["discharged"], info["obligations"] = int(tot[-1][0]), int(tot[-1][1])
    ctx.extra["tlaps_Quorum_Overlap"] = info
    ctx.tlc_cmds.append(info["cmd"])
    if not m:
        raise core.MachineryError("tlapm did not prove Quorum.tla:\n" + out[-2000:])


def run(ctx):
    quick = ctx.tier == "quick"
    cand_cfgs = ["Agreement_cands_n4.cfg", "Agreement_cands_n3.cfg",
                 "Agreement_orbits_n5.cfg", "Agreement_orbits_n6.cfg", "Agreement_orbits_n7.cfg"]
    model_cfgs = [("Agreement_agree_n4.cfg", False), ("Agreement_beyond_n4.cfg", True), ("Agreement_closed_n6.cfg", False)]
    if not quick:
        cand_cfgs = ["Agreement_cands_n5.cfg", "Agreement_cands_n4t80.cfg"] + cand_cfgs
        cand_cfgs += ["Agreement_orbits_n8.cfg", "Agreement_orbits_n9.cfg", "Agreement_orbits_n10.cfg",
                      "Agreement_orbits_n6t80.cfg", "Agreement_orbits_n7t80.cfg", "Agreement_orbits_n10t80.cfg"]
        model_cfgs = [("Agreement_agree_n3.cfg", False), ("Agreement_agree_n4.cfg", False), ("Agreement_agree_n5.cfg", False),
                      ("Agreement_agree_n5t80.cfg", False), ("Agreement_beyond_n4.cfg", True), ("Agreement_beyond_n5.cfg", True),
                      ("Agreement_closed_n6.cfg", False), ("Agreement_closed_n7.cfg", False), ("Agreement_closedbeyond_n7.cfg", True)]
    ctx.exhaustive = True
    ctx.rule = ("candidate voteproofs of a suffrage of n nodes (n=3,4 quick; 3,4,5 and t=80 thorough): every vote vector over {-,A,B}, "
                "every expelled set, 5 expel-signer families, plain/expel/stuck, claims A/B/DRAW, INIT and ACCEPT, 10 structural "
                "mutations on the accepted or one-vote-short ones; each built as a real signed voteproof and validated by the real code; "
                "non-trivial = at least one sign fact; distinct by the whole candidate. Pairs: every two really accepted candidates "
                "with different majorities and at most f common equivocators. Larger suffrages (n=5,6,7 quick; 8,9,10 and t=80 "
                "thorough) up to a renaming of the nodes: every profile (k expelled, a votes for the claimed fact, b for the other, "
                "family, stage) in the placement with the fewest common signers between an A- and a B-voteproof. Validation histories (n=5,6,7 quick; "
                "up to 10 thorough): per genuine base voteproof (k, a, stage) ten sequences of 2-3 validations by one process with the five "
                "signature transplants, genuine first and forged first")

    def dump(cfg):
        sub = _sub(ctx, "dump-" + cfg[:-4])
        out = sub.tlc_dump_steps("Agreement", cfg, timeout=3000, workers=8 if quick else "auto")
        for st in out[1]:
            st["table"] = cfg[len("Agreement_"):-4]
        return out, sub

    def model(item):
        cfg, allow = item
        sub = _sub(ctx, "mc-" + cfg[:-4])
        out = sub.tlc("Agreement", cfg, timeout=3000, workers=4, allow_violation=allow)
        return out, sub

    with ThreadPoolExecutor(max_workers=4) as ex:
        fd = [ex.submit(dump, c) for c in cand_cfgs]
        fm = [ex.submit(model, m) for m in model_cfgs]
        dumps = [f.result() for f in fd]
        models = [f.result() for f in fm]
    cands = []
    hists = []
    for (res, steps), sub in dumps:
        cands += [st for st in steps if "hist" not in st]
        hists += [st for st in steps if "hist" in st]
        ctx.states += sub.states
        ctx.transitions += sub.transitions
        ctx.tlc_cmds += sub.tlc_cmds
        shutil.rmtree(sub.work, ignore_errors=True)
    model_viol = {}
    for (cfg, allow), (res, sub) in zip(model_cfgs, models):
        ctx.states += sub.states
        ctx.transitions += sub.transitions
        ctx.tlc_cmds += sub.tlc_cmds
        shutil.rmtree(sub.work, ignore_errors=True)
        if allow:
            model_viol[cfg] = res
    ctx.extra["model_invariants_hold"] = ["%s: AgreePlainPlain AgreeExpelWithinF%s" % (c, "" if "closed" in c else " ClosedMatchesExplicit OrbitRepresents OrbitOverlapMinimal")
                                          for c, a in model_cfgs if not a]

    # ---- binding A: real verdicts
    cin = os.path.join(ctx.work, "cands.ndjson")
    cout = os.path.join(ctx.work, "verdicts.ndjson")
    core.write_ndjson(cin, [{k: c[k] for k in ("n", "t10", "votes", "ex", "signers", "kind", "claim", "mut", "stage")} for c in cands])
    ctx.vh(["C03", "replay", "--in", cin, "--out", cout], timeout=2400)
    rows = core.read_ndjson(cout)
    if len(rows) != len(cands):
        raise core.MachineryError("harness answered %d of %d candidates" % (len(rows), len(cands)))
    ctx.traces += len(cands)

    diverge = {}
    groups = {}
    forged_accepted = []
    for c, x in zip(cands, rows):
        ctx.case([c[k] for k in ("n", "t10", "votes", "ex", "fam", "kind", "claim", "mut", "stage")],
                 nontrivial=any(v != "-" for v in c["votes"]),
                 sample={"candidate": _desc(c), "model": c["why"], "real": {"IsValid": x["valid"], "WithSuffrage": x["suf"],
                                                                             "err": (x.get("verr") or x.get("serr") or "")[:100]}})
        if x.get("panic"):
            ctx.violation("panic(validator)", "validating %s panicked: %s" % (_desc(c), x["panic"][:300]), {"candidate": c, "real": x})
            continue
        if x["accepted"] != c["accepted"]:
            k = "%s|model:%s|real:%s" % (c["mut"], c["why"], "accepted" if x["accepted"] else (x.get("verr") or x.get("serr") or "")[:60])
            d = diverge.setdefault(k, {"count": 0, "example": _desc(c)})
            d["count"] += 1
        if x["accepted"] and c["claim"] in ("A", "B"):
            groups.setdefault((c["n"], c["t10"], c["stage"]), []).append(c)
        if x["accepted"] and c["mut"] in FORGED_LABEL:
            forged_accepted.append(c)

    # ---- agreement over the table of real verdicts
    pairs = 0
    conflicts = {}
    in_conflict = set()
    real_pairs = []     # (n, A-voters mask, B-voters mask) of conflicting real pairs, to concretise model counterexamples
    for (n, t10, stage), lst in sorted(groups.items()):
        f = (n * 1000 - n * t10) // 1000
        sig = {}
        for c in lst:
            a, b = _signed(c)
            k = sum(c["ex"])
            s = (c["claim"], a, b, "k>f" if k > f else ("k=0" if k == 0 else "k<=f"), c["mut"])
            sig.setdefault(s, c)
        la = [(s, c) for s, c in sig.items() if s[0] == "A"]
        lb = [(s, c) for s, c in sig.items() if s[0] == "B"]
        for (s1, c1) in la:
            for (s2, c2) in lb:
                pairs += 1
                eq = (s1[1] | s2[1]) & (s1[2] | s2[2])
                if bin(eq).count("1") > f:
                    continue
                muts = sorted({m for m in (s1[4], s2[4]) if m != "none"})
                if "k>f" in (s1[3], s2[3]) and not muts:
                    key = KNOWN
                elif muts:
                    key = "conflict;accepted-with(%s)" % "+".join(sorted({FORGED_LABEL.get(m, m) for m in muts}))
                    in_conflict.update(id(c) for c in (c1, c2))
                elif s1[3] == "k=0" and s2[3] == "k=0":
                    key = "conflict;plain+plain"
                else:
                    key = "conflict;expel(k<=f)"
                real_pairs.append((n, s1[1], s2[2]))
                ent = conflicts.setdefault((key, n, t10), {"count": 0, "c1": c1, "c2": c2, "eq": eq, "stage": stage})
                ent["count"] += 1
    for (key, n, t10), ent in sorted(conflicts.items(), key=lambda kv: (kv[0][0], kv[0][1])):
        f = (n * 1000 - n * t10) // 1000
        eqn = [i + 1 for i in range(n) if ent["eq"] >> i & 1]
        ctx.violation(key, "n=%d t=%.1f f=%d: both accepted by the real validators: [%s] and [%s]; nodes that signed both facts: %s "
                      "(%d such pairs in this class)" % (n, t10 / 10, f, _desc(ent["c1"]), _desc(ent["c2"]), eqn, ent["count"]),
                      {"n": n, "t10": t10, "c1": ent["c1"], "c2": ent["c2"], "equivocators": eqn})
    # a voteproof with a sign fact that is not its node's for its fact must never be accepted, conflicting or not (the candidates
    # of one table share their signatures and are validated by one process, in no particular order)
    for c in forged_accepted:
        if id(c) in in_conflict:
            continue
        ctx.violation("accepted-with(%s)" % FORGED_LABEL[c["mut"]],
                      "n=%d t=%.1f: accepted by the real validators although its signatures were not made for it: [%s]" % (c["n"], c["t10"] / 10, _desc(c)),
                      {"candidate": c})
    _histories(ctx, hists)
    ctx.extra["candidates_by_table"] = {}
    for c in cands:
        ctx.extra["candidates_by_table"][c["table"]] = ctx.extra["candidates_by_table"].get(c["table"], 0) + 1
    ctx.extra["real_accepted_majority_candidates"] = sum(len(v) for v in groups.values())
    ctx.extra["pairs_examined(after merging equal signer sets)"] = pairs
    ctx.extra["conflicting_real_pairs_by_class"] = {"%s n=%d t10=%d" % k: v["count"] for k, v in conflicts.items()}

    # ---- model counterexamples (AgreeExpelBeyondF): concretise by lookup in the real table
    for cfg, res in model_viol.items():
        if not res.safety_violation:
            ctx.extra.setdefault("model_expected_violation_absent", []).append(cfg)
            continue
        m = re.search(r"sg = <<(.*?)>>", res.out, re.S)
        n = int(re.search(r"_n(\d)", cfg).group(1))
        sgtxt = m.group(1) if m else ""
        sets = re.findall(r"\{([^}]*)\}", sgtxt)
        sa = sum(1 << i for i, s in enumerate(sets) if '"A"' in s)
        sb = sum(1 << i for i, s in enumerate(sets) if '"B"' in s)
        hit = any(pn == n and (a | sa) == sa and (b | sb) == sb for (pn, a, b) in real_pairs)
        rec = {"cfg": cfg, "signed": "<<%s>>" % " ".join(sgtxt.split())}
        pc = lambda x: bin(x).count("1")
        # up to a renaming of the nodes (orbit tables): an injection of the real pair's voters into the model's signers exists
        # iff the four cardinalities fit
        renamed = any(pn == n and pc(a) <= pc(sa) and pc(b) <= pc(sb) and pc(a & b) <= pc(sa & sb) and pc(a | b) <= pc(sa | sb)
                      for (pn, a, b) in real_pairs)
        if hit:
            ctx.extra.setdefault("model_counterexamples_reproduced_on_real_validators", []).append(rec)
        elif renamed:
            ctx.extra.setdefault("model_counterexamples_reproduced_on_real_validators(up to a renaming of the nodes)", []).append(rec)
        elif n <= (4 if quick else 5):
            ctx.extra.setdefault("model_only_counterexamples", []).append(rec)
        else:
            ctx.extra.setdefault("model_counterexamples_beyond_replayed_sizes", []).append(rec)

    ctx.extra["Accepted_vs_real_validators_differences(evidence, not a verdict)"] = diverge
    if not quick:
        _tlapm(ctx)
    ctx.assumptions = [
        "candidates carry the network threshold t (the validators use the threshold embedded in the voteproof; rejecting a lower one is "
        "done elsewhere - Ballotbox - and is not part of these two validators)",
        "validator state is explored along histories of 2-3 validations in one process (genuine then forged, forged then genuine, the same "
        "voteproof twice); histories are separated from one another by their own stage points, facts and signatures",
        "one family of expel signers per candidate (all others / the live nodes / exactly the demanded number / one short / only the target)",
        "equivocators are counted among ballot sign facts only; expel operations may be signed by any suffrage node (statement)",
        "every candidate against the real code for n<=4 (quick) / n<=5 (thorough); n=5..7 (quick) / 5..10 (thorough) against the real code up to "
        "a renaming of the nodes (the validators are assumed not to depend on which node is which beyond what n<=4/5 shows; node addresses "
        "are random per run); n<=7 in the cardinality form (model only); all n for plain voteproofs by the TLAPS proof (thorough)",
    ]
