"""C13 - suffrage proofs bind the suffrage state to the signed block. Spec: SuffrageChain.tla.

1. TLC checks on the ideal-hash model that the forgery catalogue is sound (the untouched
   proof satisfies the statement, every forgery breaks it) and that the transcription of
   IsValid+Prove (variant "fixed") accepts exactly the proofs the statement allows; the
   "pinned" variant is expected to accept root forgeries and to panic on a nil previous
   state (candidates).
2. Binding A: every terminal state (chain, position, tree shape, forgery, demanded verdict)
   is rebuilt from real objects and handed to the real isaacblock.SuffrageProof.IsValid /
   Prove; verdict from the real run only.
"""
import os
import re
from vlib import core



def final_coverage_zero(r):
    """actions with count 0 in the *final* coverage report only: with -coverage 1 TLC also prints interim
    reports every minute, in which actions the breadth-first search has not reached yet show 0:0."""
    mark = "The coverage statistics at"
    at = r.out.rfind(mark)
    if at < 0:
        raise core.MachineryError("no coverage report in the TLC output")
    z = []
    for m in re.finditer(r"^<(\w+) line .*?>: (\d+):(\d+)$", r.out[at:], re.M):
        if int(m.group(2)) == 0 and int(m.group(3)) == 0:
            z.append(m.group(1))
    taken = {m.group(1) for m in re.finditer(r"^<(\w+) line .*?>: (\d+):(\d+)$", r.out[at:], re.M)
             if int(m.group(2)) > 0 or int(m.group(3)) > 0}
    return [a for a in z if a not in taken]      # an action split into several disjuncts counts as taken if one is


def run(ctx):
    quick = ctx.tier == "quick"
    cfg = "SuffrageChain_mc_quick.cfg" if quick else "SuffrageChain_mc_thorough.cfg"
    r = ctx.tlc("SuffrageChain", cfg, args=[] if quick else ["-coverage", "1"], timeout=1500)
    ctx.extra["mc_fixed"] = {"cfg": cfg, "distinct": r.distinct, "generated": r.generated, "wall_s": round(r.wall, 1)}
    if not quick:
        zero = [z for z in final_coverage_zero(r) if z[0].isupper() and z not in ("TypeOK",)]
        acts = {"Keep", "ForeignTree", "ExtendedTree", "ReRootCut", "PathTamper", "ForkState", "ForgedStateOwnTree",
                "PrevGap", "PrevFork", "PrevStale", "PrevFuture", "PrevNil", "PrevAtGenesis", "MapFork",
                "MapBadSignature", "SwapState", "MapOtherHeight", "Verify", "Forge"}
        zero = [z for z in zero if z in acts]
        ctx.extra["coverage_zero_actions"] = zero
        if zero:
            raise core.MachineryError("actions never taken in %s: %s" % (cfg, zero))
    rp = ctx.tlc("SuffrageChain", "SuffrageChain_mc_pinned.cfg", timeout=600, allow_violation=True)
    ctx.extra["mc_pinned"] = {"violated": rp.violated}

    ccfg = "SuffrageChain_cases_quick.cfg" if quick else "SuffrageChain_cases_thorough.cfg"
    rr, steps = ctx.tlc_dump_steps("SuffrageChain", ccfg, timeout=1500, workers=4)
    ctx.extra["cases_cfg"] = {"cfg": ccfg, "distinct": rr.distinct, "terminal": len(steps), "wall_s": round(rr.wall, 1)}
    steps.sort(key=lambda s: (s["k"], s["i"], s["tsize"], s["tpos"], s["forged"]["kind"], s["forged"]["j"]))
    rows = [{"idx": n, "k": s["k"], "i": s["i"], "gap": s["gap"], "tsize": s["tsize"], "tpos": s["tpos"],
             "forged": s["forged"]} for n, s in enumerate(steps)]
    inp = os.path.join(ctx.work, "cases.ndjson")
    out = os.path.join(ctx.work, "res.ndjson")
    core.write_ndjson(inp, rows)
    ctx.vh(["C13", "replay", "--in", inp, "--out", out], timeout=1500)
    res = core.read_ndjson(out)
    if len(res) != len(rows):
        raise core.MachineryError("harness answered %d of %d cases" % (len(res), len(rows)))

    ctx.exhaustive = True
    ctx.rule = ("every terminal state (chain length k, position i, tree size/position, forgery) of %s; one real "
                "SuffrageProof.IsValid+Prove per case; non-trivial = a forgery was applied or k > 0" % ccfg)
    follow = {"pinned": 0, "fixed": 0, "neither": 0}
    cands = repro = 0
    model_only, unusable = [], 0
    for s, row in zip(steps, res):
        f = s["forged"]
        if row.get("unusable"):
            unusable += 1
            continue
        # the forgery built from real parts must be the one the model describes
        mp, pr = s["proof"]["path"], s["proof"]
        model_path_ok = mp["intact"] and mp["key"] == pr["st"]["id"]
        model_root_ok = mp["root"] == pr["map"]["root"]
        if row["path_proves_state"] and not model_path_ok:
            # the harness altered the path (or took the path of another key) and the REAL fixedtree.Proof.Prove(key) - the
            # mechanism that binds the state to the tree root - still says the path proves the state: an observation on the
            # code under test, not a disagreement about what was built (seeded change C13e; before, this ended as exit 2)
            ctx.violation("tampered-path-proves-state(%s)" % f["kind"],
                          "SuffrageProof{block height %d, suffrage height %d, states tree of %d with the state at %d}, forgery %s%s: "
                          "the altered proof path is accepted by Proof.Prove as proving the state (verdict of IsValid+Prove: %s)" % (
                              s["i"] * s["gap"], s["i"], s["tsize"], s["tpos"], f["kind"],
                              "(j=%d)" % f["j"] if f["j"] >= 0 else "", row["verdict"]),
                          {"case": rows[row["idx"]], "model": s, "real": row})
            ctx.case([s["k"], s["i"], s["tsize"], s["tpos"], f["kind"], f["j"]], nontrivial=True,
                     sample={"case": rows[row["idx"]], "want": s["want"], "real": row["verdict"]})
            ctx.traces += 1
            continue
        if row["path_proves_state"] != model_path_ok or (model_path_ok and row["path_root_is_states_tree"] != model_root_ok):
            raise core.MachineryError("real forgery differs from the model's: %s real=%s" % (rows[row["idx"]], row))
        ctx.case([s["k"], s["i"], s["tsize"], s["tpos"], f["kind"], f["j"]], nontrivial=f["kind"] != "none" or s["k"] > 0,
                 sample={"case": rows[row["idx"]], "want": s["want"], "real": row["verdict"]})
        ctx.traces += 1
        key = None
        if row["verdict"] == "panic":
            key = "panic(%s)" % f["kind"]
        elif row["verdict"] == "accept" and s["want"] == "reject":
            if f["kind"] in ("foreign-tree", "extended-tree", "reroot-cut", "forged-state-own-tree", "map-fork"):
                key = "root-not-compared"        # only the comparison of the path's root with the manifest tells
            else:
                key = "forged-accepted(%s)" % f["kind"]
        elif row["verdict"] == "reject" and s["want"] == "accept":
            key = "valid-proof-rejected"
        if key:
            what = ("SuffrageProof{block height %d, suffrage height %d, states tree of %d with the state at %d}, "
                    "forgery %s%s: IsValid+Prove -> %s, statement demands %s%s" % (
                        s["i"] * s["gap"], s["i"], s["tsize"], s["tpos"], f["kind"],
                        "(j=%d)" % f["j"] if f["j"] >= 0 else "", row["verdict"], s["want"],
                        "; path proves the state but its root is not manifest.StatesTree()"
                        if row["path_proves_state"] and not row["path_root_is_states_tree"] else ""))
            ctx.violation(key, what, {"case": rows[row["idx"]], "model": s, "real": row})
        m = [v for v, p in s["impl"].items() if p == row["verdict"]]
        if len(m) == 2:
            follow["pinned"] += 1
            follow["fixed"] += 1
        elif m:
            follow[m[0]] += 1
        else:
            follow["neither"] += 1
        if s["impl"].get("pinned") != s["want"]:
            cands += 1
            if key:
                repro += 1
            elif len(model_only) < 5:
                model_only.append(rows[row["idx"]])
    ctx.extra["real_calls"] = len(rows)
    ctx.extra["forgery_not_buildable_for_shape"] = unusable
    ctx.extra["code_follows_transcription"] = follow
    ctx.extra["pinned_model_candidates"] = {"total": cands, "reproduced_on_real_code": repro}
    ctx.extra["model_only_counterexamples"] = model_only
    ctx.assumptions = [
        "ideal hashes in the model; real SHA-256 / real keys in the replay",
        "one forgery per proof; tree shapes limited to the configured sizes/positions",
        "thorough tier does not (yet) take proofs out of blocks written by the full pipeline",
    ]
