"""ISAAC - the composed consensus specification (spec/ISAAC.tla) and its binding to the real code.

Not one of the numbered properties: ISAAC.tla composes C01-C04, C06, C08, C10, C11, C38 into the
node-and-network model (DESIGN.md 3). This check
  1. model-checks ISAAC.tla exhaustively on a small instance (quick) / the larger instances (thorough);
  2. runs an in-process network of REAL isaacstates.States instances (harness/internal/isaacnet:
     real Ballotbox, LastVoteproofsHandler, DefaultBallotBroadcaster over TempPool, ProposalProcessors
     + DefaultProposalProcessor, ProposalMaker + BaseProposalSelector, Syncer; really signed ballots)
     in five seeded scenarios - (a) all honest and connected, (b) one node cut off and healed (goes
     through SYNCING), (c) delayed ballots + unreachable proposers (draws, next rounds), (d) one
     Byzantine equivocating member, (e) one honest node whose block production diverges at two heights
     (must not save its block: C11), (x) members cut off for good and voted out by the others (real
     SuffrageVoting, ballot stuck resolver, expel voteproofs, suffrage-confirm ballots, reduced suffrage)
     - and validates every recorded execution with spec/ISAACTrace.tla:
     ISAAC's invariants on every state of the trace plus the guard of the ISAAC action each logged
     step stands for.
Verdict keys: ISAAC:<invariant or guard>. Liveness (no progress inside the time budget) is never a
verdict: it is reported in the evidence; only when no run at all progressed the machinery failed.
See check/isaac.md."""
import json
import os
import re
import shutil

from vlib import core

# guards of ISAACTrace.tla whose failure is a safety verdict (all of them are facts about the order of
# steps the real code made visible that hold under every schedule - see check/isaac.md)
HARD = {
    "Vote-unsent", "Vote-twice", "Count-tally", "Learn-known", "Handled-seen",
    "Processed-prev", "Blk-function", "Processed-agreed",
    "Save-height", "Save-agreed", "Save-processed",
    "Sync-height", "Sync-linked", "Sync-agreed",
    "INIT-prev", "INIT-prop", "ACCEPT-processed",
    "SC-after-expel-vp", "Stuck-draw",
}
# soft classes: counted and sampled in the evidence, never a verdict (see check/isaac.md)
#   Box-new     6 mismatches in 12 607 events of the thorough run of 2026-09-22: not promoted
#   Handle-new  sound form (new, or already at the voteproof's point); soft until a thorough run is clean
INVARIANTS = ["NoHonestEquivocation", "VoteproofAgreement", "ChainAgreement", "SavedOnlyAgreed", "ChainLinked",
              "OneProposalPerPoint", "OneProposalPerMaker", "LastMonotone"]


class Conv:
    """raw event log (small ids) -> events in ISAAC.tla's values"""

    def __init__(self, head):
        self.head = head
        self.prop = {}
        self.pcount = {}
        self.blk = {"m0": [0]}
        self.used = {json.dumps([0]): "m0"}
        self.nunknown = 0
        self.notes = []

    def propobj(self, pid, h=None, r=None):
        if pid not in self.prop:
            # a proposal nobody's ProposalMaker made (never logged): its own variant
            self.nunknown += 1
            self.prop[pid] = [h if h is not None else -1, r if r is not None else 0, 900 + self.nunknown]
            self.notes.append("unknown proposal %s" % pid)
        return self.prop[pid]

    def newprop(self, e):
        k = (e["h"], e["r"])
        v = self.pcount.get(k, 0)
        self.pcount[k] = v + 1
        self.prop[e["id"]] = [e["h"], e["r"], v]
        return v

    def block(self, bid):
        if bid not in self.blk:
            # a block hash no honest node computed (Byzantine made-up block, not-processed fact)
            self.nunknown += 1
            self.blk[bid] = [-1, 0, self.nunknown, [-1]]
        return self.blk[bid]

    def processed(self, e):
        bid = e["blk"]
        p = self.propobj(e["prop"], e["h"], e["r"])
        prev = self.block(e["prev"])
        if bid not in self.blk:
            t = [p[0], p[1], p[2], prev]
            k = json.dumps(t)
            if e.get("div") or (k in self.used and self.used[k] != bid):
                # a second manifest for the same (proposal, previous block): C10 broken (or the injected
                # divergence of scenario e); keep them apart
                self.nunknown += 1
                t = [p[0], p[1], 1000 + self.nunknown, prev]
                k = json.dumps(t)
            self.used[k] = bid
            self.blk[bid] = t
        return p, self.blk[bid], prev

    def fact(self, e):
        kind = e.get("kind")
        if kind is None:
            return []
        fx = [sorted(e["fx"])] if e.get("fx") else []      # the members the fact's expel facts name
        if kind in ("init", "init+expels", "sc"):
            return [self.block(e["prev"]), self.propobj(e["prop"], e["h"], e["r"])] + fx
        if kind in ("accept", "notprocessed", "emptyoperations"):
            return [self.propobj(e["prop"], e["h"], e["r"]), self.block(e["blk"])] + fx
        raise core.MachineryError("fact kind %r is outside ISAAC.tla (no expels / suffrage confirm in this network): %r" % (kind, e))

    @staticmethod
    def stage(e):
        return "SC" if e.get("kind") == "sc" else e["s"]

    def convert(self, evs):
        out = []
        for e in evs:
            a = e["a"]
            o = {"a": a}
            if "n" in e:
                o["n"] = e["n"]
            if "last" in e:
                o["last"] = e["last"]
            if a == "Prop":
                o.update(by=e.get("by", "?"), h=e["h"], r=e["r"], v=self.newprop(e), prev=self.block(e["prev"]))
                o.pop("last", None)
            elif a == "Bcast":
                o.update(h=e["h"], r=e["r"], s=self.stage(e), f=self.fact(e))
                if e.get("kind") in ("notprocessed", "emptyoperations"):
                    o["np"] = True
            elif a == "Vote":
                o.update(h=e["h"], r=e["r"], s=self.stage(e), f=self.fact(e))
                o["from"] = e.get("from", "?")
                if e.get("kind") in ("notprocessed", "emptyoperations"):
                    o["np"] = True
            elif a in ("BoxVP", "Voteproof", "StuckVP"):
                if e.get("vpkind") not in (None, "expel", "stuck"):
                    raise core.MachineryError("voteproof kind %r is outside ISAAC.tla: %r" % (e["vpkind"], e))
                o.update(h=e["h"], r=e["r"], s=self.stage(e), res=e["res"], f=self.fact(e))
                if "nsuf" in e:
                    o["nsuf"] = e["nsuf"]
                if e.get("ex"):
                    o["ex"] = sorted(e["ex"])
                if e.get("vpkind") or e.get("kind") == "sc":
                    o["xp"] = True
                if a == "BoxVP":
                    o["src"] = e["src"]
            elif a == "Processed":
                p, b, prev = self.processed(e)
                o.update(h=e["h"], r=e["r"], prop=p, blk=b, prev=prev)
                if e.get("div"):
                    o["div"] = True
            elif a in ("Saved", "Synced"):
                o.update(h=e["h"], blk=self.block(e["blk"]))
            elif a == "Switched":
                o["state"] = e["state"]
            elif a == "SyncerNew":
                pass
            else:
                o["a"] = "Obs"
            out.append(o)
        return out


def tla_set(xs):
    return "{" + ", ".join('"%s"' % x for x in xs) + "}"


def validate_run(ctx, k, path):
    raw = core.read_ndjson(path)
    head, evs = raw[0], raw[1:]
    conv = Conv(head)
    tevs = conv.convert(evs)
    if not tevs:
        raise core.MachineryError("run %s recorded no events" % path)
    trace = os.path.join(ctx.work, "trace%03d.ndjson" % k)
    core.write_ndjson(trace, tevs)
    d = ctx._stage_spec()
    cfg = open(os.path.join(d, "ISAACTrace.cfg")).read()
    cfg = re.sub(r"Node = \{[^}]*\}", "Node = " + tla_set(head["nodes"]), cfg)
    cfg = re.sub(r"Byz = \{[^}]*\}", "Byz = " + tla_set(head.get("byznodes") or []), cfg)
    cfg = re.sub(r"T10 = \d+", "T10 = %d" % head["t10"], cfg)
    cfgname = "ISAACTrace_run%03d.cfg" % k
    open(os.path.join(d, cfgname), "w").write(cfg)
    ok, res, hw = ctx.tlc_validate_trace("ISAACTrace", cfgname, trace, timeout=900)
    return head, evs, tevs, conv, ok, res, hw


def judge(ctx, k, path, head, evs, tevs, ok, res, hw):
    """verdicts of one validated run"""
    c = head["config"]
    what = "scenario %s seed %s n=%s byz=%s" % (c["scenario"], c["seed"], c["n"], head.get("byznodes") or [])
    n, f = len(head["nodes"]), 0
    f = (n * 1000 - n * head["t10"]) // 1000
    nbyz = len(head.get("byznodes") or [])

    def keep():
        rd = os.path.join(core.VERIF, "replays", ctx.id)
        os.makedirs(rd, exist_ok=True)
        dst = os.path.join(rd, "%s-run-%s-%s.ndjson" % (ctx.tier, c["scenario"], c["seed"]))
        shutil.copy(path, dst)
        return dst

    seen = set()
    for (cls, line, _) in res.mismatches():
        ev = tevs[line - 1] if 0 < line <= len(tevs) else None
        rawev = evs[line - 1] if 0 < line <= len(evs) else None
        if cls not in HARD:
            ctx.extra.setdefault("soft_mismatches", {})
            if (cls, line) not in seen:
                seen.add((cls, line))
                ctx.extra["soft_mismatches"][cls] = ctx.extra["soft_mismatches"].get(cls, 0) + 1
                smp = ctx.extra.setdefault("soft_mismatch_samples", [])
                if len(smp) < 12 and rawev:
                    prev = [e for e in evs[max(0, line - 40):line - 1] if e.get("n") == rawev.get("n") and e["a"] in ("BoxVP", "Voteproof", "Switched", "Synced", "Saved")][-3:]
                    smp.append({"class": cls, "run": what, "line": line, "event": rawev, "before": prev})
            continue
        if cls in seen:
            continue
        seen.add(cls)
        if nbyz > f:
            continue
        ctx.violation(cls, "%s: event %d %s is not a step of ISAAC.tla (guard %s)" % (what, line, json.dumps(rawev)[:300], cls),
                      {"run": what, "events": keep(), "line": line, "event": rawev, "tla_event": ev, "guard": cls})
    # C04 expel-vp;tally(t,n)!=tally(100,n-k) seen in a real run: a box counted an expel voteproof MAJORITY with
    # fewer votes than the n-k members the validators' recount demands
    for i, e in enumerate(evs):
        if e["a"] == "BoxVP" and e.get("src") == "count" and e.get("ex") and e.get("res") == "MAJORITY" \
                and len(e.get("voters", [])) < e.get("nsuf", n) - len(e["ex"]):
            ctx.violation("expel-vp;tally(t,n)!=tally(100,n-k)", "%s: event %d %s" % (what, i + 1, json.dumps(e)[:300]),
                          {"run": what, "events": keep(), "line": i + 1, "event": e})
            break
    maxk = max([len(e.get("ex") or []) for e in evs if e["a"] in ("BoxVP", "StuckVP")] + [0])
    if res.violated and res.violated not in ("<postcondition>",):
        inv = res.violated
        if inv in ("VoteproofAgreement", "ChainAgreement") and maxk > f and nbyz <= f:
            # the known design finding of C03 in its composed form: more than f members expelled
            m = re.findall(r"^/\\ l = (\d+)", res.out, re.M)
            line = int(m[-1]) - 1 if m else None
            ctx.violation("expel-voteproof;k>f", "%s: %s does not hold after event %s; a voteproof expels %d > f = %d members" % (
                what, inv, line, maxk, f), {"run": what, "events": keep(), "line": line, "invariant": inv})
        elif nbyz <= f:
            # the state index TLC stopped at = number of consumed events
            m = re.findall(r"^/\\ l = (\d+)", res.out, re.M)
            line = int(m[-1]) - 1 if m else None
            ctx.violation(inv, "%s: %s of ISAAC.tla does not hold after event %s %s" % (
                what, inv, line, json.dumps(evs[line - 1])[:300] if line and 0 < line <= len(evs) else ""),
                {"run": what, "events": keep(), "line": line, "invariant": inv, "tlc_tail": res.out[-3000:]})
    elif not ok:
        raise core.MachineryError("trace of %s not consumed: first unexplained event %s: %s\n%s" % (
            what, hw, json.dumps(evs[hw - 1]) if hw and 0 < hw <= len(evs) else "?", res.out[-2500:]))


def run(ctx):
    ctx.level = "model_checking"
    # 1. the specification itself
    def sim(cfg, num, depth, key):
        r = ctx.tlc("ISAAC", cfg, args=["-simulate", "num=%d" % num, "-depth", depth, "-seed", ctx.seed],
                    workers=8, timeout=1500, count=False)
        m = re.findall(r"The number of states generated: (\d+)", r.out) or re.findall(r"(\d+) states checked", r.out)
        t = re.findall(r"(\d+) traces generated", r.out)
        ctx.extra[key] = {"states_checked": int(m[-1]) if m else 0, "behaviours": int(t[-1]) if t else 0}
        if m:
            ctx.states += int(m[-1])
            ctx.transitions += int(m[-1])

    if ctx.tier == "quick":
        ctx.tlc("ISAAC", "ISAAC_mc_small.cfg", timeout=400)          # 2 nodes, 1 height, round 0: exhaustive
        sim("ISAAC_sim3.cfg", 150, 70, "ISAAC_sim3_simulation")       # 3 nodes, 2 heights, rounds 0..1: random behaviours
    else:
        ctx.tlc("ISAAC", "ISAAC_mc_small.cfg", timeout=400)
        ctx.tlc("ISAAC", "ISAAC_mc_quick.cfg", timeout=2400)          # 2 nodes, 2 heights: ~405 k states
        ctx.tlc("ISAAC", "ISAAC_mc_rounds.cfg", timeout=3000)         # 2 nodes, rounds 0..1: ~834 k states
        ctx.tlc("ISAAC", "ISAAC_live.cfg", workers=4, timeout=1200)    # liveness under fairness (timely proposals)
        sim("ISAAC_sim3.cfg", 3000, 80, "ISAAC_sim3_simulation")
        # 4 nodes with one Byzantine member: the exhaustive run does not finish, so random behaviours
        sim("ISAAC_mc_byz.cfg", 3000, 60, "ISAAC_mc_byz_simulation")

    # 1b. expels and suffrage confirm: ISAACExpel.tla
    def simx(cfg, num, depth, key):
        r = ctx.tlc("ISAACExpel", cfg, args=["-simulate", "num=%d" % num, "-depth", depth, "-seed", ctx.seed],
                    workers=6, timeout=1500, count=False)
        m = re.findall(r"The number of states generated: (\d+)", r.out) or re.findall(r"(\d+) states checked", r.out)
        ctx.extra[key] = {"states_checked": int(m[-1]) if m else 0}
        if m:
            ctx.states += int(m[-1])
            ctx.transitions += int(m[-1])

    ctx.tlc("ISAACExpel", "ISAACExpel_mc_small.cfg", timeout=600)          # 2 nodes, round 0: exhaustive, must hold
    # the candidate properties are EXPECTED to fail: the model shows the recorded defects of the code (C03, C04).
    # A candidate that holds means the model lost the defect (or the code was repaired and the model followed).
    expected = {"ISAACExpel_c03.cfg": "ChainAgreementAnyExpel",
                "ISAACExpel_c04.cfg": "EmittedRecountAccepted",
                "ISAACExpel_c04b.cfg": "EmittedExpelsMatchFact",
                "ISAACExpel_c04c.cfg": "EmittedExpelsSigned"}
    if ctx.tier == "quick":
        expected = {"ISAACExpel_c03.cfg": "ChainAgreementAnyExpel"}
    cands = {}
    for cfg, inv in expected.items():
        r = ctx.tlc("ISAACExpel", cfg, timeout=900, allow_violation=True)
        cands[inv] = "violated as expected (%d distinct states)" % r.distinct if r.violated == inv else "NOT violated: %s" % r.violated
        if r.violated != inv:
            ctx.extra.setdefault("model_lost_known_defect", []).append(inv)
    ctx.extra["expected_to_fail_candidates"] = cands
    if ctx.tier != "quick":
        simx("ISAACExpel_sim4.cfg", 2000, 70, "ISAACExpel_sim4_simulation")  # 4 nodes, one down, rounds 0..1
        simx("ISAACExpel_mc_rounds.cfg", 3000, 80, "ISAACExpel_rounds_simulation")  # exhaustive: 3 644 208 states, 16 min

    # 2. real executions
    seed = ctx.seed
    if ctx.tier == "quick":
        runs = [("a", seed), ("b", seed), ("c", seed), ("d", seed), ("e", seed), ("x", seed)]
        par = 6
    else:
        runs = []
        for j in range(6):
            runs += [(sc, seed * 100 + j) for sc in "abcdex"]
        par = 6
    outdir = os.path.join(ctx.work, "runs")
    p = ctx.vh(["ISAAC", "batch", "--runs", ",".join("%s:%d" % r for r in runs), "--par", par, "--outdir", outdir],
               timeout=120 + 25 * len(runs))
    files = sorted(f for f in os.listdir(outdir) if f.endswith(".ndjson"))
    if len(files) != len(runs):
        raise core.MachineryError("expected %d run files, got %d\n%s" % (len(runs), len(files), p.stderr[-2000:]))

    ctx.rule = ("one case = one recorded execution of the in-process network (scenario, seed, number of nodes, Byzantine "
                "members); non-trivial = at least one block saved by every honest node; distinct by (scenario, seed, n, byz)")
    progressed, stalled, summaries = 0, [], []
    nevents = 0
    for k, f in enumerate(files):
        path = os.path.join(outdir, f)
        head, evs, tevs, conv, ok, res, hw = validate_run(ctx, k, path)
        c = head["config"]
        heights = head["heights"]
        maxh = max(heights.values()) if heights else 0
        minh = min(heights.values()) if heights else 0
        nevents += len(tevs)
        states = {n: sorted(v) for n, v in head["states"].items()}
        summ = {"scenario": c["scenario"], "seed": c["seed"], "n": c["n"], "byz": head.get("byznodes") or [],
                "heights": heights, "reached_target": head["reached"], "events": len(tevs), "faults": head.get("faults"),
                "syncing": sorted(n for n, v in states.items() if "SYNCING" in v),
                "broken": sorted(n for n, v in states.items() if "BROKEN" in v),
                "draws": sum(1 for e in evs if e["a"] == "BoxVP" and e["res"] == "DRAW" and e["src"] == "count"),
                "learned": sum(1 for e in evs if e["a"] == "BoxVP" and e["src"] == "ballot"),
                "byz_ballots": head.get("byzsent", 0), "tlc_states": res.distinct, "accepted": ok,
                "cut": head.get("cut") or [],
                "expel_voteproofs": sum(1 for e in evs if e["a"] == "BoxVP" and e.get("vpkind") == "expel" and e["src"] == "count"),
                "stuck_voteproofs": sum(1 for e in evs if e["a"] == "StuckVP"),
                "suffrage_confirm_ballots": sum(1 for e in evs if e["a"] == "Bcast" and e.get("kind") == "sc"),
                "saved_with_expels": sum(1 for e in evs if e["a"] == "Saved" and e.get("ex"))}
        summaries.append(summ)
        if maxh >= 2:
            progressed += 1
        if not head["reached"]:
            stalled.append("%s:%s heights=%s" % (c["scenario"], c["seed"], heights))
        ctx.case([c["scenario"], c["seed"], c["n"], head.get("byznodes")], nontrivial=minh >= 1,
                 sample={"scenario": c["scenario"], "seed": c["seed"], "n": c["n"], "byz": head.get("byznodes"),
                         "heights": heights, "events": len(tevs)})
        ctx.traces += 1
        judge(ctx, k, path, head, evs, tevs, ok, res, hw)
        if conv.notes:
            ctx.extra.setdefault("conversion_notes", []).extend(conv.notes[:5])

    ctx.extra["runs"] = summaries
    ctx.extra["events_validated"] = nevents
    ctx.extra["runs_progressed"] = progressed
    ctx.extra["liveness_not_reached_target"] = stalled
    ctx.extra["runs_through_syncing"] = sum(1 for s in summaries if s["syncing"])
    ctx.extra["runs_with_draws"] = sum(1 for s in summaries if s["draws"])
    ctx.extra["runs_with_expel_saved"] = sum(1 for s in summaries if s["saved_with_expels"])
    ctx.exhaustive = False
    ctx.assumptions = [
        "scenarios a-e: fixed suffrage, no ballot stuck resolver; scenario x: real SuffrageVoting + ballot stuck resolver, "
        "expels, suffrage confirm, next blocks with the reduced suffrage; never: handover, mimic ballots",
        "the block writer below the real DefaultProposalProcessor is a stub (manifest = function of proposal, previous "
        "manifest, height); transport (ballots, proposal requests, block maps) is in-process",
        "timing parameters are milliseconds instead of seconds; on a loaded machine more rounds draw (liveness only)",
    ]
    if progressed == 0:
        raise core.MachineryError("no run made progress (max height < 2 in all %d runs): %s" % (len(runs), stalled))
