"""C06 - consensus progress is monotonic.
Specs: LastPoint.tla (transcription of isaac/lastpoint.go + the statement), LastPointRel.tla (the
statement evaluated by TLC on relations recorded from the real code), LastVoteproofs.tla (the
last-voteproofs store).

 1. binding A, table: every (last, cand) state of LastPoint.tla is replayed into the real
    LastPoint.Before / IsNewBallot / IsNewVoteproofbyPoint / IsNewVoteproof / LastVoteproofsHandler.IsNew;
    TLC (LastPointRel!SpecTab) checks "lower heights are always rejected" on the real answers and prints
    differences to the transcription (evidence, not a verdict).
 2. binding B, relation: every (last, cand) pair offered to a fresh real Ballotbox (SetLastPoint and
    SetLastPointFromVoteproof), every (ivp, avp, cand) triple offered to a real LastVoteproofsHandler.Set;
    TLC checks the statement on every accepted update (SpecBox), on all paths up to 6 updates (SpecWalk)
    and on the whole graph of the handler reachable from the empty handler (SpecHdl, position = Cap()).
 2b. binding B, the moves the box makes ITSELF (LastPointVote.tla / LastPointVoteTrace.tla): a real Ballotbox is
    driven with really signed ballots (INIT / suffrage-confirm / ACCEPT, embedded voteproofs, expels) through
    Vote / Count / SetLastPoint - every start position x every ballot x every embedded voteproof, every record
    voted to a decision from every start position, seeded consensus-like flows with late ballots - and
    LastPoint() is read before and after every call; TLC replays the recording through the model's actions,
    evaluates the statement on every REAL move (verdict) and compares the model's own answer (evidence).
    LastPointVote.tla itself is model-checked against the statement; with the Before() re-check of
    countVoterecords removed (Guard = "filter") TLC must find a counterexample (the check is not vacuous).
 3. binding A, sequences: -simulate walks of LastPoint.tla / LastVoteproofs.tla replayed into ONE
    long-lived real Ballotbox / LastVoteproofsHandler; the statement is evaluated on the real position
    sequence, differences to the model are evidence.
A failing handler edge is reported only after the Set-only history that reaches it has been replayed
into one real long-lived handler and showed the same cap positions."""
import json
import os
import re
import shutil
import time
from concurrent.futures import ThreadPoolExecutor
from vlib import core

ZERO = {"h": -1, "r": 0, "s": 0, "m": 0, "c": 0}
# the statement is read as in DESIGN.md 4 C06: a step back must END on a suffrage-confirm result
# (strong reading). Under the weaker reading ("a step back happens only on the occasion of taking a
# suffrage-confirm voteproof while the position is not a majority") the known handler finding is no
# violation; that reading is checked by TLC on the model (CapBackOnlyWhenTakingSC) and reported.
KNOWN_HANDLER_CLASS = "handler:sc-stepback;cap->older-accept"


def pk(p):
    return (p["h"], p["r"], p["s"], p["m"], p["c"])


def pstr(p):
    if p["s"] == 0:
        return "zero"
    return "(h%d,r%d,%s,%s%s)" % (p["h"], p["r"], "INIT" if p["s"] == 1 else "ACCEPT",
                                  "majority" if p["m"] else "not-majority", ",suffrage-confirm" if p["c"] else "")


def is_zero(p):
    return p["s"] == 0


def earlier(a, b):
    return (a["r"], a["s"]) < (b["r"], b["s"])


def step_classes(l, n):
    """classes of the statement a real update l -> n breaks (mirror of LastPoint!StepOK, used to judge
    replayed sequences; the exhaustive verdicts are TLC's)"""
    out = []
    if is_zero(l):
        return out
    if n["h"] < l["h"]:
        out.append("height-decrease")
    if n["h"] == l["h"] and earlier(n, l) and not (n["c"] == 1 and l["m"] == 0):
        out.append("back-step-not-sc")
    if (n["h"], n["r"], n["s"], n["c"]) == (l["h"], l["r"], l["s"], l["c"]) and not (n["m"] == 1 and l["m"] == 0):
        out.append("retake")
    return out


def _sub(ctx, name):
    sub = core.Ctx.__new__(core.Ctx)
    sub.__dict__.update(ctx.__dict__)
    sub.work = os.path.join(ctx.work, name)
    os.makedirs(sub.work)
    sub.states = sub.transitions = 0
    sub.tlc_cmds = []
    sub._ntlc = 0
    return sub


def _rel(ctx, name, cfg, files, allow_violation=False):
    """one LastPointRel run in its own work dir (the three recorded files staged next to the spec)"""
    sub = _sub(ctx, name)
    d = sub._stage_spec()
    for fn, src in files.items():
        if src is None:
            open(os.path.join(d, fn), "w").close()
        else:
            shutil.copy(src, os.path.join(d, fn))
    r = sub.tlc("LastPointRel", cfg, workers=4, timeout=1500, allow_violation=allow_violation)
    shutil.rmtree(sub.work, ignore_errors=True)
    return r, sub


def _mismatches(r):
    return [(m.group(1), int(m.group(2)), int(m.group(3)))
            for m in re.finditer(r'<<"MISMATCH", "([^"]*)", (\d+), (\d+)>>', r.out)]


def _diverges(r):
    return [(m.group(1), int(m.group(2))) for m in re.finditer(r'<<"DIVERGE", "([^"]*)", (\d+)>>', r.out)]


def _trace_steps(out, var="step"):
    """`step = "<json>"` values of a TLC error trace"""
    steps = []
    for line in out.splitlines():
        m = re.match(r'^(?:/\\ )?' + var + r' = "(.*)"$', line.strip())
        if m and m.group(1):
            steps.append(json.loads(m.group(1).replace('\\"', '"').replace("\\\\", "\\")))
    return steps


def _replay(ctx, name, behaviours):
    cases = os.path.join(ctx.work, name + ".in.ndjson")
    res = os.path.join(ctx.work, name + ".out.ndjson")
    core.write_ndjson(cases, behaviours)
    ctx.vh(["C06", "replay", "--in", cases, "--out", res], timeout=1200)
    rows = core.read_ndjson(res)
    by = {}
    for row in rows:
        by.setdefault(row["b"], []).append(row)
    if len(by) != len(behaviours):
        raise core.MachineryError("replay answered %d of %d behaviours" % (len(by), len(behaviours)))
    return [by[i + 1] for i in range(len(behaviours))]


def _split_trace(paths, maxev):
    """the recorded votes traces concatenated and split at Reset events into chunks of about maxev events"""
    chunks, cur = [], []
    for path in paths:
        for line in open(path):
            if line.startswith('{"a":"Reset"') and len(cur) >= maxev:
                chunks.append(cur)
                cur = []
            cur.append(line)
    if cur:
        chunks.append(cur)
    return chunks


def _vote_trace(ctx, name, lines):
    """validate one chunk with LastPointVoteTrace; returns (result, sub ctx)"""
    sub = _sub(ctx, name)
    path = os.path.join(sub.work, "chunk.ndjson")
    with open(path, "w") as f:
        f.writelines(lines)
    ok, r, hw = sub.tlc_validate_trace("LastPointVoteTrace", "LastPointVoteTrace.cfg", path, timeout=6000)
    if not ok or r.distinct != len(lines) + 1:
        raise core.MachineryError("votes trace %s not consumed (hw=%s, %d states for %d events):\n%s" % (
            name, hw, r.distinct, len(lines), r.out[-3000:]))
    shutil.rmtree(sub.work, ignore_errors=True)
    return r, sub


def _history_of(evs, i):
    """events of the history that contains event index i (0-based), up to and including i"""
    j = i
    while evs[j]["a"] != "Reset":
        j -= 1
    return evs[j:i + 1]


def _opstr(e):
    if e["a"] == "Vote":
        k = e["k"]
        kind = {"I": "INIT", "S": "suffrage-confirm INIT", "A": "ACCEPT"}[k["k"]]
        return "Vote(%s ballot of %s for (h%d,r%d) fact %s embedding %s)" % (
            kind, e["n"], k["h"], k["r"], e["f"], "no voteproof" if is_zero(e["e"]) else "voteproof " + pstr(e["e"]))
    if e["a"] == "SetLast":
        return "SetLastPoint(%s)" % pstr(e["p"])
    return e["a"]


FAMILIES = ("f1", "f1late", "f2", "rnd")


def _votes_job(ctx, prefix, args, quick):
    """record the four families of votes histories from the real box (four processes side by side), then let
    TLC (LastPointVoteTrace) judge the recording: one JVM in the quick tier (the cost of a chunk is the JVM, not
    its events), a few big chunks in the thorough tier"""
    def record(fam):
        t = time.time()
        ctx.vh(["C06", "votes", "--family", fam] + args + ["--out", prefix], timeout=6000)
        return round(time.time() - t, 1)
    with ThreadPoolExecutor(max_workers=4) as ex:
        rec = dict(zip(FAMILIES, ex.map(record, FAMILIES)))
    chunks = _split_trace([prefix + "." + fam for fam in FAMILIES], 10 ** 9 if quick else 150000)
    with ThreadPoolExecutor(max_workers=6) as ex:
        res = list(ex.map(lambda a: _vote_trace(ctx, "vt-%d" % a[0], a[1]), list(enumerate(chunks))))
    return rec, [(ci, lines, r) for (ci, lines), r in zip(enumerate(chunks), res)]


def _votes_start(ctx, prefix, quick, args):
    """runs beside everything else"""
    ex = ThreadPoolExecutor(max_workers=1)
    fut = ex.submit(_votes_job, ctx, prefix, args, quick)
    ex.shutdown(wait=False)
    return fut


def _votes_finish(ctx, fut, diverge):
    """the verdict on the recorded votes traces"""
    ctx.extra["votes_recording_wall_s"], done = fut.result()
    stats = {"histories": 0, "votes": 0, "moves_by_vote_to_embedded_voteproof": 0, "moves_by_vote_to_counted_voteproof": 0,
             "steps_back_by_vote(suffrage-confirm)": 0, "moves_by_count": 0, "moves_by_setlastpoint": 0,
             "lower_height_voteproof_forwarded_by_suffrage_confirm_filter(position kept)": 0}
    ctx.extra["votes_trace_validation_wall_s"] = {"chunk %d (%d events)" % (ci, len(lines)): round(r.wall, 1) for ci, lines, (r, _) in done}
    for ci, lines, (r, sub) in done:
        ctx.states += r.distinct
        ctx.transitions += r.generated
        ctx.tlc_cmds += sub.tlc_cmds
        evs = [json.loads(x) for x in lines]
        hist = fam = None
        for e in evs:
            if e["a"] == "Reset":
                if hist is not None:
                    ctx.case(hist, nontrivial=True)
                hist = ["votes", e["nn"], e["t10"], e["ex"], e["suf"]]
                fam = e["tag"]
                stats["histories"] += 1
                ctx.traces += 1
                continue
            hist.append([e["a"], pk(e["p"])] if e["a"] == "SetLast" else
                        [e["a"], e["n"], e["k"]["h"], e["k"]["r"], e["k"]["k"], e["f"], pk(e["e"])] if e["a"] == "Vote" else [e["a"]])
            if e["a"] == "Learn":
                continue
            moved = pk(e["before"]) != pk(e["after"])
            if e["a"] == "Vote":
                stats["votes"] += 1
                if moved:
                    stats["moves_by_vote_to_embedded_voteproof" if pk(e["after"]) == pk(e["e"]) else "moves_by_vote_to_counted_voteproof"] += 1
                    if not is_zero(e["before"]) and e["after"]["h"] == e["before"]["h"] and earlier(e["after"], e["before"]):
                        stats["steps_back_by_vote(suffrage-confirm)"] += 1
                if e.get("err"):
                    ctx.violation("panic(Vote)" if e["err"].startswith("panic") else "error(Vote)", e["err"][:300],
                                  {"family": fam, "history": _history_of(evs, evs.index(e))})
            elif moved:
                stats["moves_by_count" if e["a"] == "Count" else "moves_by_setlastpoint"] += 1
            for p in e.get("emit", []):
                if not is_zero(e["before"]) and p["h"] < e["before"]["h"]:
                    stats["lower_height_voteproof_forwarded_by_suffrage_confirm_filter(position kept)"] += 1
        if hist is not None:
            ctx.case(hist, nontrivial=True, sample={"family": fam, "history": [_opstr(e) for e in _history_of(evs, len(evs) - 1)[1:]][:6]})
        for m in re.finditer(r'<<"MISMATCH", "([^"]*)", (\d+)>>', r.out):
            cls, i = m.group(1), int(m.group(2)) - 1
            e = evs[i]
            hs = _history_of(evs, i)
            key = cls
            if cls.startswith("setlast:"):
                key = "box:" + cls.split(":", 1)[1]
            elif cls.startswith("vote:") and pk(e["before"]) != pk(e["after"]):
                key = cls + (";moved-to-embedded-voteproof" if pk(e["after"])[:4] == pk(e["e"])[:4] else ";moved-to-counted-voteproof")
            ctx.violation(key, "real Ballotbox (n=%d, threshold %s%%%s): after %s the call %s moves the position %s -> %s (%s)" % (
                hs[0]["nn"], hs[0]["t10"] / 10, ", last node expelled" if hs[0]["ex"] else "",
                " ; ".join(_opstr(x) for x in hs[1:-1]) or "nothing", _opstr(e), pstr(e["before"]), pstr(e["after"]), cls),
                {"family": hs[0]["tag"], "history": hs})
        for m in re.finditer(r'<<"DIVERGE", "([^"]*)", (\d+)>>', r.out):
            k = "votes:" + m.group(1)
            diverge[k] = diverge.get(k, 0) + 1
            if "votes_model_divergence_example" not in ctx.extra:
                ctx.extra["votes_model_divergence_example"] = {"class": m.group(1), "history": [
                    "%s: %s -> %s%s" % (_opstr(x), pstr(x["before"]), pstr(x["after"]), "" if x.get("ok") else " (false)")
                    for x in _history_of(evs, int(m.group(2)) - 1)[1:] if x["a"] != "Learn"][-14:]}
    ctx.extra["votes_relation"] = stats
    for k in ("moves_by_vote_to_embedded_voteproof", "moves_by_vote_to_counted_voteproof", "steps_back_by_vote(suffrage-confirm)", "moves_by_count"):
        if stats[k] == 0:
            raise core.MachineryError("votes: the recorded histories contain no %s" % k)


def run(ctx):
    quick = ctx.tier == "quick"
    maxh, maxr = (2, 2) if quick else (3, 3)
    ctx.rule = ("(last, cand) pairs of positions (height 0..%d, round 0..%d, stage, majority, suffrage-confirm; %s) offered to the "
                "real functions / a fresh real Ballotbox / a real LastVoteproofsHandler in every (ivp, avp) state; plus seeded update "
                "sequences into long-lived objects; plus histories of really signed ballots (every start position x every ballot x every "
                "embedded voteproof, every record voted to a decision, seeded consensus-like flows) voted into a real Ballotbox; "
                "non-trivial = last is not the zero position; distinct by (object, last|state, cand) resp. by sequence / history" % (maxh, maxr, "43 positions" if quick else "79 positions"))
    ctx.exhaustive = True
    diverge = {}

    # ---- independent TLC / harness jobs first, side by side (JVM start dominates on a busy machine)
    cfg = "LastPoint_mc_quick.cfg" if quick else "LastPoint_mc_thorough.cfg"
    mcfg = "LastVoteproofs_mc_quick.cfg" if quick else "LastVoteproofs_mc_thorough.cfg"
    nb = 200 if quick else 3000
    rel = os.path.join(ctx.work, "rel")

    def job(name, f):
        sub = _sub(ctx, name)
        out = f(sub)
        return out, sub

    vprefix = os.path.join(ctx.work, "votes")
    vmaxh, vmaxr, vnum, vlen = (2, 1, 150, 30) if quick else (3, 2, 1500, 40)
    vfuts = _votes_start(ctx, vprefix, quick, ["--maxh", vmaxh, "--maxr", vmaxr, "--num", vnum, "--len", vlen])   # runs beside everything below
    with ThreadPoolExecutor(max_workers=8) as ex:
        f_dump = ex.submit(job, "dump", lambda c: c.tlc_dump_steps("LastPoint", cfg, timeout=1500, workers=4))
        f_rel = ex.submit(lambda: ctx.vh(["C06", "relation", "--maxh", maxh, "--maxr", maxr, "--out", rel], timeout=1500))
        f_mc = ex.submit(job, "lvmc", lambda c: c.tlc("LastVoteproofs", mcfg, timeout=1500, workers=4))
        f_cand = ex.submit(job, "lvcand", lambda c: c.tlc("LastVoteproofs", "LastVoteproofs_cand.cfg", timeout=900,
                                                           allow_violation=True, workers=2))
        f_simb = ex.submit(job, "simb", lambda c: c.tlc_simulate("LastPoint", "LastPoint_sim.cfg", num=nb, depth=30, timeout=3000))
        f_simv = ex.submit(job, "simv", lambda c: c.tlc_simulate("LastVoteproofs", "LastVoteproofs_sim.cfg", num=nb, depth=9, timeout=3000))
        f_vmc = ex.submit(job, "lpvmc", lambda c: c.tlc("LastPointVote", "LastPointVote_mc_quick.cfg" if quick else
                                                         "LastPointVote_mc_thorough.cfg", timeout=6000, workers=4 if quick else 8))
        names = [("dump", f_dump), ("lvmc", f_mc), ("lvcand", f_cand), ("simb", f_simb), ("simv", f_simv), ("lpvmc", f_vmc)]
        if not quick:
            # not vacuous: without the Before() re-check of countVoterecords the statement must fail on the model
            names.append(("lpvcand", ex.submit(job, "lpvcand", lambda c: c.tlc("LastPointVote", "LastPointVote_cand.cfg", timeout=900,
                                                                                allow_violation=True, workers=2))))
            names.append(("lpvmc2", ex.submit(job, "lpvmc2", lambda c: c.tlc("LastPointVote", "LastPointVote_mc_thorough2.cfg",
                                                                              timeout=2400, workers=4))))
            names.append(("lpvvac", ex.submit(job, "lpvvac", lambda c: c.tlc("LastPointVote", "LastPointVote_vac.cfg", timeout=900, workers=2,
                                                                              args=["-continue"], allow_violation=True))))
            # vacuity: a backward step and a majority-replaces-non-majority step must exist in the model
            names.append(("vac", ex.submit(job, "vac", lambda c: c.tlc("LastPoint", "LastPoint_vac.cfg", timeout=900, workers=2,
                                                                      args=["-continue"], allow_violation=True))))
        done = {}
        for name, f in names:
            out, sub = f.result()
            done[name] = out
            ctx.states += sub.states
            ctx.transitions += sub.transitions
            ctx.tlc_cmds += sub.tlc_cmds
            shutil.rmtree(sub.work, ignore_errors=True)
        f_rel.result()

    ctx.extra["voting_model_check_wall_s"] = {k: round(done[k].wall, 1) for k in done if k.startswith("lpv")}
    # the voting model: without the Before() re-check of countVoterecords the statement must fail (not vacuous)
    if "lpvcand" in done:
        if done["lpvcand"].violated != "MoveOK":
            raise core.MachineryError("LastPointVote with Guard = \"filter\" does not violate MoveOK: the voting model is vacuous")
        ctx.extra["voting_model_needs_Before_recheck(Guard=filter violates MoveOK)"] = True
    if "lpvvac" in done:
        seen = set(re.findall(r"Action property (\w+) is violated", done["lpvvac"].out))
        want = {"NeverMovesByCount", "NeverBackByVote", "NeverToEmbedded", "NeverToCounted"}
        if seen != want:
            raise core.MachineryError("vacuity: the voting model has no %s step" % (want - seen))
        ctx.extra["voting_model_vacuity_checked"] = "moves by Count, steps back by Vote, moves to embedded and to counted voteproofs exist in LastPointVote.tla"

    if "vac" in done:
        seen = set(re.findall(r"Action property (\w+) is violated", done["vac"].out))
        if seen != {"NeverBack", "NeverReplace"}:
            raise core.MachineryError("vacuity: the model has no %s step" % ({"NeverBack", "NeverReplace"} - seen))
        ctx.extra["vacuity_checked"] = "backward (suffrage-confirm) steps and majority-over-non-majority steps exist in LastPoint.tla"

    # ---- 1. the model against the statement + dump of every (last, cand) state
    r, steps = done["dump"]
    pairs = {}
    for s in steps:
        pairs.setdefault((pk(s["last"]), pk(s["cand"])), s)
    cases = list(pairs.values())
    cin = os.path.join(ctx.work, "table.in.ndjson")
    cout = os.path.join(ctx.work, "table.out.ndjson")
    core.write_ndjson(cin, [{"last": c["last"], "cand": c["cand"]} for c in cases])
    ctx.vh(["C06", "table", "--in", cin, "--out", cout])
    rows = core.read_ndjson(cout)
    if len(rows) != len(cases):
        raise core.MachineryError("table: %d answers for %d cases" % (len(rows), len(cases)))
    tab = os.path.join(ctx.work, "c06_tab.ndjson")

    def tri(v):
        return "none" if v is None else ("true" if v else "false")

    trows = []
    for c, row in zip(cases, rows):
        if row.get("panic"):
            ctx.violation("panic(table)", "panic for last=%s cand=%s: %s" % (pstr(c["last"]), pstr(c["cand"]), row["panic"][:300]),
                          {"case": c, "result": row})
            continue
        trows.append({"last": c["last"], "cand": c["cand"], "before": row["before"], "nb": row["nb"], "nv": row["nv"],
                      "nvvp": tri(row["nvvp"]), "hnew": tri(row["hnew"])})
        ctx.case(["tab", pk(c["last"]), pk(c["cand"])], nontrivial=not is_zero(c["last"]),
                 sample={"last": pstr(c["last"]), "cand": pstr(c["cand"]), "real": {k: row[k] for k in ("before", "nb", "nv", "nvvp", "hnew")}})
    core.write_ndjson(tab, trows)
    ctx.traces += len(trows)

    # ---- 2. the real relations
    box = core.read_ndjson(rel + ".box")
    hdl = core.read_ndjson(rel + ".hdl")
    for row in box:
        ctx.case(["box", row["entry"], pk(row["last"]), pk(row["cand"])], nontrivial=not is_zero(row["last"]))
    nedges = 0
    for n in hdl:
        for e in n["out"]:
            nedges += 1
            ctx.case(["hdl", pk(n["ivp"]), pk(n["avp"]), pk(e["cand"])], nontrivial=not (is_zero(n["ivp"]) and is_zero(n["avp"])))
    ctx.traces += len(box) + nedges
    ctx.extra["box_relation_rows"] = len(box)
    ctx.extra["box_relation_accepted"] = sum(1 for b in box if b["ok"])
    ctx.extra["handler_states"] = len(hdl)
    ctx.extra["handler_edges"] = nedges

    files = {"c06_tab.ndjson": tab, "c06_box.ndjson": rel + ".box", "c06_hdl.ndjson": rel + ".hdl"}
    jobs = [("tab", "LastPointRel_tab.cfg", False), ("box", "LastPointRel_box.cfg", False),
            ("walk", "LastPointRel_walk.cfg", False), ("hdl", "LastPointRel_hdl.cfg", False),
            ("recur", "LastPointRel_recur.cfg", True)]
    res = {}
    with ThreadPoolExecutor(max_workers=5) as ex:
        futs = {name: ex.submit(_rel, ctx, "rel-" + name, cfg2, files, allow) for name, cfg2, allow in jobs}
        for name, f in futs.items():
            res[name] = f.result()
    for name, (rr, sub) in res.items():
        ctx.states += rr.distinct
        ctx.transitions += rr.generated
        ctx.tlc_cmds += sub.tlc_cmds
    if res["tab"][0].distinct != len(trows) or res["box"][0].distinct != len(box):
        raise core.MachineryError("TLC checked %d/%d table rows and %d/%d box rows" % (
            res["tab"][0].distinct, len(trows), res["box"][0].distinct, len(box)))
    ctx.extra["handler_states_reachable_by_Set"] = res["hdl"][0].distinct

    for (cls, k, _) in _mismatches(res["tab"][0]):
        row = trows[k - 1]
        ctx.violation(cls, "last=%s, candidate %s of a lower height is reported new" % (pstr(row["last"]), pstr(row["cand"])), row)
    for (cls, k, _) in _mismatches(res["box"][0]):
        row = box[k - 1]
        ctx.violation(cls, "Ballotbox.%s: position %s -> %s (offered %s, returned %s)" % (
            row["entry"], pstr(row["last"]), pstr(row["after"]), pstr(row["cand"]), row["ok"]), row)
    if not _mismatches(res["box"][0]):
        for (cls, k, _) in _mismatches(res["walk"][0]):     # same edges as SpecBox; only reported if that saw nothing
            ctx.violation(cls, "a path of accepted SetLastPoint updates breaks the statement after %d updates" % k, {"updates": k})
    for name in ("tab", "box"):
        for (cls, k) in _diverges(res[name][0]):
            diverge.setdefault(cls, 0)
            diverge[cls] += 1

    # ---- 2b. the moves the box makes itself while it votes
    _votes_finish(ctx, vfuts, diverge)

    # handler: every failing edge must be reproduced on ONE long-lived real handler by a Set-only history
    byid = {n["id"]: n for n in hdl}
    empty = [n for n in hdl if is_zero(n["ivp"]) and is_zero(n["avp"])][0]["id"]
    parent = {empty: None}
    todo = [empty]
    while todo:
        i = todo.pop(0)
        for e in byid[i]["out"]:
            if e["to"] not in parent:
                parent[e["to"]] = (i, e["cand"])
                todo.append(e["to"])

    def history(i):
        hs = []
        while parent[i] is not None:
            hs.append(parent[i][1])
            i = parent[i][0]
        return hs[::-1]

    cands = []
    for (cls, k, e) in _mismatches(res["hdl"][0]):
        n = byid[k]
        edge = n["out"][e - 1]
        a, b = n["cap"], byid[edge["to"]]["cap"]
        cands.append((cls, n, edge, a, b, history(k) + [edge["cand"]]))
    if cands:
        real = _replay(ctx, "hdlcex", [[{"a": "SetV", "cand": c} for c in hist] for (_, _, _, _, _, hist) in cands])
        for (cls, n, edge, a, b, hist), rows2 in zip(cands, real):
            ctx.traces += 1
            if len(rows2) < 2 or pk(rows2[-2]["after"]) != pk(a) or pk(rows2[-1]["after"]) != pk(b):
                ctx.extra.setdefault("relation_edges_not_reproduced_by_history", []).append(
                    {"class": cls, "history": [pstr(x) for x in hist]})
                continue
            key = cls
            if (cls == "handler:back-step-not-sc" and edge["cand"]["c"] == 1 and a["m"] == 0 and b["s"] == 3
                    and pk(b) == pk(n["avp"]) and pk(b) != pk(edge["cand"])):
                key = KNOWN_HANDLER_CLASS
            what = "LastVoteproofsHandler: after Set of %s the position Last().Cap() moves from %s to %s (%s)" % (
                " ; ".join(pstr(x) for x in hist), pstr(a), pstr(b), cls)
            if key == KNOWN_HANDLER_CLASS:
                what += (": not a suffrage-confirm result - the ACCEPT voteproof kept from before outranks the INIT "
                         "suffrage-confirm voteproof just taken")
            ctx.violation(key, what, {"history": hist, "cap_before": a, "cap_after": b, "real_replay": rows2})

    # ---- 2c. the handler judged by what it TAKES, not by what Cap() says (seeded change C06d made Cap() itself
    # stale: judged against Cap() alone, a handler whose Cap() stops following the accepted voteproofs looks
    # perfectly monotonic). Position = the last voteproof Set() accepted; the relation (last taken, next taken) over
    # every (node, last taken) reachable from the empty handler is written in the box-relation format and judged by
    # the same TLC run as the ballot box relation (LastPointRel!SpecBox: HeightOK / BackOK / RetakeOK).
    tparent = {(empty, pk(ZERO)): None}
    tlast = {(empty, pk(ZERO)): ZERO}
    ttodo = [(empty, pk(ZERO))]
    trows_taken, tmeta = [], []
    seen_rows = set()
    while ttodo:
        st = ttodo.pop(0)
        i, _ = st
        last = tlast[st]
        for e in byid[i]["out"]:
            if not e["ret"]:
                continue
            if not e.get("new"):
                # Set() returned true without judging the voteproof new: it only filled a missing slot (fillMissing);
                # the handler moved to another node but took no position
                nst = (e["to"], pk(last))
                if nst not in tparent:
                    tparent[nst] = (st, e["cand"])
                    tlast[nst] = last
                    ttodo.append(nst)
                continue
            nst = (e["to"], pk(e["cand"]))
            rk = (i, pk(last), pk(e["cand"]))
            if rk not in seen_rows:
                seen_rows.add(rk)
                trows_taken.append({"entry": "HandlerTaken", "last": last, "cand": e["cand"], "after": e["cand"], "ok": True})
                tmeta.append((st, e))
            if nst not in tparent:
                tparent[nst] = (st, e["cand"])
                tlast[nst] = e["cand"]
                ttodo.append(nst)

    def thistory(st):
        hs = []
        while tparent[st] is not None:
            hs.append(tparent[st][1])
            st = tparent[st][0]
        return hs[::-1]

    taken_file = os.path.join(ctx.work, "rel.taken")
    core.write_ndjson(taken_file, trows_taken)
    rt, subt = _rel(ctx, "rel-taken", "LastPointRel_box.cfg", {"c06_tab.ndjson": tab, "c06_box.ndjson": taken_file, "c06_hdl.ndjson": rel + ".hdl"})
    ctx.states += rt.distinct
    ctx.transitions += rt.generated
    ctx.tlc_cmds += subt.tlc_cmds
    if rt.distinct != len(trows_taken):
        raise core.MachineryError("TLC checked %d of %d handler-taken rows" % (rt.distinct, len(trows_taken)))
    ctx.traces += len(trows_taken)
    ctx.extra["handler_taken_relation_rows"] = len(trows_taken)
    tc = []
    for (cls, k, _) in _mismatches(rt):
        st, e = tmeta[k - 1]
        tc.append((cls.replace("box:", "handler-taken:"), st, e, thistory(st) + [e["cand"]]))
    # one history per (class, cap-vs-last situation) is enough to report; all are replayed
    if tc:
        realt = _replay(ctx, "takencex", [[{"a": "SetV", "cand": c} for c in hist] for (_, _, _, hist) in tc])
        reported = {}
        for (cls, st, e, hist), rows2 in zip(tc, realt):
            ctx.traces += 1
            if len(rows2) != len(hist) or not all(x["ok"] for x in rows2):
                ctx.extra.setdefault("taken_rows_not_reproduced_by_history", []).append({"class": cls, "history": [pstr(x) for x in hist]})
                continue
            last, cand, cap = tlast[st], e["cand"], byid[st[0]]["cap"]
            key = cls
            # the situation of the known handler finding: the last taken voteproof is an INIT suffrage-confirm result of an
            # earlier round and Cap() is still the ACCEPT voteproof kept from before (a later point of the same height)
            if (last["s"] == 1 and last["c"] == 1 and cap["s"] == 3 and pk(cap) == pk(byid[st[0]]["avp"])
                    and cap["h"] == last["h"] and cap["r"] >= last["r"]):
                key = cls + ";judged-against-the-older-accept-kept-after-an-sc-stepback"
            reported[key] = reported.get(key, 0) + 1
            if reported[key] > 3:
                continue
            ctx.violation(key, "LastVoteproofsHandler: Set of %s were all accepted: the position taken moves from %s to %s while Cap() = %s (%s)" % (
                " ; ".join(pstr(x) for x in hist), pstr(last), pstr(cand), pstr(cap), cls),
                {"history": hist, "last_taken": last, "taken": cand, "cap": cap, "real_replay": rows2})
        ctx.extra["handler_taken_mismatch_classes"] = reported

    # recurrence over a history: evidence only
    rr = res["recur"][0]
    ctx.extra["position_can_recur_later_in_a_history"] = bool(rr.safety_violation)
    if rr.safety_violation:
        tr = re.findall(r"cur = (\[.*\])", rr.out)
        ctx.extra["recurrence_example"] = tr[:4]

    # ---- 3. the handler model: weaker reading holds on the model, strong reading gives a candidate
    ctx.extra["weaker_reading_holds_on_handler_model(CapBackOnlyWhenTakingSC)"] = True
    rc = done["lvcand"]
    if rc.safety_violation:
        cex = _trace_steps(rc.out)
        rows2 = _replay(ctx, "modelcex", [[{"a": s["a"], "cand": s["cand"]} for s in cex]])[0]
        ctx.traces += 1
        same = all(pk(x["after"]) == pk(s["cap"]) for x, s in zip(rows2, cex))
        bad = [c for i in range(1, len(rows2)) for c in step_classes(rows2[i - 1]["after"], rows2[i]["after"])
               if pk(rows2[i - 1]["after"]) != pk(rows2[i]["after"])]
        if same and bad:
            ctx.extra["model_counterexample_reproduced_on_real_handler"] = [pstr(s["cand"]) for s in cex]
        else:
            ctx.extra.setdefault("model_only_counterexamples", []).append(
                {"property": "LastVoteproofs!CapMonotone", "history": [pstr(s["cand"]) for s in cex]})

    # ---- 4. sequences into long-lived objects
    _, behs = done["simb"]
    seqs = []
    for b in behs:
        # state k carries (last_k, cand_k, acc_k); the call is SetLastPoint(cand_k)
        seqs.append([{"a": "SetB", "last": s["last"], "cand": s["cand"], "acc": s["acc"]} for s in b])
    real = _replay(ctx, "simbox", seqs)
    for sq, rows2 in zip(seqs, real):
        ctx.traces += 1
        ctx.case(["seqB"] + [pk(s["cand"]) for s in sq], nontrivial=True,
                 sample={"SetLastPoint sequence": [pstr(s["cand"]) for s in sq][:8], "accepted": [x["ok"] for x in rows2][:8]})
        prev = ZERO
        for s, x in zip(sq, rows2):
            if x.get("panic"):
                ctx.violation("panic(SetLastPoint)", x["panic"][:300], {"sequence": sq, "real": rows2})
                break
            if x["ok"] or pk(x["after"]) != pk(prev):
                for c in step_classes(prev, x["after"]):
                    ctx.violation("box:" + c, "long-lived Ballotbox: position %s -> %s (offered %s, returned %s)" % (
                        pstr(prev), pstr(x["after"]), pstr(s["cand"]), x["ok"]), {"sequence": sq, "real": rows2})
            if not is_zero(prev) and s["cand"]["h"] < prev["h"] and x["newb"][0]:
                ctx.violation("lower-height-accepted(IsNewBallot)", "IsNewBallot(%s, %s) is true" % (pstr(prev), pstr(s["cand"])),
                              {"sequence": sq, "real": rows2})
            if x["ok"] != s["acc"] or pk(prev) != pk(s["last"]):
                diverge["seq:SetLastPoint"] = diverge.get("seq:SetLastPoint", 0) + 1
            prev = x["after"]

    _, behs = done["simv"]
    seqs = [[s for s in b] for b in behs]
    real = _replay(ctx, "simhdl", [[{"a": s["a"], "cand": s["cand"]} for s in b] for b in seqs])
    known_seq = 0
    for sq, rows2 in zip(seqs, real):
        ctx.traces += 1
        ctx.case(["seqV"] + [(s["a"], pk(s["cand"])) for s in sq], nontrivial=True,
                 sample={"handler sequence": [(s["a"], pstr(s["cand"])) for s in sq][:8], "cap": [pstr(x["after"]) for x in rows2][:8]})
        prev = ZERO
        prev_avp = ZERO
        for s, x in zip(sq, rows2):
            if x.get("panic"):
                ctx.violation("panic(handler)", x["panic"][:300], {"sequence": sq, "real": rows2})
                break
            if s["a"] == "SetV" and pk(x["after"]) != pk(prev):
                for c in step_classes(prev, x["after"]):
                    key = "handler:" + c
                    if (c == "back-step-not-sc" and s["cand"]["c"] == 1 and prev["m"] == 0 and x["after"]["s"] == 3
                            and pk(x["after"]) == pk(prev_avp) and pk(x["after"]) != pk(s["cand"])):
                        key = KNOWN_HANDLER_CLASS
                        known_seq += 1
                    ctx.violation(key, "long-lived LastVoteproofsHandler: %s(%s) moves Last().Cap() from %s to %s" % (
                        s["a"], pstr(s["cand"]), pstr(prev), pstr(x["after"])), {"sequence": sq, "real": rows2})
            if not is_zero(prev) and s["cand"]["h"] < prev["h"] and x["newb"][0]:
                ctx.violation("lower-height-accepted(LastVoteproofsHandler.IsNew)", "IsNew(%s) is true while the cap is %s" % (
                    pstr(s["cand"]), pstr(prev)), {"sequence": sq, "real": rows2})
            if (x["ok"] != s["ret"] or pk(x["ivp"]) != pk(s["ivp"]) or pk(x["avp"]) != pk(s["avp"]) or pk(x["mvp"]) != pk(s["mvp"])
                    or pk(x["after"]) != pk(s["cap"])):
                diverge["seq:handler"] = diverge.get("seq:handler", 0) + 1
                ctx.extra.setdefault("handler_model_divergence_example", {"sequence": [(q["a"], pstr(q["cand"])) for q in sq],
                                                                          "model": s, "real": x})
            prev = x["after"]
            prev_avp = x["avp"]
    ctx.extra["known_class_met_in_random_sequences"] = known_seq
    ctx.extra["model_vs_code_differences(evidence, not a verdict)"] = diverge
    ctx.assumptions = [
        "a voteproof is identified with its position (one real signed voteproof object per position, one-node suffrage); "
        "the last-point code reads Point, Result and Majority only",
        "the handler's (ivp, avp) states are built with ForceSetLast for the relation; every failing edge is re-reached by Set "
        "alone on one long-lived handler before it is reported",
        "handler sequences are at most 8 calls long so that the 8-entry LRU cache never evicts",
        "votes: one box call at a time (the goroutines a Vote leaves behind have ended before LastPoint() is read); embedded "
        "voteproofs are valid and carry the box's threshold; a held INIT draw is never released (holds, invalid voteproofs and "
        "record recycling are C04/C05's subject); a lower-height voteproof forwarded to the states by the suffrage-confirm filter "
        "while the position stays is counted in votes_relation, not alarmed (weaker reading of sentence 2)",
        "the statement's last sentence is read step-wise (the current position is not taken again); recurrence later in a history "
        "is reported under position_can_recur_later_in_a_history only",
    ]
