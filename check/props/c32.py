"""C32 - concurrent maps and locked values (util/lock.go). Spec: LockedMap.tla (the sequential map
the statement compares with) + LockedMapTrace.tla (binding B).

The harness records concurrent histories of the real objects (SingleLockedMap, ShardedMap 2/4/64,
NewDeepShardedMap, Locked[int]; 2..4 goroutines x 3..5 calls, 3 keys, call/return stamped by one
atomic logical clock) and TLC searches every history for a linearization: one internal Lin(c) step
per call between its Call and Ret events, the answer the real call gave must be the answer of the
sequential map at that point. After the goroutines finished, Map() must be the sequential map's
content and Len() is compared with the number of keys (sentence 2). Forced histories hold a
goroutine inside a Traverse callback / at the verif gate before the length counter is updated."""
import os
import re
from vlib import core


def split(events):
    """histories: list of (reset_event, [events after it up to the next Reset/End])"""
    hs, cur = [], None
    for e in events:
        if e["a"] in ("Reset", "End"):
            if cur is not None:
                hs.append(cur)
            cur = (e, []) if e["a"] == "Reset" else None
        elif cur is not None:
            cur[1].append(e)
    if cur is not None:
        hs.append(cur)
    return hs


def write(path, hs):
    rows = []
    for (r, evs) in hs:
        rows.append(r)
        rows.extend(evs)
    rows.append({"a": "End"})
    core.write_ndjson(path, rows)


def tlc_hist(ctx, hs, cfg):
    """validate histories hs; returns (set of history numbers without a linearization, final-len mismatches
    [(history number, len, keys)], high-water line)"""
    path = os.path.join(ctx.work, "part.ndjson")
    write(path, hs)
    ok, res, hw = ctx.tlc_validate_trace("LockedMapTrace", cfg, path, timeout=3000)
    if not ok:
        raise core.MachineryError("LockedMapTrace/%s did not finish: %s" % (cfg, res.out[-1500:]))
    m = re.findall(r'<<\s*"NOTLIN",\s*\{([^}]*)\}\s*>>', res.out)     # TLC wraps long sets over lines
    if not m:
        raise core.MachineryError("LockedMapTrace/%s printed no NOTLIN line: %s" % (cfg, res.out[-1500:]))
    notlin = set(int(x) for x in re.sub(r"\s", "", m[-1]).split(",") if x)
    # line -> history
    starts, line = [], 1
    for (r, evs) in hs:
        starts.append((line, r["i"]))
        line += 1 + len(evs)
    fl = {}
    for (cls, ln, rest) in res.mismatches():
        if cls != "final-len":
            continue
        i = [h for (s, h) in starts if s <= ln][-1]
        a, b = [int(x) for x in rest.split(",")]
        fl[i] = (a, b)
    return notlin, fl, hw


def overlapping(evs):
    pend, n = set(), 0
    for e in evs:
        if e["a"] == "Call":
            if pend:
                n += 1
            pend.add(e["c"])
        elif e["a"] == "Ret":
            pend.discard(e["c"])
    return n


MUTATORS = {"SetValue", "RemoveValue", "GetOrCreate", "Set", "Remove", "SetOrRemove"}


def empty_races_mutator(evs):
    """an Empty/Close call was pending at the same time as a call that changes the set of keys"""
    win, op = {}, {}
    for n, e in enumerate(evs):
        if e["a"] == "Call":
            win[e["c"]] = [n, len(evs)]
            op[e["c"]] = e["op"]
        elif e["a"] == "Ret":
            win[e["c"]][1] = n
    for c, (a, b) in win.items():
        if op[c] in ("Empty", "Close"):
            for d, (x, y) in win.items():
                if op[d] in MUTATORS and x < b and a < y:
                    return True
    return False


def brief(evs):
    out = []
    for e in evs:
        if e["a"] == "Call":
            out.append("%d:%s(%s%s%s)=%s" % (e["c"], e["op"], e["k"], "," + e["md"] if e["md"] != "-" else "",
                                            "," + str(e["v"]) if e["v"] else "", e["r"]))
        elif e["a"] == "Ret":
            out.append("ret%d" % e["c"])
        else:
            out.append("final len=%s kv=%s" % (e["len"], e["kv"]))
    return out


def run(ctx):
    quick = ctx.tier == "quick"
    ctx.tlc("LockedMap", "LockedMap_mc_quick.cfg" if quick else "LockedMap_mc_thorough.cfg")

    trace = os.path.join(ctx.work, "hist.ndjson")
    num = 600 if quick else 12000
    ctx.vh(["C32", "record", "--num", num, "--forced", 5 if quick else 15, "--trace", trace], timeout=3000)
    hs = split(core.read_ndjson(trace))
    if len(hs) < num:
        raise core.MachineryError("harness recorded %d of %d histories" % (len(hs), num))
    byi = {r["i"]: (r, evs) for (r, evs) in hs}
    ctx.rule = ("concurrent histories (2..4 goroutines x 3..5 calls, keys k1..k3, values 1..9; objects: single, sharded 2/4/64, deep "
                "2x2/4x4, Locked[int]) + forced histories; non-trivial = at least one call started while another was pending; "
                "distinct by the logged event sequence")
    novl = 0
    for (r, evs) in hs:
        ov = overlapping(evs)
        novl += 1 if ov else 0
        ctx.case([r.get("kind"), [[e["a"], e.get("c"), e.get("op"), e.get("k"), e.get("md"), e.get("v"), e.get("r")] for e in evs]],
                 nontrivial=ov > 0, sample={"kind": r.get("kind"), "forced": r.get("forced", ""), "history": brief(evs)[:24]})
    ctx.traces += len(hs)
    ctx.extra["histories"] = len(hs)
    ctx.extra["histories_with_overlapping_calls"] = novl
    ctx.extra["forced_histories"] = sum(1 for (r, _) in hs if r.get("forced"))

    # 1. linearizability (Len answers during the history not constrained), final Map(), final Len()
    notlin, finallen = set(), {}
    CH = 2000
    for k in range(0, len(hs), CH):
        nl, fl, _ = tlc_hist(ctx, hs[k:k + CH], "LockedMapTrace.cfg")
        notlin |= nl
        finallen.update(fl)

    # 2. diagnosis of the histories without a linearization: alone, with Traverse unconstrained;
    #    otherwise the call at the first line no path explains
    diag = sorted(notlin)
    ctx.extra["histories_not_linearizable"] = len(diag)
    for i in diag[:10]:
        r, evs = byi[i]
        nl2, _, _ = tlc_hist(ctx, [byi[i]], "LockedMapTrace_notrav.cfg")
        kindc = "locked" if r["kind"] == "locked" else ("single" if r["kind"] == "single" else "sharded")
        twice = [e for e in evs if e["a"] == "Call" and e["op"] == "Traverse" and len(e["r"]) > 3]
        if twice:
            key = "traverse-visits-key-twice(%s)" % kindc
            what = "Traverse on %s handed one key to the callback twice" % r["kind"]
        elif i not in nl2:
            key = "sharded-traverse-not-atomic" if kindc == "sharded" else "traverse-not-atomic(%s)" % kindc
            what = ("no single point explains what Traverse visited on %s%s" % (r["kind"], " (forced)" if r.get("forced") else ""))
        else:
            _, _, hw = tlc_hist(ctx, [byi[i]], "LockedMapTrace.cfg")
            ev = evs[hw - 2] if hw and 2 <= hw <= len(evs) + 1 else {}
            op = "?"
            if ev.get("a") == "Ret":
                op = [e["op"] for e in evs if e["a"] == "Call" and e["c"] == ev["c"]][0]
            elif ev.get("a") == "Final":
                op = "final-Map"
            key = "not-linearizable(%s;%s)" % (kindc, op)
            what = "history on %s has no linearization; first unexplained event: %s" % (r["kind"], ev)
        ctx.violation(key, "%s: %s" % (what, brief(evs)[:40]), {"reset": r, "history": evs})
    if len(diag) > 10:
        ctx.extra["histories_not_diagnosed"] = len(diag) - 10

    # 3. sentence 2: the reported length after the operations finished
    for i, (got, want) in sorted(finallen.items()):
        r, evs = byi[i]
        key = "len-after-empty" if empty_races_mutator(evs) else "final-len-differs"
        ctx.violation(key, "Len() = %d with %d keys in Map() after the history on %s%s: %s" % (
            got, want, r["kind"], " (forced %s)" % r["forced"] if r.get("forced") else "", brief(evs)[:40]),
            {"reset": r, "history": evs})

    # 4. stronger reading (reported only): Len answers during the history constrained as well
    nls, _, _ = tlc_hist(ctx, hs[:CH], "LockedMapTrace_strict.cfg")
    extra = sorted(nls - notlin)
    ctx.extra["stronger_reading_len_during_history"] = {
        "histories_checked": min(CH, len(hs)), "not_linearizable_with_len_constrained": len(extra),
        "example": brief(byi[extra[0]][1])[:40] if extra else None}
    ctx.assumptions = [
        "answers of Len calls made while other calls are pending are not constrained (the statement constrains the length after "
        "the operations finished); the stronger reading is counted in stronger_reading_len_during_history",
        "after Close, Get and Remove may either return the closed error or answer like an empty map (single and sharded maps differ)",
        "callbacks are taken from a fixed menu (set/inc/remove/ignore/error)",
    ]
