"""C32 - concurrent maps and locked values (util/lock.go). Spec: LockedMap.tla (the sequential map
the statement compares with) + LockedMapTrace.tla (binding B).

The harness records concurrent histories of the real objects (SingleLockedMap, ShardedMap 2/4/64,
NewDeepShardedMap, Locked[int]; 2..4 goroutines x 3..5 calls, 3 keys, call/return stamped by one
atomic logical clock) and TLC searches every history for a linearization: one internal Lin(c) step
per call between its Call and Ret events, the answer the real call gave must be the answer of the
sequential map at that point. After the goroutines finished, Map() must be the sequential map's
content and Len() is compared with the number of keys (sentence 2). Forced histories hold a
goroutine inside a Traverse callback / at the verif gate before the length counter is updated.

Implementation-level layer LockedMapShards.tla (shard slots allocated on first touch, allocation
disciplines locked / dcl / blind): checked against the sequential map for the sound disciplines, the
blind one must violate it (sensitivity of the layer), and with Forced = TRUE it is the controller of
the first-touch schedules: every maximal command list (S<g>:call, L<g> = g leaves the constructor)
of the quick family plus a seeded sample of a larger one is forced on fresh real maps through the
caller-supplied newMap constructor (harness/internal/c32/force.go); the histories are judged like
all the others."""
import os
import re
from vlib import core


def split(events):
    """histories: list of (reset_event, [events after it up to the next Reset/End])"""
    hs, cur = [], None
    for e in events:
        if e["a"] in ("Reset", "End"):
            if cur is not None:
                hs.append(cur)
            cur = (e, []) if e["a"] == "Reset" else None
        elif cur is not None:
            cur[1].append(e)
    if cur is not None:
        hs.append(cur)
    return hs


def write(path, hs):
    rows = []
    for (r, evs) in hs:
        rows.append(r)
        rows.extend(evs)
    rows.append({"a": "End"})
    core.write_ndjson(path, rows)


def tlc_hist(ctx, hs, cfg):
    """validate histories hs; returns (set of history numbers without a linearization, final-len mismatches
    [(history number, len, keys)], high-water line)"""
    path = os.path.join(ctx.work, "part.ndjson")
    write(path, hs)
    ok, res, hw = ctx.tlc_validate_trace("LockedMapTrace", cfg, path, timeout=3000)
    if not ok:
        raise core.MachineryError("LockedMapTrace/%s did not finish: %s" % (cfg, res.out[-1500:]))
    m = re.findall(r'<<\s*"NOTLIN",\s*\{([^}]*)\}\s*>>', res.out)     # TLC wraps long sets over lines
    if not m:
        raise core.MachineryError("LockedMapTrace/%s printed no NOTLIN line: %s" % (cfg, res.out[-1500:]))
    notlin = set(int(x) for x in re.sub(r"\s", "", m[-1]).split(",") if x)
    # line -> history
    starts, line = [], 1
    for (r, evs) in hs:
        starts.append((line, r["i"]))
        line += 1 + len(evs)
    fl = {}
    for (cls, ln, rest) in res.mismatches():
        if cls != "final-len":
            continue
        i = [h for (s, h) in starts if s <= ln][-1]
        a, b = [int(x) for x in rest.split(",")]
        fl[i] = (a, b)
    return notlin, fl, hw


def overlapping(evs):
    pend, n = set(), 0
    for e in evs:
        if e["a"] == "Call":
            if pend:
                n += 1
            pend.add(e["c"])
        elif e["a"] == "Ret":
            pend.discard(e["c"])
    return n


FT_KINDS = ["sharded2i", "locked4i", "deep2x2i", "nested2x2i", "sharded64i", "deep3x2x2i"]
SCHED = re.compile(r'^"SCHED (\d+)((?: \S+)*)"$', re.M)


def first_touch_cases(ctx, quick, lap):
    """the implementation-level layer: invariants for the sound allocation disciplines, the candidate run for the
    blind one, and the schedules to force (exhaustive small family + seeded sample of a larger one)"""
    for cfg in (("LockedMapShards_mc_quick.cfg", "LockedMapShards_mc_quick2.cfg") if quick else
                ("LockedMapShards_mc_thorough.cfg", "LockedMapShards_mc_thorough2.cfg")):
        ctx.tlc("LockedMapShards", cfg, timeout=3000)
        lap(cfg)
    r = ctx.tlc("LockedMapShards", "LockedMapShards_cand.cfg", allow_violation=True, count=False)
    lap("cand")
    if not r.violated:
        raise core.MachineryError("LockedMapShards_cand.cfg: the blind allocation discipline satisfies the properties - "
                                  "the layer does not see a lost first touch any more")
    ctx.extra["model_only_counterexamples"] = [
        "LockedMapShards_cand.cfg (allocation discipline 'blind': inner map built outside the lock and stored without a second "
        "look at the slot - NOT the pinned code, which is 'locked'): %s is violated by two creating calls on keys of one empty "
        "slot; the schedules of this discipline are forced on the real maps (first-touch histories)" % r.violated]
    r = ctx.tlc("LockedMapShards", "LockedMapShards_sched_quick.cfg", timeout=3000)
    lap("sched_exhaustive")
    exh = sorted(set(SCHED.findall(r.out)))
    if len(exh) < 1000:
        raise core.MachineryError("LockedMapShards_sched_quick.cfg printed %d schedules: %s" % (len(exh), r.out[-1500:]))
    exh3 = []
    if not quick:
        r = ctx.tlc("LockedMapShards", "LockedMapShards_sched_thorough.cfg", timeout=3000)
        lap("sched_exhaustive3")
        exh3 = sorted(set(SCHED.findall(r.out)))
        if len(exh3) < 10000:
            raise core.MachineryError("LockedMapShards_sched_thorough.cfg printed %d schedules: %s" % (len(exh3), r.out[-1500:]))
    n_sim = 300 if quick else 4000
    r = ctx.tlc("LockedMapShards", "LockedMapShards_sched_sim.cfg", workers=1, timeout=3000, count=False,
                args=["-simulate", "num=%d" % n_sim, "-depth", 60, "-seed", ctx.seed])
    lap("sched_sampled")
    sim = sorted(set(SCHED.findall(r.out)))
    if len(sim) < n_sim // 2:
        raise core.MachineryError("LockedMapShards_sched_sim.cfg printed %d schedules: %s" % (len(sim), r.out[-1500:]))
    m = re.findall(r"(\d+) states checked", r.out)
    if m:
        ctx.states += int(m[-1])
        ctx.transitions += int(m[-1])
    cases = []
    for fam, lst in (("exhaustive", exh), ("exhaustive3", exh3), ("sampled", sim)):
        for j, (layout, cmds) in enumerate(lst):
            cmds = cmds.split()
            # every schedule on one kind of map in quick (rotating with the seed), on all of them in thorough; sampled: one
            ks = [FT_KINDS[(j + ctx.seed + d) % len(FT_KINDS)] for d in ((0,) if quick else range(len(FT_KINDS)))] \
                if fam == "exhaustive" else [FT_KINDS[(j + ctx.seed) % len(FT_KINDS)]]
            for k in ks:
                cases.append({"id": len(cases) + 1, "kind": k, "layout": layout, "cmds": cmds, "family": fam})
    ctx.extra["first_touch_schedules"] = {"exhaustive_family": len(exh), "exhaustive_family_3_goroutines": len(exh3),
                                          "sampled_family": len(sim), "cases": len(cases)}
    return cases


MUTATORS = {"SetValue", "RemoveValue", "GetOrCreate", "Set", "Remove", "SetOrRemove"}


def empty_races_mutator(evs):
    """an Empty/Close call was pending at the same time as a call that changes the set of keys"""
    win, op = {}, {}
    for n, e in enumerate(evs):
        if e["a"] == "Call":
            win[e["c"]] = [n, len(evs)]
            op[e["c"]] = e["op"]
        elif e["a"] == "Ret":
            win[e["c"]][1] = n
    for c, (a, b) in win.items():
        if op[c] in ("Empty", "Close"):
            for d, (x, y) in win.items():
                if op[d] in MUTATORS and x < b and a < y:
                    return True
    return False


def kind_class(kind):
    return "locked" if kind == "locked" else ("single" if kind == "single" else "sharded")


def brief(evs):
    out = []
    for e in evs:
        if e["a"] == "Call":
            out.append("%d:%s(%s%s%s)=%s" % (e["c"], e["op"], e["k"], "," + e["md"] if e["md"] != "-" else "",
                                            "," + str(e["v"]) if e["v"] else "", e["r"]))
        elif e["a"] == "Ret":
            out.append("ret%d" % e["c"])
        else:
            out.append("final len=%s kv=%s" % (e["len"], e["kv"]))
    return out


def run(ctx):
    import time
    quick = ctx.tier == "quick"
    t0 = [time.time()]
    stage = ctx.extra.setdefault("stage_s", {})

    def lap(name):
        stage[name] = round(time.time() - t0[0], 1)
        t0[0] = time.time()
    ctx.tlc("LockedMap", "LockedMap_mc_quick.cfg" if quick else "LockedMap_mc_thorough.cfg")
    lap("LockedMap_mc")

    trace = os.path.join(ctx.work, "hist.ndjson")
    num = 600 if quick else 12000
    ctx.vh(["C32", "record", "--num", num, "--forced", 5 if quick else 15, "--trace", trace], timeout=3000)
    hs = split(core.read_ndjson(trace))
    if len(hs) < num:
        raise core.MachineryError("harness recorded %d of %d histories" % (len(hs), num))

    lap("record")
    # first-touch schedules from the implementation-level layer, forced on fresh maps
    cases = first_touch_cases(ctx, quick, lap)
    cpath, ftrace = os.path.join(ctx.work, "ftcases.ndjson"), os.path.join(ctx.work, "ft.ndjson")
    core.write_ndjson(cpath, cases)
    ctx.vh(["C32", "force", "--in", cpath, "--trace", ftrace, "--base", 1000000], timeout=3000)
    lap("force")
    fevs = core.read_ndjson(ftrace)
    end = fevs[-1] if fevs and fevs[-1]["a"] == "End" else {}
    fhs = split(fevs)
    ctx.extra["first_touch_schedules"].update({"forced": len(fhs), "not_forced": end.get("not_forced"), "why_not": end.get("why")})
    if len(fhs) < 0.95 * len(cases):
        raise core.MachineryError("only %d of %d first-touch schedules could be forced: %s" % (len(fhs), len(cases), end))
    # how often the real map let a second goroutine into the constructor of one slot is not constrained by the
    # statement; it is reported (the pinned code: never more constructor calls than slots touched)
    ctx.extra["first_touch_schedules"]["constructor_calls"] = sum(r.get("ctors", 0) for (r, _) in fhs)
    nrec = len(hs)
    hs = hs + fhs
    byi = {r["i"]: (r, evs) for (r, evs) in hs}
    ctx.rule = ("concurrent histories (2..4 goroutines x 3..5 calls, keys k1..k3, values 1..9; objects: single, sharded 2/4/64, deep "
                "2x2/4x4, Locked[int]) + forced histories (Traverse held, counter gate, first-touch schedules of LockedMapShards.tla "
                "on fresh int-keyed sharded 2/4/64, deep 2x2/3x2x2, nested 2x2 maps); non-trivial = at least one call started while "
                "another was pending; distinct by the logged event sequence")
    novl = 0
    for (r, evs) in hs:
        ov = overlapping(evs)
        novl += 1 if ov else 0
        ctx.case([r.get("kind"), [[e["a"], e.get("c"), e.get("op"), e.get("k"), e.get("md"), e.get("v"), e.get("r")] for e in evs]],
                 nontrivial=ov > 0, sample={"kind": r.get("kind"), "forced": r.get("forced", ""), "history": brief(evs)[:24]})
    ctx.traces += len(hs)
    ctx.extra["histories"] = len(hs)
    ctx.extra["histories_with_overlapping_calls"] = novl
    ctx.extra["forced_histories"] = sum(1 for (r, _) in hs if r.get("forced"))

    # 1. linearizability (Len answers during the history not constrained), final Map(), final Len()
    notlin, finallen = set(), {}
    CH = 2000
    chunk, lines = [], 0
    for n, hh in enumerate(hs):        # chunks of <= 4000 histories / 80000 trace lines
        chunk.append(hh)
        lines += 1 + len(hh[1])
        if len(chunk) >= 2 * CH or lines >= 80000 or n == len(hs) - 1:
            nl, fl, _ = tlc_hist(ctx, chunk, "LockedMapTrace.cfg")
            notlin |= nl
            finallen.update(fl)
            chunk, lines = [], 0

    lap("linearizability")
    # 2. diagnosis of the histories without a linearization: alone, with Traverse unconstrained;
    #    otherwise the call at the first line no path explains
    alln = sorted(notlin)
    ctx.extra["histories_not_linearizable"] = len(alln)
    ctx.extra["histories_not_linearizable_by_class"] = {}
    diag, per = [], {}
    for i in alln:      # at most three per class of object / forced family, twelve in all
        cl = "%s/%s" % (kind_class(byi[i][0]["kind"]), byi[i][0].get("forced", "random"))
        ctx.extra["histories_not_linearizable_by_class"][cl] = ctx.extra["histories_not_linearizable_by_class"].get(cl, 0) + 1
        per[cl] = per.get(cl, 0) + 1
        if per[cl] <= 3 and len(diag) < 12:
            diag.append(i)
    nl2all = tlc_hist(ctx, [byi[i] for i in diag], "LockedMapTrace_notrav.cfg")[0] if diag else set()
    for i in diag:
        r, evs = byi[i]
        nl2 = nl2all
        kindc = kind_class(r["kind"])
        ft = "first-touch;" if r.get("forced") == "first-touch" else ""
        twice = [e for e in evs if e["a"] == "Call" and e["op"] == "Traverse" and len(e["r"]) > 3]
        if twice:
            key = "traverse-visits-key-twice(%s)" % kindc
            what = "Traverse on %s handed one key to the callback twice" % r["kind"]
        elif i not in nl2:
            key = "sharded-traverse-not-atomic" if kindc == "sharded" else "traverse-not-atomic(%s)" % kindc
            what = ("no single point explains what Traverse visited on %s%s" % (r["kind"], " (forced)" if r.get("forced") else ""))
        else:
            _, _, hw = tlc_hist(ctx, [byi[i]], "LockedMapTrace.cfg")
            ev = evs[hw - 2] if hw and 2 <= hw <= len(evs) + 1 else {}
            op = "?"
            if ev.get("a") == "Ret":
                op = [e["op"] for e in evs if e["a"] == "Call" and e["c"] == ev["c"]][0]
            elif ev.get("a") == "Final":
                op = "final-Map"
            key = "not-linearizable(%s;%s%s)" % (kindc, ft, op)
            what = "history on %s has no linearization; first unexplained event: %s" % (r["kind"], ev)
            if ft:
                what += " (fresh map, commands %s, layout %s, %s constructor calls)" % (
                    " ".join(r.get("cmds", [])), r.get("layout"), r.get("ctors"))
        ctx.violation(key, "%s: %s" % (what, brief(evs)[:40]), {"reset": r, "history": evs})
    if len(alln) > len(diag):
        ctx.extra["histories_not_diagnosed"] = len(alln) - len(diag)

    lap("diagnosis")
    # 3. sentence 2: the reported length after the operations finished
    for i, (got, want) in sorted(finallen.items()):
        r, evs = byi[i]
        key = "len-after-empty" if empty_races_mutator(evs) else (
            "final-len-differs(first-touch)" if r.get("forced") == "first-touch" else "final-len-differs")
        ctx.violation(key, "Len() = %d with %d keys in Map() after the history on %s%s: %s" % (
            got, want, r["kind"], " (forced %s)" % r["forced"] if r.get("forced") else "", brief(evs)[:40]),
            {"reset": r, "history": evs})

    # 4. stronger reading (reported only): Len answers during the history constrained as well
    nls, _, _ = tlc_hist(ctx, hs[:min(CH, nrec)], "LockedMapTrace_strict.cfg")
    extra = sorted(nls - notlin)
    ctx.extra["stronger_reading_len_during_history"] = {
        "histories_checked": min(CH, nrec), "not_linearizable_with_len_constrained": len(extra),
        "example": brief(byi[extra[0]][1])[:40] if extra else None}
    lap("stronger_reading")
    ctx.assumptions = [
        "answers of Len calls made while other calls are pending are not constrained (the statement constrains the length after "
        "the operations finished); the stronger reading is counted in stronger_reading_len_during_history",
        "after Close, Get and Remove may either return the closed error or answer like an empty map (single and sharded maps differ)",
        "callbacks are taken from a fixed menu (set/inc/remove/ignore/error)",
    ]
