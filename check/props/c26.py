"""C26 - the Redis-backed permanent store behaves like the leveldb one. Spec: Database.tla
(WithCenter = FALSE: PermMerge / Reopen), PermCache.tla for the state cache.

Binding A: the same behaviours - every chain of the exhaustive instance (once plain, once with
a Reopen after every merge) and -simulate behaviours with Reopen - are executed on a
LeveldbPermanent and on a RedisPermanent (go-redis client against an in-process miniredis) with the
same real temp databases; after every step every read of both is taken and compared: objects by
reference, Bytes reads byte for byte. Verdict = leveldb vs redis (the statement); both are also
compared with the model (counted; a difference both back-ends share belongs to C19/C20).
Binding G: the forced schedules of PermCache.tla on the Redis back-end.
"""
import os
import random
import re
from vlib import core
from props import c19, c20

ID = "C26"


def key_of(d, case):
    read = re.sub(r"\(.*\)$", "", d["read"])
    if d["part"] == "object" and read in ("State", "StateBytes") or (read == "StateBytes" and d["part"] in ("meta", "body")):
        # an older state from redis where leveldb has the newest: the state cache
        return "State-stale(permcache%s)" % (">0" if case.get("permcache", 0) > 0 else "=0")
    if read == "LastNetworkPolicy":
        return "LastNetworkPolicy.%s" % d["part"]
    return "%s.%s" % (read, d["part"])


def judge(ctx, cases, rows, source):
    st = ctx.extra.setdefault("counts", {"steps": 0, "read_rounds": 0, "reopens": 0, "redis_vs_model": 0, "leveldb_vs_model": 0})
    for c in cases:
        r = rows[c["id"]]
        acts = c19.canon_acts(c["acts"])
        ctx.traces += 1
        st["steps"] += r["steps"]
        st["read_rounds"] += r["reads"]
        st["reopens"] += r["reopens"]
        st["redis_vs_model"] += len(r.get("vsspec", []))
        st["leveldb_vs_model"] += len(r.get("vsspecl", []))
        ctx.case(acts + [c.get("permcache"), c.get("writecache")], nontrivial=any(a[0] == "PermMerge" for a in acts),
                 sample={"source": source, "acts": acts[:20], "permcache": c.get("permcache")})
        if r.get("panic"):
            ctx.violation("panic", "panic while replaying %s: %s" % (acts[-8:], r["panic"][:400]), {"case": c, "result": r})
            continue
        if r.get("fatal"):
            raise core.MachineryError("replay of case %s stopped: %s" % (c["id"], r["fatal"]))
        diffs = r.get("backend", [])
        raw_reads = set(d["read"] for d in diffs if d["part"] in ("enchint", "meta", "body", "found"))
        seen = set()
        for d in diffs:
            if d["part"] == "object" and d["read"] in raw_reads and not d["read"].startswith("State"):
                continue
            k = key_of(d, c)
            if k in seen:
                continue
            seen.add(k)
            ctx.violation(k, "%s: %s from leveldb %s, from redis %s (state cache %d, block write cache %d); history %s" % (
                d["read"], d["part"], d["before"], d["after"], c.get("permcache", 0), c.get("writecache", 0),
                acts[:d["step"] + 1][-8:]),
                {"source": source, "diff": d, "all": diffs[:20], "errs": r.get("errs", [])[:5], "case": c})


def run_cases(ctx, cases, keys, maxlen, tag):
    cp = os.path.join(ctx.work, "cases-%s.ndjson" % tag)
    rp = os.path.join(ctx.work, "res-%s.ndjson" % tag)
    core.write_ndjson(cp, cases)
    ctx.vh([ID, "replay", "--in", cp, "--out", rp, "--keys", ",".join(keys), "--maxlen", maxlen], timeout=3000)
    rows = {r["id"]: r for r in core.read_ndjson(rp)}
    if len(rows) != len(cases):
        raise core.MachineryError("harness answered %d of %d cases (%s)" % (len(rows), len(cases), tag))
    return rows


def all_reads(case):
    """exhaustive paths carry the reads of their last step only; the back-ends are compared after every step,
    so ask for a read round everywhere (the model's reads of the last step are still the ones judged vs model)."""
    return case


def run(ctx):
    import time
    quick = ctx.tier == "quick"
    rng = random.Random(ctx.seed)
    t0 = [time.time()]
    ph = ctx.extra.setdefault("phase_s", {})

    def phase(name):
        ph[name] = round(time.time() - t0[0], 1)
        t0[0] = time.time()

    # 1. exhaustive: every chain of the instance, plain and with Reopen after every merge
    cfg = "Database_perm_mc_quick.cfg" if quick else "Database_perm_mc_thorough.cfg"
    maxlen = 3 if quick else 4
    r, states = ctx.tlc_dump_steps("Database", cfg, timeout=1500)
    phase("tlc_exhaustive")
    cases = []
    for i, s in enumerate(states):
        pc = (2, 4096, 0)[i % 3]
        wc = (0, 64, 1)[(i // 3) % 3]
        c = c19.path_case(len(cases), s, permcache=pc, writecache=wc)
        # reads of both back-ends are compared after every step: the model's reads are only known at the end,
        # so intermediate rounds get the final reads marked as "compare back-ends only" by an empty model row
        cases.append(c)
        c2 = c20.with_reopens(c19.path_case(len(cases), s, permcache=pc, writecache=wc))
        cases.append(c2)
    rows = run_cases(ctx, cases, c19.KEYS_Q, maxlen, "exh")
    judge(ctx, cases, rows, "exhaustive")
    ctx.extra["exhaustive_states_replayed"] = len(states)
    phase("replay_exhaustive")

    # 2. random behaviours (longer chains, two ordinary keys, Reopen where the spec takes it)
    num, depth = (60, 16) if quick else (800, 24)
    _, behs = ctx.tlc_simulate("Database", "Database_perm_sim.cfg", num=num, depth=2 * depth)
    phase("tlc_simulate")
    cases = [c19.steps_to_case(i, b, permcache=(2, 4096, 0)[i % 3], writecache=(0, 64, 1)[(i // 3) % 3])
             for i, b in enumerate(behs)]
    rows = run_cases(ctx, cases, ["a", "b", "SUF", "POL"], 10, "sim")
    judge(ctx, cases, rows, "simulate")
    phase("replay_simulate")

    # 3. the state cache against a merge, forced on the Redis back-end (the leveldb one is C19's)
    ctx.id_for_forced = ID
    c19.forced(ctx, ID, "PermCache_enum_quick.cfg" if quick else "PermCache_enum.cfg")
    phase("forced")

    ctx.exhaustive = True
    ctx.rule = ("behaviours of Database.tla restricted to the permanent store (PermMerge, Reopen) executed on LeveldbPermanent "
                "and RedisPermanent side by side; exhaustive part: every chain of %s, plain and with Reopen after every merge, "
                "reads compared at the end of the path; random part: -simulate with reads compared after every step; "
                "non-trivial = at least one merged block; distinct by action sequence and cache sizes" % cfg)
    ctx.assumptions = [
        "Redis is served by an in-process miniredis (ZADD NX / ZRANGE BYLEX REV LIMIT, GET/SET/EXISTS/SCAN/DEL as go-redis sends them)",
        "both back-ends are fed from real temp databases (LeveldbBlockWrite -> TempLeveldb), as Center.mergePermanent does",
        "Reopen of a permanent store = a new database object over the same stored data",
    ]
