"""C28 - signed objects detect any change to signed content.

Spec: SignedObjects.tla - ideal cryptography over a schema of every kind of signed object
(every leaf of the encoded form classified as signed content or not, with the hashed object it
belongs to); the catalogue of mutations (a content leaf replaced, a fact relabelled to another
kind, another network id, signs dropped / duplicated / reordered, twins of different kinds) with
the verdict the ideal model gives (rejected) and the verdict a transcription of the code's hash
functions and IsValid checks gives. Binding A: every state of the module is one case;
harness/internal/c28 builds the real signed object (real keys, real signatures), encodes it with
the real JSON encoder, applies the mutation on the decoded tree, decodes with the real encoder
and calls IsValid(networkID). Accepted (or a panic) where the statement demands rejection is a
violation."""
import os
from vlib import core

ALIAS = {"empty-proposal-init-ballot-fact": "empty-proposal-fact", "suffrage-expel-fact": "expel-fact"}


def alias(scope):
    return ALIAS.get(scope, scope)


def schema_leaves(ctx):
    """(kind, path) of every leaf the schema of SignedObjects.tla declares, parsed from the module text"""
    import re
    txt = open(os.path.join(core.SPEC, "SignedObjects.tla")).read()
    out = {}
    kind = None
    for line in txt.splitlines():
        m = re.match(r'\s*\[kind \|-> "([^"]+)", nsigns', line)
        if m:
            kind = m.group(1)
            out[kind] = set()
            continue
        m = re.match(r'\s*\[p \|-> <<(.*?)>>, cls', line)
        if m and kind:
            out[kind].add(".".join(x.strip().strip('"') for x in m.group(1).split(",")))
    return out


def check_schema(ctx):
    """the schema must name exactly the leaves the real encoder produces - otherwise the catalogue is not
    the specification of what has to be bound"""
    import re
    p = os.path.join(ctx.work, "leaves.ndjson")
    ctx.vh(["C28", "leaves", "--seed", ctx.seed, "--out", p])
    declared = schema_leaves(ctx)
    gaps = []
    for row in core.read_ndjson(p):
        if row["valid"]:
            raise core.MachineryError("baseline object %s is not valid: %s" % (row["kind"], row["valid"]))
        real = set(re.sub(r"\[(\d+)\]", r".\1", x["path"]) for x in row["leaves"])
        d = declared.get(row["kind"], set())
        for x in sorted(real - d):
            gaps.append("%s: leaf %s not in the schema" % (row["kind"], x))
        for x in sorted(d - real):
            gaps.append("%s: schema leaf %s not produced by the encoder" % (row["kind"], x))
    if gaps:
        raise core.MachineryError("SignedObjects.tla schema out of date:\n" + "\n".join(gaps[:20]))


def run(ctx):
    quick = ctx.tier == "quick"
    r, steps = ctx.tlc_dump_steps("SignedObjects", "SignedObjects_mc_quick.cfg" if quick else "SignedObjects_mc_thorough.cfg",
                                  timeout=900)
    ctx.exhaustive = True
    if not steps:
        raise core.MachineryError("empty catalogue")
    check_schema(ctx)
    cases = os.path.join(ctx.work, "cases.ndjson")
    core.write_ndjson(cases, steps)
    passes = [ctx.seed] if quick else [ctx.seed * 1000 + i for i in range(25)]
    accepted = {}        # (scope, rel/mut...) bookkeeping for key naming
    bad = []
    noops = 0
    for seed in passes:
        res = os.path.join(ctx.work, "res%d.ndjson" % seed)
        ctx.vh(["C28", "replay", "--seed", seed, "--in", cases, "--out", res], timeout=900)
        rows = core.read_ndjson(res)
        if len(rows) != len(steps):
            raise core.MachineryError("harness answered %d of %d cases" % (len(rows), len(steps)))
        for c, row in zip(steps, rows):
            out = row["outcome"]
            if out == "error":
                raise core.MachineryError("case %s could not be run: %s" % (c, row["err"]))
            canon = [c["kind"], c["mut"], c["path"], c["to"]]
            ctx.case(canon + [seed], nontrivial=True,
                     sample={"case": {k: c[k] for k in ("kind", "mut", "path", "to", "ideal", "impl")}, "outcome": out})
            if out == "noop":
                noops += 1
                continue
            rejected = out.startswith("rejected")
            if c["cls"] == "weak":
                if not rejected:
                    ctx.extra.setdefault("weak_reading_accepted", {})
                    k = "%s:%s" % (c["kind"], ".".join(c["path"]))
                    ctx.extra["weak_reading_accepted"][k] = row.get("toval", "")
                continue
            if rejected != c["impl"]:
                d = ctx.extra.setdefault("transcription_differs_from_code", {})
                k = "%s %s %s %s: transcription says %s, code %s" % (c["kind"], c["mut"], ".".join(c["path"]), c["to"],
                                                                      "rejected" if c["impl"] else "accepted", out)
                d[k] = d.get(k, 0) + 1
            if not rejected:
                bad.append((c, row, seed))
                if c["mut"] == "field":
                    accepted.setdefault(c["scope"], set()).add(c["rel"])
        ctx.traces += len(steps)
    # a hashed object whose stored hash may be changed freely is never compared with a recomputed hash
    unchecked = {s for s, rels in accepted.items() if "hash" in rels}
    for (c, row, seed) in bad:
        scope = c["scope"]
        if row["outcome"] == "panic":
            key = "panic;%s(%s->%s)" % (c["mut"], alias(scope) or c["kind"], c["to"]) if c["mut"] in ("kind", "twin") else \
                "panic;%s;%s" % (c["kind"], ".".join(c["path"]) or c["mut"])
        elif c["mut"] in ("kind", "twin"):
            key = "kind-not-hashed(%s->%s)" % (scope, c["to"])
        elif c["mut"] == "field" and scope in unchecked:
            key = "%s;hash-unchecked" % alias(scope)
        elif c["mut"] == "field" and scope:
            key = "%s;%s" % (alias(scope), c["rel"])
        elif c["mut"] == "field":
            key = "%s;%s" % (c["kind"], ".".join(c["path"]))
        else:
            key = "%s;%s" % (c["kind"], c["mut"])
        what = "%s of %s%s%s: %s -> %s is %s by decode + IsValid%s" % (
            c["mut"], c["kind"], (" at " + ".".join(c["path"])) if c["path"] else "", (" to " + c["to"]) if c["to"] else "",
            row.get("from", "")[:24], row.get("toval", "")[:24], row["outcome"], (": " + row["err"].split("\n")[0][:160]) if row["err"] else "")
        ctx.violation(key, what, {"case": c, "result": row, "object_seed": seed})
    ctx.extra["mutations_without_effect_skipped"] = noops
    ctx.rule = ("one case = (kind of signed object, mutation class, leaf or target kind) of the catalogue of SignedObjects.tla "
                "applied to a freshly built real object (per pass other keys-independent values: heights, hashes, tokens, "
                "texts); all cases non-trivial; distinct by (kind, mutation, path, target, object seed)")
    ctx.assumptions = [
        "the item type of a block map is judged by the weaker reading (the code documents that only checksums are signed): "
        "acceptances are reported in weak_reading_accepted, not alarmed",
        "the unsigned envelope of a voteproof carried by a ballot (id, finished_at, majority, point, threshold) is not signed content",
        "object shapes are fixed (number of signs, expels, operations); values vary per pass",
    ]
