"""C28 - signed objects detect any change to signed content.

Spec: SignedObjects.tla - ideal cryptography over a schema of every kind of signed object
(every leaf of the encoded form classified as signed content or not, with the hashed object it
belongs to); the catalogue of mutations (a content leaf replaced, a fact relabelled to another
kind, another network id, signs dropped / duplicated / reordered, twins of different kinds) with
the verdict the ideal model gives (rejected) and the verdict a transcription of the code's hash
functions and IsValid checks gives. Binding A: every state of the module is one case;
harness/internal/c28 builds the real signed object (real keys, real signatures), encodes it with
the real JSON encoder, applies the mutation on the decoded tree, decodes with the real encoder
and calls IsValid(networkID). Accepted (or a panic) where the statement demands rejection is a
violation.

Validation history: the module also models the validating process as something that may carry state
from one validation to the next (a parameter: what it remembers, under which key, process-wide or
inside the decoded instance) and shows that only a memo keyed on too little (or written before the
check) makes a verdict depend on what was validated before; the histories of the reference
validator (genuine -> mutated -> genuine, mutated -> genuine -> mutated, fresh decodes and the
earlier instance; thorough: every history of 3 validations) are replayed for EVERY catalogue case in
ONE harness process, each on an object the process has not seen before. The genuine object must pass
at every position; the mutated one must get, at every position, the verdict it gets in isolation."""
import concurrent.futures
import copy
import os
from vlib import core

ALIAS = {"empty-proposal-init-ballot-fact": "empty-proposal-fact", "suffrage-expel-fact": "expel-fact"}


def alias(scope):
    return ALIAS.get(scope, scope)


def schema_leaves(ctx):
    """(kind, path) of every leaf the schema of SignedObjects.tla declares, parsed from the module text"""
    import re
    txt = open(os.path.join(core.SPEC, "SignedObjects.tla")).read()
    out = {}
    kind = None
    for line in txt.splitlines():
        m = re.match(r'\s*\[kind \|-> "([^"]+)", nsigns', line)
        if m:
            kind = m.group(1)
            out[kind] = set()
            continue
        m = re.match(r'\s*\[p \|-> <<(.*?)>>, cls', line)
        if m and kind:
            out[kind].add(".".join(x.strip().strip('"') for x in m.group(1).split(",")))
    return out


def check_schema(ctx):
    """the schema must name exactly the leaves the real encoder produces - otherwise the catalogue is not
    the specification of what has to be bound"""
    import re
    p = os.path.join(ctx.work, "leaves.ndjson")
    ctx.vh(["C28", "leaves", "--seed", ctx.seed, "--out", p])
    declared = schema_leaves(ctx)
    gaps = []
    for row in core.read_ndjson(p):
        if row["valid"]:
            raise core.MachineryError("baseline object %s is not valid: %s" % (row["kind"], row["valid"]))
        real = set(re.sub(r"\[(\d+)\]", r".\1", x["path"]) for x in row["leaves"])
        d = declared.get(row["kind"], set())
        for x in sorted(real - d):
            gaps.append("%s: leaf %s not in the schema" % (row["kind"], x))
        for x in sorted(d - real):
            gaps.append("%s: schema leaf %s not produced by the encoder" % (row["kind"], x))
    if gaps:
        raise core.MachineryError("SignedObjects.tla schema out of date:\n" + "\n".join(gaps[:20]))


def subctx(ctx, k):
    """a view of ctx for one TLC run that goes on at the same time as another: own work directory and counters"""
    c = copy.copy(ctx)
    c.work = os.path.join(ctx.work, "p%s" % k)
    os.makedirs(c.work)
    c.states = c.transitions = 0
    c.tlc_cmds = []
    c._ntlc = 0
    return c


def pattern(hist, upto=None):
    """G>M>G=  ('=': the instance decoded earlier from the same bytes is validated again, otherwise a fresh decode)"""
    hist = hist if upto is None else hist[:upto + 1]
    return ">".join(e["r"] + ("=" if e["copy"] == "same" else "") for e in hist)


def mutname(c):
    if c["mut"] == "field":
        return (alias(c["scope"]) + "." + c["rel"]) if c["scope"] else ".".join(c["path"])
    if c["mut"] == "kind":
        return "kind(%s->%s)" % (c["scope"], c["to"])
    return c["mut"]


def judge_histories(ctx, c, row, seed, canon):
    """every validation of every history of the case against the isolated verdicts; at most one report per case
    (the shortest deviating history). Returns the number of validations."""
    iso = row["outcome"]                     # the mutated object validated first in its life: accepted / rejected-* / panic
    iso_rejected = iso.startswith("rejected")
    n = 0
    found = None
    for hist, res in zip(c["hists"], row["hists"]):
        if len(res) != len(hist):
            raise core.MachineryError("history %s of %s could not be run: %s" % (pattern(hist), canon, res))
        ctx.case(canon + [pattern(hist), seed], nontrivial=True)
        for i, (e, o) in enumerate(zip(hist, res)):
            n += 1
            out = o["outcome"]
            if out == "error":
                raise core.MachineryError("history %s of %s could not be run: %s" % (pattern(hist), canon, o.get("err")))
            if e["r"] == "G":
                dev = None if out == "accepted" else "genuine-object-%s" % ("panics" if out == "panic" else "rejected")
            elif out == "panic" and iso != "panic":
                dev = "mutated-object-panics"
            elif iso_rejected and not out.startswith("rejected"):
                dev = "mutated-object-accepted"
            elif not iso_rejected and out.startswith("rejected"):
                # accepted alone (reported there), rejected here: history dependent, but nothing the statement forbids
                d = ctx.extra.setdefault("accepted_alone_rejected_in_history", {})
                k = "%s %s %s" % (c["kind"], mutname(c), pattern(hist, i))
                d[k] = d.get(k, 0) + 1
                dev = None
            else:
                dev = None
            # the shortest deviating history; among those the one with the most fresh decodes
            rank = (i, pattern(hist, i).count("="))
            if dev and (found is None or rank < found[5]):
                found = (hist, i, dev, o, res, rank)
    if found:
        hist, i, dev, o, res, _ = found
        if c["cls"] == "weak" and dev == "mutated-object-accepted":
            ctx.extra.setdefault("weak_reading_accepted_in_history", {})["%s:%s" % (c["kind"], ".".join(c["path"]))] = pattern(hist, i)
            return n
        key = "history(%s);%s;%s;%s" % (pattern(hist, i), c["kind"], mutname(c), dev)
        what = ("one process validates %s about one %s (G: the genuine object under its own network id, M: %s; '=': the instance "
                "decoded before, else a fresh decode of the same bytes): validation %d answers %s%s; alone M is %s, G accepted" % (
                    pattern(hist, i), c["kind"],
                    "the same bytes under another network id" if c["mut"] == "netid" else
                    "%s %s%s" % (c["mut"], ".".join(c["path"]), (" -> " + c["to"]) if c["to"] else ""),
                    i + 1, o["outcome"], (": " + o["err"].split("\n")[0][:160]) if o.get("err") else "", iso))
        ctx.violation(key, what, {"case": {k: v for k, v in c.items() if k != "hists"}, "history": hist, "observed": res,
                                  "isolated": row["outcome"], "object_seed": seed})
    return n


def run(ctx):
    quick = ctx.tier == "quick"
    main, cand = subctx(ctx, "main"), subctx(ctx, "cand")
    with concurrent.futures.ThreadPoolExecutor(max_workers=2) as ex:
        f1 = ex.submit(main.tlc_dump_steps, "SignedObjects",
                       "SignedObjects_mc_quick.cfg" if quick else "SignedObjects_mc_thorough.cfg", timeout=900)
        # expected counterexample: a validator that remembers accepted requests under a key without one component
        f2 = ex.submit(cand.tlc, "SignedObjects", "SignedObjects_hist_cand.cfg", allow_violation=True, timeout=900, count=False)
        (r, steps), rc = f1.result(), f2.result()
    for c in (main, cand):
        ctx.states += c.states
        ctx.transitions += c.transitions
        ctx.tlc_cmds += c.tlc_cmds
    if rc.violated != "HistoryIndependent":
        raise core.MachineryError("HistoryIndependent is not violated over the validator space (SignedObjects_hist_cand.cfg): "
                                  "the history layer lost its sensitivity\n" + rc.out[-2000:])
    ctx.extra["model_candidate_memo_keyed_on_too_little"] = "HistoryIndependent violated (as it must be)"
    ctx.exhaustive = True
    hsteps = [s for s in steps if "hist" in s]
    steps = [s for s in steps if "hist" not in s]
    if not steps:
        raise core.MachineryError("empty catalogue")
    families = {}
    for s in hsteps:
        families.setdefault((s["comp"], s["rej"]), []).append(s["hist"])
    for k in families:
        families[k].sort(key=pattern)
    for c in steps:
        if c["mut"] == "twin":
            continue
        fam = families.get((c["comp"], c["impl"]))
        if not fam:
            raise core.MachineryError("no history emitted for the class %s of case %s" % ((c["comp"], c["impl"]), c))
        c["hists"] = fam
    ctx.extra["history_family"] = {"%s;%s" % (k[0], "rejected" if k[1] else "accepted"): [pattern(h) for h in v]
                                   for k, v in sorted(families.items())}
    check_schema(ctx)
    cases = os.path.join(ctx.work, "cases.ndjson")
    core.write_ndjson(cases, steps)
    # thorough: every history of the family on the first 8 passes, the alternating ones (the quick family) on the others
    alt_steps = [dict(c, hists=[h for h in c["hists"] if all(a["r"] != b["r"] for a, b in zip(h, h[1:]))]) if "hists" in c else c
                 for c in steps]
    alt_cases = os.path.join(ctx.work, "cases_alt.ndjson")
    core.write_ndjson(alt_cases, alt_steps)
    full_steps = steps
    passes = [ctx.seed] if quick else [ctx.seed * 1000 + i for i in range(25)]
    accepted = {}        # (scope, rel/mut...) bookkeeping for key naming
    bad = []
    noops = 0
    nhist = nvalid = 0
    for seed in passes:
        res = os.path.join(ctx.work, "res%d.ndjson" % seed)
        steps = full_steps if passes.index(seed) < 8 else alt_steps
        ctx.vh(["C28", "replay", "--seed", seed, "--in", cases if steps is full_steps else alt_cases, "--out", res], timeout=900)
        rows = core.read_ndjson(res)
        if len(rows) != len(steps):
            raise core.MachineryError("harness answered %d of %d cases" % (len(rows), len(steps)))
        for c, row in zip(steps, rows):
            out = row["outcome"]
            if out == "error":
                raise core.MachineryError("case %s could not be run: %s" % (c, row["err"]))
            canon = [c["kind"], c["mut"], c["path"], c["to"]]
            ctx.case(canon + [seed], nontrivial=True,
                     sample={"case": {k: c[k] for k in ("kind", "mut", "path", "to", "ideal", "impl")}, "outcome": out})
            if out == "noop":
                noops += 1
                continue
            rejected = out.startswith("rejected")
            if "hists" in c:
                if len(row.get("hists", [])) != len(c["hists"]):
                    raise core.MachineryError("harness answered %d of %d histories of %s" % (len(row.get("hists", [])), len(c["hists"]), canon))
                n = judge_histories(ctx, c, row, seed, canon)
                nhist += len(c["hists"])
                nvalid += n
            if c["cls"] == "weak":
                if not rejected:
                    ctx.extra.setdefault("weak_reading_accepted", {})
                    k = "%s:%s" % (c["kind"], ".".join(c["path"]))
                    ctx.extra["weak_reading_accepted"][k] = row.get("toval", "")
                continue
            if rejected != c["impl"]:
                d = ctx.extra.setdefault("transcription_differs_from_code", {})
                k = "%s %s %s %s: transcription says %s, code %s" % (c["kind"], c["mut"], ".".join(c["path"]), c["to"],
                                                                      "rejected" if c["impl"] else "accepted", out)
                d[k] = d.get(k, 0) + 1
            if not rejected:
                bad.append((c, row, seed))
                if c["mut"] == "field":
                    accepted.setdefault(c["scope"], set()).add(c["rel"])
        ctx.traces += len(steps)
    ctx.traces += nhist
    ctx.extra["histories_replayed"] = nhist
    ctx.extra["validations_in_histories"] = nvalid
    # a hashed object whose stored hash may be changed freely is never compared with a recomputed hash
    unchecked = {s for s, rels in accepted.items() if "hash" in rels}
    for (c, row, seed) in bad:
        scope = c["scope"]
        if row["outcome"] == "panic":
            key = "panic;%s(%s->%s)" % (c["mut"], alias(scope) or c["kind"], c["to"]) if c["mut"] in ("kind", "twin") else \
                "panic;%s;%s" % (c["kind"], ".".join(c["path"]) or c["mut"])
        elif c["mut"] in ("kind", "twin"):
            key = "kind-not-hashed(%s->%s)" % (scope, c["to"])
        elif c["mut"] == "field" and scope in unchecked:
            key = "%s;hash-unchecked" % alias(scope)
        elif c["mut"] == "field" and scope:
            key = "%s;%s" % (alias(scope), c["rel"])
        elif c["mut"] == "field":
            key = "%s;%s" % (c["kind"], ".".join(c["path"]))
        else:
            key = "%s;%s" % (c["kind"], c["mut"])
        what = "%s of %s%s%s: %s -> %s is %s by decode + IsValid%s" % (
            c["mut"], c["kind"], (" at " + ".".join(c["path"])) if c["path"] else "", (" to " + c["to"]) if c["to"] else "",
            row.get("from", "")[:24], row.get("toval", "")[:24], row["outcome"], (": " + row["err"].split("\n")[0][:160]) if row["err"] else "")
        ctx.violation(key, what, {"case": {k: v for k, v in c.items() if k != "hists"},
                                  "result": {k: v for k, v in row.items() if k != "hists"}, "object_seed": seed})
    ctx.extra["mutations_without_effect_skipped"] = noops
    ctx.rule = ("one case = (kind of signed object, mutation class, leaf or target kind) of the catalogue of SignedObjects.tla "
                "applied to a freshly built real object (per pass other keys-independent values: heights, hashes, tokens, "
                "texts), alone and in every history of the emitted family (all in one harness process, every history on an "
                "object of its own); all cases non-trivial; distinct by (kind, mutation, path, target, history, object seed)")
    ctx.assumptions = [
        "the item type of a block map is judged by the weaker reading (the code documents that only checksums are signed): "
        "acceptances are reported in weak_reading_accepted, not alarmed",
        "the unsigned envelope of a voteproof carried by a ballot (id, finished_at, majority, point, threshold) is not signed content",
        "object shapes are fixed (number of signs, expels, operations); values vary per pass",
        "validation is read as a function of (object, network id): the genuine object rejected at a later position of a history "
        "is reported like a mutated one accepted there (the verdict must not depend on what was validated before)",
        "histories are bounded: 3 validations about one object (quick: genuine and mutated alternate); state that only shows after "
        "more validations, after eviction from a bounded cache, or between different objects is not explored",
    ]
