"""CONNPOOL - quicstream.ConnectionPool (network/quicstream/client.go) on util.LockedMap.

  1. TLC on spec/ConnPool.tla: sequential model (ConnPool_mc_*.cfg; also the generator of the call scripts) and the
     interleaved model with two caller threads (ConnPool_conc_*.cfg): P1 (one stored connection per address, one running
     dial function per address), P2 (what Dial returns), P3 (Close/CloseAll close what they remove; no live connection is
     unreferenced) hold. ConnPool_p4.cfg: P4 (an error on a handle touches only the connection the handle wraps) is
     violated by the pinned design (onerror removes by ADDRESS); ConnPool_fixed.cfg (onerror by identity) satisfies it.
  2. Binding A: every call script of length MaxCalls over 2 addresses (Dial ok/fail, Close, CloseAll, Stream on any handle
     with nil/harmless/serious error, Break, Stop; Clean ticks cut the script) is replayed on a REAL ConnectionPool with a
     stub dial function creating harness connections; reply, live stored connection per address, Close() flags of all
     connections and the number of dial calls are compared after every call. P1, P2 and P4 are also judged directly on
     the observed states (not against the model).
  3. Forced schedules (dial function parked at a gate): Dial||Dial same address, Dial||Dial other address, Dial||Close,
     Dial||CloseAll, the same with a broken entry stored; size-1 and sharded (4) maps; thorough: the real 3 s clean ticker.
     Judged here in Python by schedule-independent facts (not by a trace spec).
Verdict keys CONNPOOL:<class>; see check/connpool.md."""
import json
import os

from vlib import core

STALE = "stale-handle-error-closes-newer-connection"


def short(steps):
    def s(e):
        a = e["a"]
        if a == "Dial":
            return "Dial(a%d,%s)=%s" % (e["addr"], "ok" if e["x"] else "dialfail", e["ret"] or "err")
        if a == "Close":
            return "Close(a%d)=%s" % (e["addr"], bool(e["ret"]))
        if a == "Stream":
            return "Stream(h%d,%s)" % (e["addr"], ["nil", "harmless", "serious"][e["x"]])
        if a == "Break":
            return "Break(c%d)" % e["addr"]
        return a
    return " ".join(s(e) for e in steps)


def canon(steps):
    return [[e["a"], e["addr"], e["x"]] for e in steps]


def model(ctx):
    q = ctx.tier == "quick"
    r = ctx.tlc("ConnPool", "ConnPool_conc_quick.cfg" if q else "ConnPool_conc_thorough.cfg", timeout=300 if q else 1500)
    ctx.extra["conc_model"] = {"distinct": r.distinct, "generated": r.generated, "wall_s": round(r.wall, 1)}
    r = ctx.tlc("ConnPool", "ConnPool_p4.cfg", allow_violation=True, timeout=300)
    ctx.extra["pinned_model_P4"] = {"cfg": "ConnPool_p4.cfg", "violated": r.violated,
                                    "what": "onerror removes by address: Dial(a) Close(a) Dial(a) Stream(h1,serious) closes connection 2"}
    if r.violated != "P4":
        raise core.MachineryError("ConnPool_p4.cfg: expected P4 violated, got %s" % r.violated)
    if not q:
        r = ctx.tlc("ConnPool", "ConnPool_fixed.cfg", timeout=600)
        ctx.extra["repaired_model_P4"] = {"cfg": "ConnPool_fixed.cfg", "distinct": r.distinct, "holds": True}
    ctx.extra["model_only_counterexamples"] = []


def scripts(ctx):
    # the script model follows the tree: once the stale-handle finding is recorded as fixed (onerror by identity), the
    # expected replies come from the ByIdentity = TRUE configuration and P4 damage is a VIOLATION again
    fixed = (ctx._findings.get("CONNPOOL:" + STALE) or {}).get("status") == "fixed"
    ctx.extra["script_model_onerror"] = "by identity (repaired tree)" if fixed else "by address (pinned tree)"
    suffix = "_id.cfg" if fixed else ".cfg"
    r, steps = ctx.tlc_dump_steps("ConnPool", ("ConnPool_mc_quick" if ctx.tier == "quick" else "ConnPool_mc_thorough") + suffix,
                                  timeout=300 if ctx.tier == "quick" else 2400)
    ctx.extra["script_model"] = {"distinct": r.distinct, "wall_s": round(r.wall, 1)}
    seen, out = set(), []
    for sc in steps:
        cut = len(sc)
        for k, e in enumerate(sc):
            if e["a"] == "Clean":     # clean() cannot be called from outside: the script ends before the tick
                cut = k
                break
        sc = sc[:cut]
        if not sc:
            continue
        key = json.dumps(canon(sc))
        if key in seen:
            continue
        seen.add(key)
        out.append(sc)
    out.sort(key=lambda s: json.dumps(canon(s)))
    return out


def judge_replay(ctx, sc, res):
    steps = sc
    what = short(steps)
    case = {"script": steps, "result": res}
    if res.get("field") == "panic":
        ctx.violation("crash-in-replay", "panic while replaying %s: %s" % (what, res.get("panic", "")[:300]), case)
        return
    if res.get("maxrun", 0) > 1:
        ctx.violation("dial-function-concurrent-for-one-address", "dial function ran %d times at once: %s" % (res["maxrun"], what), case)
    got = res.get("got") or []
    na = len(steps[0]["live"])
    prev_live, prev_closed = [0] * na, [0] * len(steps[0]["closed"])
    stale = False
    for k, g in enumerate(got):
        e = steps[k]
        if e["a"] == "Stream":
            newly = [i + 1 for i, (b, a) in enumerate(zip(prev_closed, g["closed"])) if a and not b]
            lost = [prev_live[i] for i in range(na) if prev_live[i] and g["live"][i] != prev_live[i]]
            others = [c for c in newly + lost if c != g.get("hconn")]
            if others:
                stale = True
                ctx.violation(STALE, "P4: Stream(%s) on handle %d, which wraps connection %d, closed/removed connection %s: %s" % (
                    ["nil", "harmless", "serious"][e["x"]], e["addr"], g.get("hconn"), sorted(set(others)), short(steps[:k + 1])), case)
        if e["a"] == "Dial":
            if g["ret"] > 0:
                if g["live"][e["addr"] - 1] != g["ret"] or (g["ret"] <= len(g["closed"]) and g["closed"][g["ret"] - 1]):
                    ctx.violation("dial-returned-dead-or-unstored-connection",
                                  "P2: Dial returned connection %d; live stored %s closed %s: %s" % (g["ret"], g["live"], g["closed"], short(steps[:k + 1])), case)
            elif g["live"] != prev_live or g["closed"] != prev_closed:
                ctx.violation("failed-dial-changed-state", "P2: failed Dial changed the pool: %s" % short(steps[:k + 1]), case)
        prev_live, prev_closed = g["live"], g["closed"]
    if not res["ok"]:
        k = res.get("k", 0)
        e = steps[k]
        g = got[k] if k < len(got) else {}
        ctx.violation("replay-%s-%s" % (e["a"], res["field"]),
                      "step %d %s: real pool %s, model %s: %s" % (k, e["a"], {f: g.get(f) for f in ("ret", "live", "closed", "nd")},
                                                                 {f: e.get(f) for f in ("ret", "live", "closed", "nd")}, short(steps[:k + 1])), case)
    return stale


def judge_sched(ctx, r):
    n = r["sched"]
    case = {"schedule": r}
    tag = "%s/size%s" % (n, r.get("size"))
    if "panic" in r:
        ctx.violation("crash-in-schedule", "panic in schedule %s: %s" % (tag, r["panic"][:300]), case)
        return
    if "infeasible" in r:
        ctx.extra["schedules_infeasible"] = ctx.extra.get("schedules_infeasible", 0) + 1
        return
    if r.get("maxrun", 0) > 1:
        ctx.violation("dial-function-concurrent-for-one-address", "P1: %s: the dial function ran %d times at once for one address" % (tag, r["maxrun"]), case)
    live = r.get("live") or []
    conns = r.get("conns") or []
    for c in conns:
        if c["id"] not in live and not c["closes"] and not c["broken"]:
            ctx.violation("live-connection-unreferenced", "P3: %s: connection %d is neither stored nor closed nor broken" % (tag, c["id"]), case)
    rets = {e["who"]: e["ret"] for e in (r.get("events") or []) if e.get("e") == "ret"}
    if n == "dial-dial-same":
        if r.get("second_returned_while_first_in_dialf"):
            ctx.violation("second-dial-did-not-wait", "P1: %s: the second Dial of the address returned while the first was inside the dial function" % tag, case)
        if r["dialcalls"] != 1 or rets.get("t1") != rets.get("t2") or not rets.get("t1"):
            ctx.violation("second-dial-did-not-reuse", "P1/P2: %s: dial calls %s, returned %s" % (tag, r["dialcalls"], rets), case)
    elif n == "dial-dial-other":
        k = "other_address_dialled_concurrently_size%s" % r["size"]
        ctx.extra[k] = ctx.extra.get(k, 0) + (1 if r.get("other_address_dialled_concurrently") else 0)
        if sorted(x for x in live) != [1, 2]:
            ctx.violation("dial-lost", "%s: both addresses dialled, live stored %s" % (tag, live), case)
    elif n in ("dial-close", "redial-close"):
        new = 1 if n == "dial-close" else 2
        if r.get("op_returned_while_dial_in_dialf"):
            ctx.violation("close-did-not-wait-for-dial", "%s: Close(addr) returned while Dial(addr) was inside the dial function" % tag, case)
        byid = {c["id"]: c for c in conns}
        if rets.get("t1") != new or rets.get("t2") != 1 or not byid.get(new, {}).get("closes") or live[0] != 0:
            ctx.violation("close-after-dial-wrong", "P3: %s: Dial=%s Close=%s conns %s live %s" % (tag, rets.get("t1"), rets.get("t2"), conns, live), case)
    elif n in ("dial-closeall", "redial-closeall"):
        new = 1 if n == "dial-closeall" else 2
        if rets.get("t1") != new:
            ctx.violation("dial-under-closeall-wrong", "%s: Dial returned %s" % (tag, rets.get("t1")), case)
        k = "closeall_waited_for_dial_size%s" % r["size"]
        ctx.extra[k] = ctx.extra.get(k, 0) + (0 if r.get("op_returned_while_dial_in_dialf") else 1)
    elif n == "ticker":
        ctx.extra["ticker"] = {k: r.get(k) for k in ("close1_removed", "close2_removed", "conn1_closes_before_close")}
        if r.get("close1_removed"):
            ctx.violation("clean-did-not-remove-broken-connection", "after two ticks of the 3 s cleaner the broken connection was still stored", case)
        if not r.get("close2_removed"):
            ctx.violation("clean-removed-healthy-connection", "after two ticks of the 3 s cleaner the healthy connection was gone", case)


def run(ctx):
    ctx.level = "model_checking"
    model(ctx)
    scs = scripts(ctx)
    cases = os.path.join(ctx.work, "scripts.ndjson")
    resf = os.path.join(ctx.work, "results.ndjson")
    core.write_ndjson(cases, [{"i": i, "steps": s} for i, s in enumerate(scs)])
    ctx.vh(["CONNPOOL", "replay", "--in", cases, "--out", resf], timeout=1800)
    results = core.read_ndjson(resf)
    if len(results) != len(scs):
        raise core.MachineryError("replay returned %d results for %d scripts" % (len(results), len(scs)))
    nstale = 0
    for res in results:
        sc = scs[res["i"]]
        if judge_replay(ctx, sc, res):
            nstale += 1
        ctx.case(canon(sc), nontrivial=any(e["a"] == "Dial" and e["ret"] for e in sc), sample={"script": short(sc)})
    ctx.traces += len(scs)
    ctx.extra["scripts_replayed"] = len(scs)
    ctx.extra["scripts_with_stale_handle_damage"] = nstale
    schedf = os.path.join(ctx.work, "sched.ndjson")
    ctx.vh(["CONNPOOL", "sched", "--tier", ctx.tier, "--out", schedf], timeout=900)
    sch = core.read_ndjson(schedf)
    for r in sch:
        judge_sched(ctx, r)
        ctx.case({"sched": r["sched"], "size": r.get("size")}, nontrivial=True, sample={"sched": r["sched"]})
    ctx.traces += len(sch)
    ctx.extra["schedules_forced"] = len(sch)
    ctx.rule = ("one case = one call script (calls with arguments and scripted dial/stream outcomes) replayed on a fresh real "
                "ConnectionPool, or one forced schedule (name, map size); non-trivial = at least one Dial succeeded")
    ctx.exhaustive = True
    ctx.assumptions = [
        "connections are the harness's Streamer implementations (Close() ends their context and never fails); the dial function is the harness's",
        "which connection is stored is observed by Dial with a failing dial function (leaves the map untouched): a stored entry whose context is done is not distinguished from no entry",
        "clean() is replayed only through the real 3 s ticker in the thorough tier; in the scripts a Clean tick ends the script",
        "forced schedules are judged in Python by schedule-independent facts, not by a trace specification",
    ]


def replay(ctx, path):
    d = json.load(open(path))
    case = d["case"]
    if "script" in case:
        cases = os.path.join(ctx.work, "scripts.ndjson")
        resf = os.path.join(ctx.work, "results.ndjson")
        core.write_ndjson(cases, [{"i": case.get("result", {}).get("i", 0), "steps": case["script"]}])
        ctx.vh(["CONNPOOL", "replay", "--in", cases, "--out", resf], timeout=120)
        for res in core.read_ndjson(resf):
            judge_replay(ctx, case["script"], res)
        ctx.traces += 1
        return
    schedf = os.path.join(ctx.work, "sched.ndjson")
    ctx.vh(["CONNPOOL", "sched", "--tier", "quick", "--out", schedf], timeout=300)
    for r in core.read_ndjson(schedf):
        judge_sched(ctx, r)
    ctx.traces += 1
