"""C31 - hint strings and the compatible set (util/hint, util/version.go).
Specs: Hint.tla (grammar of printed hints: abstract readings vs. the first-match split of the
code) and HintSet.tla (cache-free table of the CompatibleSet). Binding A: every final state of
Hint.tla (type x version, printed string) is replayed on NewHint/String/ParseHint/
EnsureParseHint/UnmarshalText/JSON with character-class substitutions; every call sequence of
HintSet.tla (exhaustive length-3/4 histories + -simulate walks of 20 calls) is replayed on the
real CompatibleSet with the cache off and on and every reply compared with the table's."""
import json
import os
import re
from vlib import core

MARKER = re.compile(r"-v\d")


# ------------------------------------------------------------------ hint strings
def judge_strings(ctx, cases, rows, label):
    if len(rows) != len(cases):
        raise core.MachineryError("harness answered %d of %d %s cases" % (len(rows), len(cases), label))
    calls = subs = 0
    tmm = []
    for c, row in zip(cases, rows):
        calls += row["calls"]
        subs += row.get("subs", 0)
        tmm += row.get("transcription_mismatch", [])
        seen = {}
        for f in row.get("fails", []):
            if f["kind"] == "type-grammar":
                key = "type-grammar"
            elif f["kind"] in ("roundtrip", "valid-different"):
                key = "type-contains(-v<digit>)" if f["marker"] else "hint-string;%s;no-marker" % f["kind"]
            else:
                key = "hint-string;%s(%s)" % (f["kind"], f["entry"])
            seen.setdefault(key, []).append(f)
        for key, fs in seen.items():
            f = fs[0]
            if f["kind"] == "type-grammar":
                what = "Type(%r).IsValid says %s, the grammar says %s" % (f["s"], f["got_valid"], not f["got_valid"])
            else:
                worst = [x for x in fs if x["kind"] == "valid-different"] or fs
                f = worst[0]
                what = "%s(%r) of NewHint(%r, %r) = (%r, %r%s)%s [%s]" % (
                    f["entry"], f["s"], f["t"], f["v"], f["got_t"], f["got_v"],
                    ", err=" + f["got_err"][:60] if f.get("got_err") else "",
                    " - a VALID hint that differs from the printed one" if f["got_valid"] else " - not the printed hint",
                    ",".join(sorted(set(x["entry"] for x in fs))))
            ctx.violation(key, what, {"kind": "strings", "case": c, "failures": fs[:6]})
    return calls, subs, tmm


def run_strings(ctx, P):
    r, steps = ctx.tlc_dump_steps("Hint", P["hint_cfg"], timeout=2400)
    cases = os.path.join(ctx.work, "hint_cases.ndjson")
    core.write_ndjson(cases, steps)
    res = os.path.join(ctx.work, "hint_res.ndjson")
    ctx.vh(["C31", "strings", "--in", cases, "--out", res, "--subs", P["subs"]], timeout=1800)
    rows = core.read_ndjson(res)
    calls, subs, tmm = judge_strings(ctx, steps, rows, "Hint.tla")
    nmark = 0
    for c in steps:
        if c["k"] == "hint":
            nmark += 1 if c["marker"] else 0
            ctx.case(["hint", c["t"], c["v"]], True, sample=c)
        else:
            ctx.case(["type", c["s"]], len(c["s"]) > 0)
    ctx.traces += len(steps)
    # the statement evaluated on the transcription of the parser: TLC's counterexample is the candidate
    # the replay above has to reproduce on the real parser
    rs = ctx.tlc("Hint", "Hint_stmt.cfg", allow_violation=True, timeout=900, count=False)
    cand = None
    if rs.safety_violation:
        m = re.findall(r'/\\ ty = (<<.*?>>)\n', rs.out) or re.findall(r'ty = (<<.*?>>)', rs.out)
        v = re.findall(r'ver = (<<.*?>>)', rs.out)
        if m and v:
            cand = ["".join(re.findall(r'"(.)"', m[-1])), "".join(re.findall(r'"(.)"', v[-1]))]
    ctx.extra["statement_on_transcription"] = {"violated_in_model": bool(rs.safety_violation), "tlc_counterexample_type_version": cand}
    if rs.safety_violation and not any(k.endswith("type-contains(-v<digit>)") for k in list(ctx.known_hit) + [v[0] for v in ctx.viol]):
        ctx.extra.setdefault("model_only_counterexamples", []).append(
            {"spec": "Hint.tla", "property": "StatementOnTranscription", "case": cand,
             "note": "the first-match transcription breaks the statement, the real parser did not on any replayed case"})
    # random longer types
    rres = os.path.join(ctx.work, "hint_rnd.ndjson")
    ctx.vh(["C31", "random", "--num", P["random"], "--out", rres], timeout=1800)
    rrows = core.read_ndjson(rres)
    rcases = [dict(r["case"], random=True, i=r["i"], seed=ctx.seed) for r in rrows]
    c2, s2, t2 = judge_strings(ctx, rcases, rrows, "random")
    for c in rcases:
        ctx.case(["hint", c["t"], c["v"]], True)
    ctx.traces += len(rrows)
    ctx.extra["hint_cases"] = {"tlc": len(steps), "tlc_types_with_marker": nmark, "random": len(rrows),
                               "random_with_marker": sum(1 for c in rcases if c["marker"]),
                               "random_max_type_len": max([len(c["t"]) for c in rcases] or [0]),
                               "substituted_variants": subs + s2}
    ctx.extra["transcription_mismatches"] = (tmm + t2)[:10]
    ctx.extra["transcription_mismatch_count"] = len(tmm) + len(t2)
    return calls + c2


# ------------------------------------------------------------------ compatible set
def type_major(s):
    m = re.match(r"^(.*?)-v(\d+)\.", s)
    return (m.group(1), m.group(2)) if m else (s, None)


def classify_set(seq, mm_cache, mm_plain):
    """key of a by-hint lookup mismatch; mm_* = first mismatch with / without the cache"""
    m = mm_plain or mm_cache
    at = m["at"]
    c = seq[at]
    tm = type_major(c["s"])
    if mm_plain is not None:
        pre = [x["s"] for x in seq[:at] if x["op"] == "add" and type_major(x["s"]) == tm and re.search(r"\.\d+-", x["s"])]
        if pre:
            return "set;prerelease-order"
        return "set;lookup(%s)" % c["op"]
    got_found = "found=true" in m["got"]
    if c["found"] and not got_found:
        for x in seq[:at]:
            if x["s"] == c["s"] and x["op"] in ("findtypestr", "findtype") and c["op"] in ("find", "findstr"):
                return "set-cache;error-cached-across-lookup-kinds"
        return "set-cache;registered-not-found(%s)" % c["op"]
    if c["found"] and got_found:
        gv = re.search(r"val=(\d+)", m["got"])
        if gv:
            g = int(gv.group(1))
            if 1 <= g <= at and seq[g - 1]["op"] == "add" and seq[g - 1]["s"] == c["s"] and type_major(seq[g - 1]["s"]) == tm:
                return "set-cache;add-caches-unstored-entry"
        return "set-cache;wrong-entry(%s)" % c["op"]
    return "set-cache;found-unregistered(%s)" % c["op"]


def judge_set(ctx, behs, rows, label):
    if len(rows) != len(behs):
        raise core.MachineryError("harness answered %d of %d %s behaviours" % (len(rows), len(behs), label))
    calls = 0
    stronger = {}
    for seq, row in zip(behs, rows):
        calls += row["calls"]
        by = {m["cache"]: m for m in row.get("mism", [])}
        alarm = {}
        for cache, m in by.items():
            c = seq[m["at"]]
            if c["op"] in ("find", "findstr") and not c["err"]:
                alarm[cache] = m
            else:
                k = "%s%s%s" % (c["op"], "(not a %s)" % ("hint" if c["op"] == "findstr" else "type") if c["err"] and c["op"] != "add" else "",
                                ";cache" if cache else "")
                stronger[k] = stronger.get(k, 0) + 1
        if not alarm:
            continue
        key = classify_set(seq, alarm.get(True), alarm.get(False))
        m = alarm.get(False) or alarm.get(True)
        hist = ["%s(%s)" % (x["op"], x["s"]) for x in seq[:m["at"] + 1]]
        what = "%s: got %s; the table says %s [%s]" % ("; ".join(hist), m["got"], m["want"],
                                                      "cache on and off" if len(alarm) == 2 else ("cache on only" if True in alarm else "cache off only"))
        ctx.violation(key, what, {"kind": "set", "behaviour": seq, "mismatch": row.get("mism")})
    return calls, stronger


def run_set(ctx, P):
    calls = 0
    stronger = {}
    nb = 0
    for cfg in P["set_cfgs"]:
        r, steps = ctx.tlc_dump_steps("HintSet", cfg, timeout=2400)
        behs = [s for s in steps if isinstance(s, list)]
        f = os.path.join(ctx.work, "set_%s.ndjson" % cfg)
        core.write_ndjson(f, behs)
        res = f + ".res"
        ctx.vh(["C31", "set", "--in", f, "--out", res], timeout=1800)
        c, st = judge_set(ctx, behs, core.read_ndjson(res), cfg)
        calls += c
        for k, v in st.items():
            stronger[k] = stronger.get(k, 0) + v
        for b in behs:
            ctx.case(["set"] + [[x["op"], x["s"]] for x in b], any(x["op"] == "add" for x in b),
                     sample=[[x["op"], x["s"], x["found"], x["val"]] for x in b] if nb % 997 == 0 else None)
            nb += 1
        ctx.traces += len(behs)
    _, sims = ctx.tlc_simulate("HintSet", "HintSet_sim.cfg", num=P["sim"], depth=21)
    f = os.path.join(ctx.work, "set_sim.ndjson")
    core.write_ndjson(f, sims)
    res = f + ".res"
    ctx.vh(["C31", "set", "--in", f, "--out", res], timeout=1800)
    c, st = judge_set(ctx, sims, core.read_ndjson(res), "simulate")
    calls += c
    for k, v in st.items():
        stronger[k] = stronger.get(k, 0) + v
    for b in sims:
        ctx.case(["set"] + [[x["op"], x["s"]] for x in b], any(x["op"] == "add" for x in b))
    ctx.traces += len(sims)
    ctx.extra["set_behaviours"] = {"exhaustive": nb, "simulated": len(sims)}
    ctx.extra["stronger_reading_not_alarmed"] = stronger
    return calls


def params(ctx):
    if ctx.tier == "quick":
        return dict(hint_cfg="Hint_mc_quick.cfg", subs=2, random=3000, set_cfgs=["HintSet_mc_quick.cfg"], sim=200)
    return dict(hint_cfg="Hint_mc_thorough.cfg", subs=4, random=40000,
                set_cfgs=["HintSet_mc_thorough.cfg", "HintSet_mc_deep.cfg"], sim=3000)


def run(ctx):
    P = params(ctx)
    ctx.exhaustive = True
    ctx.rule = ("(1) every valid type up to length %s over {a,v,1,-,_,+} x 5 printed versions (each with %d character-class "
                "substitutions) + seeded random types up to 100 characters; distinct by (type, version). (2) every call "
                "sequence of HintSet.tla under %s + %d simulated walks of 20 calls, each replayed with the cache off and on; "
                "non-trivial = contains an Add; distinct by call sequence" % (
                    "4" if ctx.tier == "quick" else "6", P["subs"], ",".join(P["set_cfgs"]), P["sim"]))
    calls = run_strings(ctx, P)
    calls += run_set(ctx, P)
    ctx.extra["real_calls"] = calls
    ctx.assumptions = [
        "printed versions are normalised semver (vMAJOR.MINOR.PATCH[-pre][+build], <= 20 characters) as util.Version.String prints them",
        "only lookups by hint (Find, FindByString of a printed hint) raise alarms; replies of FindBytType / FindBytTypeString, of "
        "lookups with strings of the other kind and of Add are compared too but reported in stronger_reading_not_alarmed",
        "an error instead of 'not found' is the same answer for a lookup that must not find anything",
        "version order = semver precedence (pre-release below release, identifiers in ASCII order, numeric identifiers by value)",
    ]


def replay(ctx, path):
    rep = json.load(open(path))
    c = rep["case"]
    if c.get("kind") == "set":
        f = os.path.join(ctx.work, "one.ndjson")
        core.write_ndjson(f, [c["behaviour"]])
        ctx.vh(["C31", "set", "--in", f, "--out", f + ".res"])
        judge_set(ctx, [c["behaviour"]], core.read_ndjson(f + ".res"), "replayed")
    else:
        k = c["case"]
        f = os.path.join(ctx.work, "one.ndjson")
        if k.get("random"):
            ctx.vh(["C31", "random", "--seed", k["seed"], "--only", k["i"], "--out", f + ".res"])
            rows = core.read_ndjson(f + ".res")
            judge_strings(ctx, [dict(rows[0]["case"], random=True, i=k["i"], seed=k["seed"])], rows, "replayed")
        else:
            core.write_ndjson(f, [k])
            ctx.vh(["C31", "strings", "--in", f, "--out", f + ".res", "--subs", 2])
            judge_strings(ctx, [k], core.read_ndjson(f + ".res"), "replayed")
    ctx.traces += 1
    ctx.rule = "replay of " + path
