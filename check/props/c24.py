"""C24 - ballot and proposal pools: first writer wins, lookups consistent, clean-up depth.
Specs: PoolBallots.tla (atomic actions + statement as action properties / invariants, checked
exhaustively), PoolBallotsRace.tla (SetBallot / SetProposal as check-then-write, every
interleaving of two writers and a reader = a schedule), PoolBallotsTrace.tla (linearizability).
Real code: harness c24 on a real TempPool - sequential replays of TLC -simulate input sequences,
seeded concurrent histories of 2..4 goroutines, and the schedules forced through the verif gate
between Exists and the write. Verdicts only from replies of the real calls."""
import json
import os
from vlib import core


def maximal(hists):
    pref = set()
    for h in hists:
        for k in range(len(h)):
            pref.add(json.dumps(h[:k], sort_keys=True))
    return [h for h in hists if json.dumps(h, sort_keys=True) not in pref]


def split_histories(events):
    out, cur = [], None
    for e in events:
        if e["a"] == "Reset":
            cur = [e]
            out.append(cur)
        else:
            cur.append(e)
    return out


def target(e):
    return json.dumps(e.get("k") or e.get("f") or e.get("t") or {}, sort_keys=True)


def classify(hist, line):
    """hist: events of one history (hist[0] = Reset); line: index in hist of the first event no
    linearization explains. The key names the call and what is wrong with its reply."""
    ev = hist[line]
    if ev["a"] != "ret":
        return "unexplained-event(%s)" % ev["a"]
    call = None
    for e in reversed(hist[:line]):
        if e["a"] == "call" and e["g"] == ev["g"]:
            call = e
            break
    if call is None:
        return "return-without-call"
    op, r = call["op"], ev["r"]
    if ev.get("msg") or r == -9:
        return "failed(%s)" % op
    earlier = []      # (op, reply) of completed calls on the same target before this one
    pend = {}
    cleaned = False
    for e in hist[1:line]:
        if e["a"] == "call":
            pend[e["g"]] = e
            if e["op"].startswith("Clean"):
                cleaned = True
        elif e["a"] == "ret" and e["g"] in pend:
            c = pend.pop(e["g"])
            if target(c) == target(call):
                earlier.append((c["op"], e["r"]))
    if op in ("SetBallot", "SetProposal"):
        # another store of the same key that also reported "stored", anywhere in the history
        winners, pend2 = 0, {}
        for e in hist[1:]:
            if e["a"] == "call":
                pend2[e["g"]] = e
            elif e["a"] == "ret" and e["g"] in pend2:
                c = pend2.pop(e["g"])
                if c["op"] == op and target(c) == target(call) and e["r"] == 1:
                    winners += 1
        anyclean = any(e["a"] == "call" and e["op"].startswith("Clean") for e in hist[1:])
        if r == 1 and winners >= 2 and not anyclean:
            return "two-writers-both-stored(%s)" % op
        if r == 1 and cleaned and any(o == op and x == 1 for o, x in earlier):
            return "clean-removed-too-new(%s)" % op      # stored, cleaned away, stored again
        return ("stored-over-existing(%s)" if r == 1 else "refused-although-empty(%s)") % op
    if op in ("Ballot", "Proposal"):
        if r == -1:
            return "returned-changed-object(%s)" % op
        if r == 0 and cleaned:
            return "clean-removed-too-new(%s)" % op
        if any(o == op and x not in (0, r) for o, x in earlier):
            return "answer-changed(%s)" % op
        return "wrong-answer(%s)" % op
    if op == "ByPoint":
        if r == [0, 0] and cleaned:
            return "clean-removed-too-new(ByPoint)"
        return "bypoint-not-that-proposal"
    return "unexplained(%s)" % op


def brief(hist):
    out = []
    for e in hist[1:]:
        if e["a"] == "call":
            out.append("g%d:%s(%s%s)" % (e["g"], e["op"], target(e), ",%s" % (e.get("v") or e.get("s")) if (e.get("v") or e.get("s")) else ""))
        else:
            out.append("g%d=>%s" % (e["g"], e["r"]))
    return out


def validate(ctx, events, label):
    """linearizability of every history in `events`; a rejected history is reported and taken
    out, the rest is validated again"""
    hists = split_histories(events)
    rejected = 0
    for _ in range(8):
        flat = [e for h in hists for e in h]
        if not flat:
            return rejected
        tp = os.path.join(ctx.work, "trace_%s_%d.ndjson" % (label, rejected))
        core.write_ndjson(tp, [{k: v for k, v in e.items() if k not in ("msg", "i", "kind")} for e in flat])
        ok, res, hw = ctx.tlc_validate_trace("PoolBallotsTrace", "PoolBallotsTrace.cfg", tp, timeout=2400, dfs=True)
        if ok:
            return rejected
        if hw is None:
            raise core.MachineryError("trace %s rejected without a high-water mark:\n%s" % (label, res.out[-3000:]))
        n = 0
        for hi, h in enumerate(hists):
            if hw <= n + len(h):
                line = hw - n - 1
                key = classify(h, line)
                ctx.violation(key, "%s history %s: no linearization explains event %d %s; history: %s" % (
                    label, h[0].get("i"), line, json.dumps(h[line]), " ".join(brief(h))[:900]),
                    {"history": h, "first_unexplained": line, "source": label})
                hists.pop(hi)
                rejected += 1
                break
            n += len(h)
        else:
            raise core.MachineryError("high-water mark %s outside the trace" % hw)
    ctx.extra["more_rejected_%s" % label] = "validation stopped after 8 rejected histories"
    return rejected


def run(ctx):
    quick = ctx.tier == "quick"
    # 1. the atomic specification satisfies the statement (exhaustive)
    ctx.tlc("PoolBallots", "PoolBallots_mc_quick.cfg" if quick else "PoolBallots_mc_thorough.cfg", timeout=2400)
    # 2. check-then-write: with the callers excluded from each other the properties hold ...
    ctx.tlc("PoolBallotsRace", "PoolBallotsRace_locked.cfg", timeout=600)
    # ... without, TLC finds the two-writer interleaving (candidate) ...
    rp = ctx.tlc("PoolBallotsRace", "PoolBallotsRace_pinned_inv.cfg", allow_violation=True, count=False, timeout=600)
    ctx.extra["unlocked_transcription_violates"] = rp.violated
    # ... and every complete interleaving is a schedule to force
    _, steps = ctx.tlc_dump_steps("PoolBallotsRace", "PoolBallotsRace_pinned.cfg", timeout=600)
    mx = maximal(steps)
    scheds = []
    for kind in ("ballot", "proposal"):
        for h in mx:
            scheds.append({"i": len(scheds), "kind": kind, "steps": h})
    if quick:   # a seeded third of them, but every one in which both writers check before a write
        import random
        rng = random.Random(ctx.seed)

        def racy(s):
            st = s["steps"]
            c = [j for j, x in enumerate(st) if x[1] == "check"]
            p = [j for j, x in enumerate(st) if x[1] == "put"]
            return len(c) == 2 and p and c[1] < p[0]
        keep = [s for s in scheds if racy(s) and len([x for x in s["steps"] if x[1] == "read"]) <= 2]
        rest = [s for s in scheds if not racy(s)]
        keep = rng.sample(keep, min(len(keep), 24)) + rng.sample(rest, min(len(rest), 16))
        scheds = [dict(s, i=i) for i, s in enumerate(keep)]
    ctx.exhaustive = True
    sp = os.path.join(ctx.work, "scheds.ndjson")
    core.write_ndjson(sp, scheds)
    gtrace = os.path.join(ctx.work, "trace_gate.ndjson")
    gres = os.path.join(ctx.work, "gate_res.ndjson")
    ctx.vh(["C24", "gate", "--in", sp, "--out", gtrace, "--res", gres, "--wait-ms", 300 if quick else 500], timeout=2400)
    rows = core.read_ndjson(gres)
    if len(rows) != len(scheds):
        raise core.MachineryError("harness forced %d of %d schedules" % (len(rows), len(scheds)))
    feasible = 0
    cand_reproduced = False
    for s, row in zip(scheds, rows):
        ctx.case(["sched", s["kind"], s["steps"]], nontrivial=True,
                 sample={"schedule": s["steps"], "kind": s["kind"], "feasible": row["feasible"], "replies": row["rets"], "reads": row["reads"]})
        if not row["feasible"]:
            continue
        feasible += 1
        ctx.traces += 1
        setop = "SetBallot" if s["kind"] == "ballot" else "SetProposal"
        getop = "Ballot" if s["kind"] == "ballot" else "Proposal"
        if row["rets"] == [1, 1]:
            cand_reproduced = True
            ctx.violation("two-writers-both-stored(%s)" % setop,
                          "forced schedule %s: both %s calls for one key returned true; reads %s" % (s["steps"], setop, row["reads"]),
                          {"schedule": s, "result": row})
        rd = [x for x in row["reads"] if x != 0]
        if len(set(rd)) > 1 or any(a != 0 and b == 0 for a, b in zip(row["reads"], row["reads"][1:])):
            cand_reproduced = True
            ctx.violation("answer-changed(%s)" % getop,
                          "forced schedule %s: %s answered %s for one key" % (s["steps"], getop, row["reads"]),
                          {"schedule": s, "result": row})
    ctx.extra["schedules"] = len(scheds)
    ctx.extra["schedules_feasible"] = feasible
    ctx.extra["schedules_infeasible_skipped"] = len(scheds) - feasible
    if rp.safety_violation and not cand_reproduced:
        ctx.extra["model_only_counterexamples"] = [{
            "config": "PoolBallotsRace_pinned_inv.cfg", "invariant": rp.violated,
            "note": "interleaving check(1) check(2) put put of the unlocked transcription: on the real pool the second writer does "
                    "not reach the gate while the first stands in it (schedule infeasible), no real execution shows two winners"}]
    # 3. sequential replays of input sequences of the atomic specification
    _, behs = ctx.tlc_simulate("PoolBallots", "PoolBallots_sim.cfg", num=120 if quick else 600, depth=30 if quick else 40, timeout=2400)
    seqin = os.path.join(ctx.work, "seq.ndjson")
    hists = [b[-1] for b in behs]
    core.write_ndjson(seqin, [{"i": i, "steps": [{k: v for k, v in s.items() if k != "r"} for s in h]} for i, h in enumerate(hists)])
    strace = os.path.join(ctx.work, "trace_seq.ndjson")
    ctx.vh(["C24", "seq", "--in", seqin, "--out", strace], timeout=2400)
    sev = core.read_ndjson(strace)
    sh = split_histories(sev)
    if len(sh) != len(hists):
        raise core.MachineryError("harness replayed %d of %d sequences" % (len(sh), len(hists)))
    stronger = 0
    for h, real in zip(hists, sh):
        rets = [e["r"] for e in real if e["a"] == "ret"]
        for s, r in zip(h, rets):
            if "r" in s and s["r"] != r:
                stronger += 1     # the code transcription's reply (clean removes all deep entries, by-point = last writer)
        ctx.case(["seq", [{k: v for k, v in s.items() if k != "r"} for s in h]], nontrivial=len(h) > 1,
                 sample={"sequential": [[s["op"], s.get("k") or s.get("f") or s.get("t"), s.get("v") or s.get("s"), s.get("r")] for s in h][:12]})
    ctx.traces += len(hists)
    ctx.extra["stronger_reading_reply_differs_from_code_transcription"] = stronger
    # 4. concurrent histories
    ctrace = os.path.join(ctx.work, "trace_conc.ndjson")
    ctx.vh(["C24", "conc", "--num", 250 if quick else 1500, "--start", 0, "--out", ctrace], timeout=2400)
    cev = core.read_ndjson(ctrace)
    for h in split_histories(cev):
        ctx.case(["conc", [[e["g"], e["op"], target(e), e.get("v") or e.get("s")] for e in h if e["a"] == "call"]], nontrivial=True,
                 sample={"concurrent": brief(h)[:24]})
        ctx.traces += 1
    # 5. linearizability of everything recorded
    gev = core.read_ndjson(gtrace) if os.path.exists(gtrace) else []
    rej = 0
    rej += validate(ctx, gev, "gate")
    chunk, cur, parts = 20000, [], []
    for e in sev + cev:
        if e["a"] == "Reset" and len(cur) >= chunk:
            parts.append(cur)
            cur = []
        cur.append(e)
    if cur:
        parts.append(cur)
    for k, part in enumerate(parts):
        rej += validate(ctx, part, "rec%d" % k)
    ctx.extra["histories_rejected"] = rej
    ctx.extra["events"] = len(sev) + len(cev) + len(gev)
    ctx.rule = ("histories of SetBallot/Ballot/SetProposal/Proposal/ProposalByPoint/clean-up on a real TempPool: %d sequential input "
                "sequences from TLC -simulate, %d seeded concurrent histories (2-4 goroutines x 3-5 calls), %d forced interleavings of "
                "two writers + reader of one key (every complete interleaving of PoolBallotsRace.tla in the thorough tier); "
                "distinct by call sequence / schedule" % (len(hists), len(split_histories(cev)), len(scheds)))
    ctx.assumptions = ["ballot variants = ballots of different nodes for different proposals; proposal variants = one fact signed with different keys",
                       "two different facts for one (point, proposer, previous block) are not constrained by the statement: any stored one or none is accepted from ProposalByPoint",
                       "clean-up is linearized as removing ANY set of entries at least depth below the newest stored height; the code's exact choice is only counted (stronger reading)",
                       "a schedule whose goroutine does not arrive at its gate within the time-out is infeasible and skipped",
                       "the clean-up passes are called through the verif accessor, not through the 33-minute ticker"]
