"""C34 - timers (util/timers.go). Spec: Timers.tla (implementation level) + TimersTrace.tla.

Binding G: behaviours of Timers.tla (every maximal interleaving of a small instance, enumerated
by TLC with the history in the state; seeded -simulate walks of a larger one; the counterexamples
TLC finds for the statement's sentences on the by-id and the check-then-call variants) are forced
on the real util.SimpleTimers through the verif gates of util/timers.go.
Binding B: the event log of those runs and of free runs of the real daemon loop (1 ms resolution,
seeded New/StopTimers/StopOthers/StopAllTimers with id reuse) is validated by TimersTrace.tla,
which evaluates the three sentences of the statement on the log. Verdicts come from the log only."""
import json
import os
import random
import re
from vlib import core

CLASS_KEY = {
    "RemoveOnlySelf": "after-run-removes-by-id",
    "NotEarly": "callback-before-interval",
    "stopped-still-registered": "stop-does-not-remove",
    "registry-entry": "removed-instance-not-registered",
    "removed-without-request": "stop-removes-unrequested-timer",
}
S1_KEY = {
    "stop-after-run-entry": "stop-between-ctx-check-and-callback",
    "stop-before-run-entry": "callback-after-stop(stop-before-run-entry)",
    "stopped-not-cancelled": "callback-after-stop(not-cancelled)",
}


def canon(steps):
    return [[s.get("a"), s.get("x", s.get("id", "")), s.get("r", ""), s.get("ids", s.get("ex", ""))] for s in steps]


def counterexample(ctx, cfg):
    """schedule of the counterexample TLC prints for cfg (None if the invariant holds)"""
    r = ctx.tlc("Timers", cfg, workers=1, allow_violation=True, count=False)
    if not r.safety_violation:
        return None, None
    p = os.path.join(ctx.work, "cex.txt")
    with open(p, "w") as f:
        f.write(r.out)
    steps = []
    for s in core._parse_steps(p, "step"):
        steps.extend(s)
    return r.violated, steps


def segments(events):
    """[(first_line(1-based), last_line, reset_event)] per Reset"""
    segs = []
    for k, e in enumerate(events):
        if e["a"] == "Reset":
            if segs:
                segs[-1][1] = k
            segs.append([k + 1, len(events), e])
    return segs


def validate(ctx, path, label, origin):
    """TLC validation of one recorded log; returns {schedule index: set(classes)}"""
    events = core.read_ndjson(path)
    segs = segments(events)
    seen = {}
    bounds, start = [], 0
    for (a, b, e) in segs:          # cut at Reset events, about 60k events per TLC run
        if b - start > 60000 and a - 1 > start:
            bounds.append((start, a - 1))
            start = a - 1
    bounds.append((start, len(events)))
    for (lo, hi) in bounds:
        part = os.path.join(ctx.work, "part.ndjson")
        core.write_ndjson(part, events[lo:hi])
        try:
            ok, res, hw = ctx.tlc_validate_trace("TimersTrace", "TimersTrace.cfg", part, timeout=3000)
        except core.MachineryError as e:
            # this TLC reports a false POSTCONDITION with exit 10 and without the word "violated"
            m = re.findall(r'<<"HW", (\d+), (\d+)>>', str(e))
            if not m:
                raise
            ok, res, hw = False, None, int(m[-1][0])
        if not ok:
            line = (hw or 1) + lo
            raise core.MachineryError("%s: the order of gate events at line %d is not one Timers.tla knows (no verdict): %s" % (
                label, line, events[max(0, line - 6):line]))
        for (cls, line, rest) in res.mismatches():
            line += lo
            seg = [s for s in segs if s[0] <= line <= s[1]][-1]
            idx = seg[2].get("i")
            hist = [e for e in events[seg[0] - 1:line] if e["a"] != "Obs"]
            sub = rest.split(",")[0].strip().strip('"')
            if cls == "StoppedStaysStopped":
                key = S1_KEY.get(sub, "callback-after-stop(%s)" % sub)
                what = "callback of instance %s started after the stop call that removed it had returned (%s)" % (
                    rest.split(",")[-1].strip(), sub)
            elif cls == "RemoveOnlySelf":
                key = CLASS_KEY[cls]
                by, victim = [x.strip() for x in rest.split(",")]
                what = ("the job of instance %s removed instance %s, registered later under the same id and never stopped"
                        % (by, victim))
            elif cls == "NotEarly":
                key = CLASS_KEY[cls]
                what = "callback started %s us after registration/previous start, interval %s us" % tuple(
                    x.strip() for x in rest.split(","))
            elif cls == "registered-ids":
                got, want = rest.split("}, {") if "}, {" in rest else (rest, "")
                key = "registry-differs-from-log"
                what = "TimerIDs() / ids registered according to the log: %s" % rest
            elif cls == "collected-while-running":
                ctx.extra["collected_while_running"] = ctx.extra.get("collected_while_running", 0) + 1
                continue
            else:
                key = CLASS_KEY.get(cls, cls)
                what = "%s: %s" % (cls, rest)
            seen.setdefault((label, idx), set()).add(cls)
            ctx.violation(key, "%s [%s %s] after %s" % (what, label, idx, [(e["a"], e.get("x", e.get("ids"))) for e in hist][-9:]),
                          {"origin": origin.get(idx, label), "class": cls, "detail": rest, "log": hist})
    return seen, events, segs


def run(ctx):
    quick = ctx.tier == "quick"
    rng = random.Random(ctx.seed)

    # 1. the implementation-level model itself (repaired removal): the statement's sentences 2 and 3,
    #    sentence 1 in its weak form
    ctx.tlc("Timers", "Timers_mc_quick.cfg" if quick else "Timers_mc_thorough.cfg", timeout=2400)
    #    the steps NewTimer may consist of: deadline written before the timer is stored keeps sentence 3 ...
    ctx.tlc("Timers", "Timers_mc_regorder.cfg", workers=4, timeout=2400)
    #    ... the timer stored before its first deadline is written does not (candidate; it cannot be forced
    #    without a gate inside NewTimer - the registration storm below is its binding)
    reg_inv, reg_cex = counterexample(ctx, "Timers_cand_reg.cfg")

    # 2. candidates: sentence 2 on the by-id removal, sentence 1 as written
    scheds, origin = [], {}
    cands = {}
    for cfg in ("Timers_cand_byid.cfg", "Timers_cand_stop.cfg"):
        inv, steps = counterexample(ctx, cfg)
        if steps:
            cands[len(scheds)] = inv
            origin[len(scheds)] = "counterexample %s of %s" % (inv, cfg)
            scheds.append(steps)

    # 3. every maximal interleaving of the small instance
    r, hists = ctx.tlc_dump_steps("Timers", "Timers_enum.cfg", timeout=2400)
    H = [tuple(json.dumps(s, sort_keys=True) for s in h) for h in hists]
    pref = set(h[:-1] for h in H if h)
    maximal = sorted(h for h in H if h not in pref)
    n_enum = len(maximal)
    take = 600 if quick else 6000
    if len(maximal) > take:
        maximal = rng.sample(maximal, take)
    else:
        ctx.exhaustive = True
    for h in maximal:
        origin[len(scheds)] = "Timers_enum.cfg"
        scheds.append([json.loads(s) for s in h])

    # 4. random walks of the larger instance
    _, behs = ctx.tlc_simulate("Timers", "Timers_sim.cfg", num=200 if quick else 2000, depth=40)
    for b in behs:
        origin[len(scheds)] = "Timers_sim.cfg"
        scheds.append([s for one in b for s in one])

    ctx.rule = ("schedules = behaviours of Timers.tla: %d of the %d maximal interleavings of Timers_enum.cfg (1 id, 2 instances, "
                "2 ticks, 1 stop), %d -simulate walks of Timers_sim.cfg (3 ids, 7 instances), the TLC counterexamples; each forced "
                "on a real SimpleTimers (1, 2, 16 shards); plus free runs of the real daemon loop; non-trivial = the schedule "
                "contains a tick; distinct by step sequence" % (len(maximal), n_enum, len(behs)))

    cases = os.path.join(ctx.work, "schedules.ndjson")
    core.write_ndjson(cases, [{"i": i, "steps": s} for i, s in enumerate(scheds)])
    trace = os.path.join(ctx.work, "gate.ndjson")
    res = os.path.join(ctx.work, "res.ndjson")
    ctx.vh(["C34", "gate", "--in", cases, "--trace", trace, "--out", res], timeout=3000)
    rows = core.read_ndjson(res)
    if len(rows) != len(scheds):
        raise core.MachineryError("harness ran %d of %d schedules" % (len(rows), len(scheds)))
    div = {}
    for row in rows:
        s = scheds[row["i"]]
        ctx.case(canon(s), nontrivial=any(x["a"] == "Tick" for x in s),
                 sample={"schedule": [(x["a"], x.get("x", x.get("id"))) for x in s], "diverged": row["diverged"]})
        if row["diverged"]:
            d = row["diverged"]
            k = "infeasible" if d.startswith("infeasible") else ("removal-victim" if d.startswith("AfterRun") else "other")
            div.setdefault(k, []).append({"i": row["i"], "at": row["at"], "why": d})
    ctx.traces += len(rows)
    ctx.extra["schedules_forced"] = len(rows)
    ctx.extra["schedules_left_by_the_code"] = {k: len(v) for k, v in div.items()}
    ctx.extra["schedules_left_examples"] = {k: v[:3] for k, v in div.items()}
    seen, events, segs = validate(ctx, trace, "schedule", origin)

    # TLC counterexamples the real code did not follow
    want = {"RemoveOnlySelf": "RemoveOnlySelf", "StoppedStaysStopped": "StoppedStaysStopped"}
    mo = []
    for i, inv in cands.items():
        if want.get(inv) not in seen.get(("schedule", i), set()):
            mo.append({"invariant": inv, "schedule": [(x["a"], x.get("x", x.get("id"))) for x in scheds[i]]})
    ctx.extra["model_only_counterexamples"] = mo

    # 5. free runs of the daemon loop
    ftrace = os.path.join(ctx.work, "free.ndjson")
    nfree = 40 if quick else 600
    ctx.vh(["C34", "record", "--num", nfree, "--ops", 30, "--trace", ftrace], timeout=3000)
    fseen, fevents, fsegs = validate(ctx, ftrace, "free-run", {})
    ncb = 0
    for (a, b, e) in fsegs:
        ops = [[x["a"], x.get("x", x.get("api", "")), x.get("id", x.get("ids", ""))] for x in fevents[a:b] if x["a"] in ("Reg", "StopCall")]
        n = sum(1 for x in fevents[a:b] if x["a"] == "CbStart")
        ncb += n
        ctx.case(["free", ops], nontrivial=n > 0, sample={"free_run_ops": ops[:12], "callbacks": n})
    ctx.traces += len(fsegs)
    ctx.extra["free_runs"] = len(fsegs)
    ctx.extra["free_run_callbacks"] = ncb

    # 6. registration storm: New() with 10-minute intervals (shared, reused and fresh ids, StopTimers in between) against a
    #    loop that passes over the registry back to back (iterate() in a tight loop / the daemon at 1 ns resolution);
    #    any callback start is early, whatever the schedule
    strace = os.path.join(ctx.work, "storm.ndjson")
    ctx.vh(["C34", "storm", "--ms", 1200 if quick else 5000, "--trace", strace], timeout=3000)
    sseen, sevents, ssegs = validate(ctx, strace, "storm", {})
    sums = [e for e in sevents if e["a"] == "Storm"]
    for (a, b, e), su in zip(ssegs, sums):
        ctx.case(["storm", e.get("loop"), e.get("shards"), su["started"] > 0], nontrivial=su["news"] > 0,
                 sample={"storm": {k: e.get(k) for k in ("loop", "shards")}, "summary": su})
    ctx.traces += len(ssegs)
    ctx.extra["registration_storm"] = {"runs": len(sums), "new_calls": sum(x["news"] for x in sums),
                                       "stop_calls": sum(x["stops"] for x in sums),
                                       "iterate_passes": sum(x["passes"] for x in sums),
                                       "callbacks_started": sum(x["started"] for x in sums)}
    if reg_cex and not any("NotEarly" in v for v in sseen.values()):
        mo.append({"invariant": reg_inv, "schedule": [(x["a"], x.get("x", x.get("id"))) for x in reg_cex],
                   "note": "timer visible to the loop before its first deadline is written: not an order of this tree's NewTimer"})
    ctx.extra["events_validated"] = len(events) + len(fevents) + len(sevents)
    ctx.assumptions = [
        "sentence 1 is judged per instance: 'stopped' = removed by a StopTimers/StopOthers/StopAllTimers/Stop call that has returned; "
        "an instance overwritten by New under the same id is not stopped by a later stop of that id (stronger reading not alarmed)",
        "callback start times are compared with registration / previous callback start (weaker reading of sentence 3)",
        "forced schedules use 1 ns intervals and call iterate() through VerifIterate; the ticker loop itself runs in the free runs and "
        "in half of the registration storms",
        "registration storm: a run lasts seconds and every interval is 10 minutes, so a callback start is early without comparing clocks",
    ]
