"""SYNCER - the block syncer (isaac/states/syncer.go) that the SYNCING handler drives; ISAAC.tla abstracts it
into one SyncBlock step.

  1. TLC on spec/Syncer.tla, the implementation-level model (Add / start loop / checkPrevMap / prepareMaps windows /
     ImportBlocks windows with Save, merge, retry / Finished / Cancel) with the contract as invariants and action
     properties: the repaired algorithm exhaustively (quick: Syncer_mc_quick.cfg, thorough: + Syncer_mc_thorough.cfg,
     Syncer_mc_nil.cfg, liveness NoHeightLost under fairness in Syncer_live.cfg), and the pinned algorithm
     (Syncer_pinned_retry.cfg, Syncer_pinned_fork.cfg), for which TLC finds the two counterexamples that the
     executions below reproduce on the real code.
  2. Real executions (binding B): vh-syncer drives the REAL isaacstates.Syncer - real BatchIsValidMaps, real
     isaacblock.ImportBlocks, real LeveldbTempSyncPool, real signed block maps - against harness sources: for every
     base configuration the fault-free run is recorded, then for EVERY point of that run (each block map fetch, pool
     write, importer, Save, merge, Finished ...) scenarios with a higher Add / several concurrent Adds / Cancel / a
     failing, forking or slow source at that very point, plus seeded random combinations, forked previous blocks and
     the syncer's own last-block-map poll. Every call is an event; spec/SyncerTrace.tla judges every event with the
     contract operators of Syncer.tla.
Verdict keys SYNCER:<class>; see check/syncer.md."""
import json
import os
import re

from vlib import core

# classes of SyncerTrace.tla that the contract (the property statements) constrains under every schedule
HARD = {
    "Add-accepted-not-higher", "Add-refused-higher",
    "Import-from-below-stored", "Import-from-gap", "Import-beyond-added", "Import-after-cancel", "Import-after-error",
    "Import-ok-not-stored",
    "Merge-duplicate", "Merge-gap", "Merge-after-cancel", "Merge-after-error", "Merge-beyond-added", "Store-not-linked",
    "Finished-before-merged", "Finished-not-added",
    "Error-without-source-fault",
    "IsFinished-before-stored", "IsFinished-top", "IsFinished-not-finished",
    "Quiescent-below-top",
}
# harness sanity: a failure is the machinery's
SANITY = {"End-store", "RemovePrev-not-last"}


def split(events):
    """[(first line (1-based), [events])] per execution"""
    out = []
    for i, e in enumerate(events):
        if e["a"] == "Reset":
            out.append((i + 1, []))
        out[-1][1].append(e)
    return out


def classify(cls, line, run_first, run):
    """name the class of history a hard mismatch belongs to"""
    upto = run[:line - run_first + 1]
    if cls in ("Import-from-below-stored", "Merge-duplicate"):
        # a call of the same range failed before, after it had merged blocks of an earlier window?
        merged_in_failed_call = False
        cur, merged = None, 0
        for e in upto[:-1]:
            if e["a"] == "ImportCall":
                cur, merged = (e["from"], e["to"]), 0
            elif e["a"] == "Merge" and e["ok"] == 1:
                merged += 1
            elif e["a"] == "ImportRet" and e["ok"] == 0 and merged > 0:
                merged_in_failed_call = True
        if merged_in_failed_call:
            return "retry-reimports-stored-blocks"
    if cls in ("Import-from-gap", "Merge-gap", "IsFinished-before-stored", "Store-not-linked"):
        if any(e["a"] == "RemovePrev" and e["removed"] == 1 for e in upto):
            return "removed-prev-block-not-reimported"
    return cls


def short(run, n=40):
    def s(e):
        return e["a"] + "(" + ",".join("%s" % e[k] for k in e if k not in ("a", "id", "msg", "ch")) + ")"
    r = [s(e) for e in run]
    return " ".join(r if len(r) <= n else r[:n // 2] + ["..."] + r[-n // 2:])


def crash_key(stderr):
    """a panic of the process: a verdict only if the first frame that is not the runtime's or the standard library's is the
    repository's (a panic in harness code is the machinery's: (None, text))"""
    m = re.search(r"^(panic:|fatal error:)(.*)$", stderr, re.M)
    if not m:
        return None, None
    for fm in re.finditer(r"^([A-Za-z0-9_./-]+?)\.[^\s/]*\(.*\)$", stderr[m.end():], re.M):
        path = fm.group(1)
        first = path.split("/")[0]
        if path.startswith("github.com/spikeekips/mitum/"):
            fn = fm.group(0).split("(")[0] if "(*" not in fm.group(0) else fm.group(0).rsplit("(", 1)[0]
            return "crash:" + fn.replace("github.com/spikeekips/mitum/", ""), m.group(0).strip()
        if first == "mitumverif":
            return None, m.group(0).strip()
        # runtime, panic, standard library (no dot in the first path element), other modules: keep looking
    return None, m.group(0).strip()


def validate(ctx, trace, scen_by_id, tag):
    events = core.read_ndjson(trace)
    ok, res, hw = ctx.tlc_validate_trace("SyncerTrace", "SyncerTrace.cfg", trace, timeout=1800)
    if not ok:
        raise core.MachineryError("SyncerTrace did not consume the trace: first unexplained event %s %s\n%s" % (
            hw, events[hw - 1] if hw and hw <= len(events) else "?", res.out[-3000:]))
    runs = split(events)
    starts = [f for f, _ in runs]
    soft = ctx.extra.setdefault("soft_classes", {})
    seen = set()
    import bisect
    for (cls, line, rest) in res.mismatches():
        k = bisect.bisect_right(starts, line) - 1
        first, run = runs[k]
        sid = run[0]["id"]
        if cls in SANITY:
            raise core.MachineryError("harness sanity %s at line %d of %s: %s" % (cls, line, sid, short(run)))
        if cls not in HARD:
            soft[cls] = soft.get(cls, 0) + 1
            continue
        key = classify(cls, line, first, run)
        if (key, sid) in seen:
            continue
        seen.add((key, sid))
        ev = events[line - 1]
        ctx.violation(key, "%s: event %d %s of scenario %s (seen/want %s): %s" % (
            cls, line - first, json.dumps(ev), sid, rest, short(run)),
            {"class": cls, "scenario": scen_by_id.get(sid, {}).get("scenario"), "event": ev, "events": run})
    return events, runs


def run_one(ctx, sc, name, confirm=False):
    p = os.path.join(ctx.work, name + ".json")
    json.dump(sc, open(p, "w"))
    out = os.path.join(ctx.work, name + ".ndjson")
    args = ["SYNCER", "one", "--in", p, "--out", out, "--work", os.path.join(ctx.work, name + "-w")]
    if confirm:
        args += ["--confirm", "1"]
    r = ctx.vh(args, timeout=200, check=False)
    return r, out


def model(ctx):
    def expect_violation(cfg, inv, what):
        r = ctx.tlc("Syncer", cfg, allow_violation=True, timeout=900)
        got = r.violated
        ctx.extra.setdefault("pinned_model", {})[cfg] = {"violated": got, "states": r.distinct, "what": what}
        if got != inv:
            raise core.MachineryError("%s: expected TLC to find %s violated on the pinned algorithm, got %s" % (cfg, inv, got))

    ctx.tlc("Syncer", "Syncer_mc_quick.cfg", timeout=900)
    expect_violation("Syncer_pinned_retry.cfg", "ImportsContiguous",
                     "an importer of a later window fails, syncBlocks retries with the same `from`: import starts below the stored prefix")
    expect_violation("Syncer_pinned_fork.cfg", "ImportsContiguous",
                     "previous block differs from the remotes': removed, but the import starts behind it: gap")
    if ctx.tier == "thorough":
        ctx.tlc("Syncer", "Syncer_mc_nil.cfg", timeout=1800)
        ctx.tlc("Syncer", "Syncer_mc_thorough.cfg", timeout=3000)
        ctx.tlc("Syncer", "Syncer_live.cfg", workers=4, timeout=1800)
        r = ctx.tlc("Syncer", "Syncer_strong.cfg", allow_violation=True, timeout=900)
        ctx.extra["strong_reading_model"] = {
            "cfg": "Syncer_strong.cfg", "violated": r.violated,
            "what": "NoStragglerAfterCancel (no importer works after Cancel returned) does not hold in the model: "
                    "BaseJobWorker.Wait returns on a cancelled context without waiting for its jobs; not a verdict "
                    "(classes Save-after-cancel / Importer-after-cancel of the executions are counted in soft_classes)"}
        ctx.extra["model_only_counterexamples"] = ["Syncer_strong.cfg: NoStragglerAfterCancel"]


def run(ctx):
    ctx.level = "model_checking"
    model(ctx)

    trace = os.path.join(ctx.work, "trace.ndjson")
    scen = os.path.join(ctx.work, "scen.ndjson")
    p = ctx.vh(["SYNCER", "batch", "--tier", ctx.tier, "--seed", ctx.seed, "--par", 12, "--work", os.path.join(ctx.work, "w"),
                "--out", trace, "--scen", scen], timeout=3000, check=False)
    if p.returncode != 0:
        key, what = crash_key(p.stderr)
        if key is None:
            raise core.MachineryError("vh SYNCER batch exited %d:\n%s" % (p.returncode, p.stderr[-4000:]))
        ctx.violation(key, "the process running the real Syncer crashed: %s" % what, {"stderr": p.stderr[-6000:]})
        return
    scens = core.read_ndjson(scen)
    by_id = {s["id"]: s for s in scens}
    events, runs = validate(ctx, trace, by_id, "batch")

    ctx.rule = ("one case = one scenario (initial database height, remote height, batch limit, forked previous block, "
                "start Adds, rules = actions/faults at points of the execution) run on a fresh real Syncer; non-trivial = "
                "at least one block was merged or a source fault was met; distinct by scenario description")
    status = {}
    classes = {}
    for s in scens:
        status[s["status"]] = status.get(s["status"], 0) + 1
        classes[s["class"]] = classes.get(s["class"], 0) + 1
    for first, run_ in runs:
        sid = run_[0]["id"]
        sc = by_id[sid]["scenario"]
        canon = {k: v for k, v in sc.items() if k not in ("id", "class")}
        nontrivial = any(e["a"] == "Merge" and e["ok"] == 1 for e in run_) or any(
            e["a"] == "Fetch" and e["res"] not in ("ok", "ctx") for e in run_)
        ctx.case(canon, nontrivial=nontrivial, sample={"id": sid, "events": len(run_), "status": run_[-1].get("status")})
    ctx.traces += len(runs)
    ctx.extra["scenarios"] = len(scens)
    ctx.extra["scenario_status"] = status
    ctx.extra["scenario_classes"] = classes
    ctx.extra["events_validated"] = len(events)

    # executions that did not come to an end: time-outs are the machinery's; a syncer that sits idle below its
    # target is re-run alone, where the harness can prove that nothing will ever happen again (goroutine dump)
    timeouts = [s["id"] for s in scens if s["status"] == "timeout"]
    if timeouts:
        raise core.MachineryError("scenarios timed out: %s" % timeouts[:5])
    stalled = [s for s in scens if s["status"] == "stalled"]
    ctx.extra["stalled_rerun"] = [s["id"] for s in stalled]
    for k, s in enumerate(stalled[:6]):
        r, out = run_one(ctx, s["scenario"], "stall%d" % k, confirm=True)
        if r.returncode != 0:
            key, what = crash_key(r.stderr)
            if key is None:
                raise core.MachineryError("vh SYNCER one exited %d:\n%s" % (r.returncode, r.stderr[-3000:]))
            ctx.violation(key, "the process running the real Syncer crashed: %s" % what, {"scenario": s["scenario"], "stderr": r.stderr[-6000:]})
            continue
        validate(ctx, out, by_id, "stall%d" % k)
        ctx.traces += 1

    ctx.exhaustive = False
    ctx.assumptions = [
        "sources are the harness's: block map fetcher, block importers (Save / merge function) and a database that takes only "
        "the block of height last+1 and removes every block >= h, as isaacdatabase.Center does; block bodies are empty "
        "(ImportBlocks's item readers are not exercised)",
        "verdicts are order/presence facts of the recorded events; an execution that does not end inside the time budget is never a verdict",
        "strong reading of 'after Cancel nothing more is imported' (no importer call at all) is reported in soft_classes, not judged: "
        "util.BaseJobWorker does not wait for running jobs when its context is cancelled",
    ]


def replay(ctx, path):
    d = json.load(open(path))
    sc = d["case"].get("scenario")
    if not sc:
        raise core.MachineryError("replay file has no scenario")
    r, out = run_one(ctx, sc, "replay", confirm=True)
    if r.returncode != 0:
        key, what = crash_key(r.stderr)
        if key is None:
            raise core.MachineryError("vh SYNCER one exited %d:\n%s" % (r.returncode, r.stderr[-3000:]))
        ctx.violation(key, "the process running the real Syncer crashed: %s" % what, {"scenario": sc, "stderr": r.stderr[-6000:]})
        return
    validate(ctx, out, {sc["id"]: {"scenario": sc}}, "replay")
    ctx.traces += 1
