"""C29 - length-prefixed framing (util/bytes.go). Spec: Framing.tla. Binding A: every final
state of the exhaustive TLC run is a case (wire bytes, adversary actions, the value the
reference reader Parse returns, chunkings derived from the field layout); the harness replays
it on ReadLengthedBytesSlice, ReadLengthedSlice and BytesFrameReader over a chunking io.Reader
(two EOF styles) and runs the real writers on what was written. The seeded part (random lists
up to 40000 items / 64 KiB, random flips, truncations, chunkings) is judged by the Go
transcription of Parse, which is compared with TLC's verdict on every TLC case."""
import json
import os
from vlib import core

LIMIT = 32767


def tamper_class(case):
    if case.get("fuzz"):
        return "fuzz:" + ("+".join(case.get("tamper") or []) or "untouched")
    t = case.get("t") or []
    if not t:
        return "untouched"
    out = []
    for a in t:
        s = "%s-%s" % (a["a"], a["f"])
        if a["a"] == "set":
            s += "-" + a["x"]
        out.append(s)
    return "+".join(out)


def api_class(f):
    return {"frame": "frame-header", "frame-buffer": "frame-header"}.get(f["api"], f["api"])


def input_class(case, kind):
    """which inputs fail: for a refused / misread well-formed wire only whether the adversary touched it,
    for an accepted malformed wire the adversary action that made it malformed"""
    tc = tamper_class(case)
    if tc in ("untouched", "fuzz:untouched"):
        return "untouched"
    if kind == "accepted":
        return "fuzz-tampered" if case.get("fuzz") else tc
    return "tampered-wellformed"


def key_of(case, f):
    """class of a failing (case, call): stable across seeds, one key per defect"""
    cf = int(f["cf"]) if f.get("cf") else -1
    kind = f["kind"]
    if kind == "short-version":
        return "frame-version;short-read"
    if cf > LIMIT:
        if f["api"] == "bytes" and kind in ("accepted", "wrong-list") and "0 items" in f["got"]:
            return "bytes;count>32767;silent-empty"
        if kind == "rejected":
            return "%s;count>32767;roundtrip-error" % api_class(f)
    if f["api"] == "writer":
        return "writer;%s" % kind
    return "%s;%s;%s" % (api_class(f), kind, input_class(case, kind))


def qualifier(fs):
    """the failure needs a particular delivery of the stream"""
    combos = [(x["plan"], x["eof"]) for x in fs if x["plan"] and x["plan"] != "buffer"]
    if not combos or len(combos) != len(fs):
        return ""
    if all(e == "eager" for _, e in combos):
        return ";eof-with-last-bytes"
    if all(p not in ("all",) for p, _ in combos):
        return ";chunked"
    return ""


def judge(ctx, cases, rows, label):
    if len(rows) != len(cases):
        raise core.MachineryError("harness answered %d of %d %s cases" % (len(rows), len(cases), label))
    rows.sort(key=lambda r: r["i"])
    calls = skipped = 0
    info = {}
    for c, row in zip(cases, rows):
        calls += row["calls"]
        skipped += row.get("skipped_huge_alloc", 0)
        for s in row.get("info", []):
            k = s.split(":")[0]
            info[k] = info.get(k, 0) + 1
        seen = {}
        for f in row.get("fails", []):
            if f["kind"] == "ref-mismatch":
                raise core.MachineryError("Go transcription of Parse disagrees with TLC on case %d: %s | %s" % (row["i"], f["got"], f["want"]))
            seen.setdefault(key_of(c, f), []).append(f)
        for k, fs in seen.items():
            f = fs[0]
            if ";count>32767;" not in k and k != "frame-version;short-read":
                k += qualifier(fs)
            where = sorted(set("%s/%s" % (x["plan"], x["eof"]) for x in fs if x["plan"]))
            what = "%s %s [%s]%s: got %s; the specification says %s" % (
                f["api"], f["kind"], tamper_class(c), (" chunking " + ",".join(where)[:80]) if where else "",
                f["got"][:160].replace("\n", " "), f["want"][:120] or "-")
            small = {kk: v for kk, v in c.items() if kk not in ("plans", "fails")}
            ctx.violation(k, what, {"case": small, "plans": c.get("plans"), "failures": fs[:6]})
    return calls, skipped, info


def canon(c):
    if c.get("fuzz"):
        return ["fuzz", c["seed"], c["i"]]
    if c["m"] == "ulist":
        return [c["m"], c["c"], c["n"], c["fill"], c["tr"], c["wire"], c["have"], c["tail"]]
    return [c["m"], c["wire"], c["t"], c.get("w"), c.get("hdr"), c.get("bk")]


def nontrivial(c):
    if c.get("fuzz"):
        return c["count"] > 0 or bool(c["tamper"])
    if c["m"] == "list":
        return bool(c["w"]) or bool(c["t"])
    if c["m"] == "frame":
        return bool(c["hdr"]) or bool(c["raw"]) or bool(c["bodies"]) or bool(c["t"])
    return c["c"] > 0 or bool(c["t"])


def params(ctx):
    if ctx.tier == "quick":
        return dict(cfg="Framing_mc_quick.cfg", big=8, huge=0, onemax=4096, fuzz=400, maxbytes=1 << 20)
    return dict(cfg="Framing_mc_thorough.cfg", big=48, huge=3, onemax=70000, fuzz=4000, maxbytes=4 << 20)


def run(ctx):
    P = params(ctx)
    r, steps = ctx.tlc_dump_steps("Framing", P["cfg"], timeout=2400)
    ctx.exhaustive = True
    ctx.rule = ("cases = final states of Framing.tla under %s (written list/frame/uniform list x one adversary action "
                "(length field rewritten, byte flipped, wire cut) x expected reference result), each replayed on the bytes "
                "reader, the stream reader and the frame reader for the 4 layout-derived chunkings x 2 EOF styles, plus seeded "
                "byte-level cases; non-trivial = something written or tampered; distinct by (mode, wire, adversary log)" % P["cfg"])
    cases = os.path.join(ctx.work, "cases.ndjson")
    core.write_ndjson(cases, steps)
    res = os.path.join(ctx.work, "res.ndjson")
    ctx.vh(["C29", "replay", "--in", cases, "--out", res, "--big", P["big"], "--huge", P["huge"], "--onemax", P["onemax"]],
           timeout=3000)
    rows = core.read_ndjson(res)
    calls, skipped, info = judge(ctx, steps, rows, "TLC")
    modes = {}
    for c in steps:
        modes[c["m"]] = modes.get(c["m"], 0) + 1
        ctx.case(canon(c), nontrivial(c), sample={k: v for k, v in c.items() if k != "plans"})
    ctx.traces += len(steps)
    # seeded byte-level part
    fres = os.path.join(ctx.work, "fuzz.ndjson")
    ctx.vh(["C29", "fuzz", "--num", P["fuzz"], "--maxbytes", P["maxbytes"], "--out", fres, "--big", P["big"], "--huge", 0,
            "--onemax", P["onemax"]], timeout=3000)
    frows = core.read_ndjson(fres)
    frows.sort(key=lambda r: r["i"])
    for fr in frows:
        fr["maxbytes"] = P["maxbytes"]
    c2, s2, i2 = judge(ctx, frows, [dict(r) for r in frows], "seeded")
    for fr in frows:
        ctx.case(canon(fr), nontrivial(fr))
    ctx.traces += len(frows)
    ctx.extra["cases_by_mode"] = modes
    ctx.extra["real_calls"] = calls + c2
    ctx.extra["seeded_cases"] = len(frows)
    ctx.extra["seeded_max_items"] = max([fr["count"] for fr in frows] or [0])
    ctx.extra["seeded_max_item_bytes"] = max([fr["maxlen"] for fr in frows] or [0])
    ctx.extra["skipped_huge_alloc"] = skipped + s2
    ctx.extra["stronger_reading_not_alarmed"] = dict(info, **{k: info.get(k, 0) + v for k, v in i2.items()})
    ctx.assumptions = [
        "item lengths >= 2^31 are never materialised; hostile lengths between 1 MiB and 2^31-1 make the readers allocate that "
        "much per Read call, so only %d (+%d above 256 MiB) such stream cases are run, deliver-all chunking only, the rest is "
        "counted in skipped_huge_alloc (the bytes reader is run on all of them)" % (P["big"], P["huge"]),
        "lists above 3 items are uniform (same item repeated): counts 32766..40000 with items of 0..2 bytes, 64 KiB items in "
        "lists of <= 3; the seeded part mixes sizes up to %d payload bytes" % P["maxbytes"],
        "nil and empty byte strings are the same item; BytesFrameReader.Lengthed at a clean end of stream is unconstrained "
        "(the code reports 'insufficient read')",
        "a Read never returns (0, nil); EOF is delivered either with the last bytes or by the following Read",
    ]


def replay(ctx, path):
    rep = json.load(open(path))
    c = rep["case"]["case"]
    P = params(ctx)
    out = os.path.join(ctx.work, "res.ndjson")
    if c.get("fuzz"):
        ctx.vh(["C29", "fuzz", "--seed", c["seed"], "--only", c["i"], "--maxbytes", c.get("maxbytes", P["maxbytes"]), "--out", out,
                "--big", 1, "--huge", 0, "--onemax", P["onemax"]])
        rows = core.read_ndjson(out)
        judge(ctx, rows, [dict(r) for r in rows], "seeded")
    else:
        c = dict(c)
        c["plans"] = rep["case"].get("plans")
        cases = os.path.join(ctx.work, "cases.ndjson")
        core.write_ndjson(cases, [c])
        ctx.vh(["C29", "replay", "--in", cases, "--out", out, "--big", 1, "--huge", 1, "--onemax", P["onemax"]])
        judge(ctx, [c], core.read_ndjson(out), "replayed")
    ctx.traces += 1
    ctx.rule = "replay of " + path
