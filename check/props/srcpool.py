"""SRCPOOL - isaac.SyncSourcePool (isaac/syncer.go): the pool of sync sources (fixed list + non-fixed set + problem
reports with a TTL) that Pick / PickMultiple / Retry and the network client rely on.

  1. TLC on spec/SyncSourcePool.tla: contract (PickBad / PMBad: the classes of contract clauses a reply breaks) next to
     the transcription of pick(skipid) / PickMultiple. Impl="repaired" (skip set): NoBad, Disjoint, DistinctFixed,
     LenIsSum, ReportFrame hold (SyncSourcePool_mc_quick/_thorough.cfg). Impl="pinned" (pick(skipid) passes over only the
     previous id among the non-fixed): TLC finds PickMultiple(3) over non-fixed {a,b} answering <<a,b,a>>
     (SyncSourcePool_pinned.cfg, expected violation of NoBad); the other invariants hold (SyncSourcePool_pinned_rest.cfg).
  2. Real executions (binding B): vh-srcpool drives the REAL SyncSourcePool (3 addresses x 2 conninfos, real
     isaacnetwork.NodeConnInfo values): every sequence of <= 2 (thorough: also 3 over a smaller alphabet) calls from 9
     start pools, seeded random sequences, (thorough) one sequence sleeping over the 3 s TTL. Every reply and, after every
     call, every read-only query are judged by spec/SyncSourcePoolTrace.tla; which non-fixed source is returned is never
     judged beyond membership in the admissible set.
Verdict keys SRCPOOL:<class>[;qualifier]; see check/srcpool.md."""
import bisect
import json
import os

from vlib import core

CALLS = ("Reset", "UpdateFixed", "AddNonFixed", "RemoveNonFixed", "RemoveNonFixedNode", "Pick", "PickMultiple", "Report", "Expire")
ARGS = {"Reset": ("q",), "UpdateFixed": ("q",), "AddNonFixed": ("S",), "RemoveNonFixed": ("s",), "RemoveNonFixedNode": ("n",),
        "Pick": (), "PickMultiple": ("n",), "Report": ("h", "e"), "Expire": ()}


def split(events):
    out = []
    for i, e in enumerate(events):
        if e["a"] == "Reset":
            out.append((i + 1, []))
        out[-1][1].append(e)
    return out


def sid(s):
    return "".join(s) if s[0] else "-"


def short(run, upto=None):
    out = []
    for e in run:
        a = e["a"]
        if a == "Obs":
            continue
        if a in ("Reset", "UpdateFixed"):
            t = "%s([%s])" % ("New" if a == "Reset" else a, ",".join(sid(s) for s in e["q"]))
        elif a == "AddNonFixed":
            t = "AddNonFixed(%s)" % ",".join(sid(s) for s in e["S"])
        elif a == "RemoveNonFixed":
            t = "RemoveNonFixed(%s)" % sid(e["s"])
        elif a == "RemoveNonFixedNode":
            t = "RemoveNonFixedNode(%s)" % e["n"]
        elif a == "Pick":
            t = "Pick" + ("=" + (e["err"] or sid(e["s"])) if "err" in e else "")
            t = "Pick()=%s" % (e.get("err") or sid(e["s"]))
        elif a == "PickMultiple":
            t = "PickMultiple(%d)=%s" % (e["n"], e.get("err") or "[%s]" % ",".join(sid(s) for s in e["q"]))
        elif a == "Report":
            t = "Report(h%d,%s)" % (e["h"], e["e"])
        else:
            t = a
        if "r" in e:
            t += "=%d" % e["r"]
        out.append(t)
        if upto is not None and e is upto:
            break
    return " ".join(out)


def qualify(cls, ev, run):
    """a key specific enough that another defect of the same clause gets another key"""
    if ev["a"] != "PickMultiple":
        return cls
    fixed = []
    for e in run:
        if e is ev:
            break
        if e["a"] in ("Reset", "UpdateFixed"):
            fixed = [tuple(s) for s in e["q"]]
    q = [tuple(s) for s in ev.get("q", [])]
    rep = {s for s in q if q.count(s) > 1}
    if cls == "PickMultiple-duplicate":
        return cls + (";fixed-source-repeated" if rep & set(fixed) else ";non-fixed-source-repeated")
    if cls == "PickMultiple-fewer-than-available":
        if rep and not (rep & set(fixed)) and len(q) == ev["n"]:
            return cls + ";slots-taken-by-repeated-non-fixed-source"
    return cls


def validate(ctx, trace):
    events = core.read_ndjson(trace)
    ok, res, hw = ctx.tlc_validate_trace("SyncSourcePoolTrace", "SyncSourcePoolTrace.cfg", trace, timeout=2400)
    if not ok:
        raise core.MachineryError("SyncSourcePoolTrace did not consume the trace: first unexplained event %s %s\n%s" % (
            hw, events[hw - 1] if hw and hw <= len(events) else "?", res.out[-3000:]))
    runs = split(events)
    starts = [f for f, _ in runs]
    soft = ctx.extra.setdefault("soft_classes", {})
    seen = {}
    for (cls, line, _rest) in res.mismatches():
        if cls.startswith("soft-"):
            soft[cls] = soft.get(cls, 0) + 1
            continue
        k = bisect.bisect_right(starts, line) - 1
        first, run = runs[k]
        ev = events[line - 1]
        judged = ev
        if ev["a"] == "Obs":   # the call the observation follows
            judged = events[line - 2]
        key = qualify(cls, ev, run)
        seen[key] = seen.get(key, 0) + 1
        if seen[key] > 3 and not ctx._findings.get("SRCPOOL:" + key, {}).get("status") == "known":
            continue
        calls = [e for e in run if e["a"] != "Obs"]
        upto = [e for e in run[:line - first + 1] if e["a"] != "Obs"]
        ctx.violation(key, "%s at %s after: %s%s" % (
            cls, judged["a"], short(upto), (" ; observed " + json.dumps(ev, separators=(",", ":"))) if ev["a"] == "Obs" else ""),
            {"class": cls, "event": ev, "line_in_sequence": line - first, "calls": calls})
    ctx.extra["mismatch_classes"] = seen
    return events, runs


def model(ctx):
    ctx.tlc("SyncSourcePool", "SyncSourcePool_mc_quick.cfg", timeout=900)
    r = ctx.tlc("SyncSourcePool", "SyncSourcePool_pinned.cfg", allow_violation=True, timeout=600)
    ctx.extra["pinned_model"] = {"cfg": "SyncSourcePool_pinned.cfg", "violated": r.violated,
                                 "what": "pick(skipid) passes over only the previous id among the non-fixed sources: "
                                         "PickMultiple(3) over non-fixed {a,b} answers <<a,b,a>> (reproduced on the real pool: "
                                         "known finding PickMultiple-duplicate)"}
    if r.violated != "NoBad":
        raise core.MachineryError("SyncSourcePool_pinned.cfg: expected NoBad violated, got %s" % r.violated)
    ctx.extra["model_only_counterexamples"] = []
    if ctx.tier == "thorough":
        ctx.tlc("SyncSourcePool", "SyncSourcePool_pinned_rest.cfg", timeout=900)
        ctx.tlc("SyncSourcePool", "SyncSourcePool_mc_thorough.cfg", timeout=3000)


def account(ctx, events, runs):
    ctx.rule = ("one case = one call sequence (arguments only) on a fresh real pool; non-trivial = at least one Pick / "
                "PickMultiple returned a source; distinct by the sequence of calls with their arguments")
    for first, run_ in runs:
        calls = [[e["a"]] + [e[k] for k in ARGS[e["a"]]] for e in run_ if e["a"] != "Obs"]
        nt = any(e["a"] in ("Pick", "PickMultiple") and e.get("err") == "" for e in run_)
        ctx.case(calls, nontrivial=nt, sample={"calls": short(run_)[:300]})
    ctx.traces += len(runs)
    ctx.extra["sequences"] = len(runs)
    ctx.extra["events_validated"] = len(events)
    ctx.extra["calls_by_kind"] = {a: sum(1 for e in events if e["a"] == a) for a in CALLS + ("Obs",)}


def run(ctx):
    ctx.level = "model_checking"
    model(ctx)
    trace = os.path.join(ctx.work, "trace.ndjson")
    p = ctx.vh(["SRCPOOL", "batch", "--tier", ctx.tier, "--seed", ctx.seed, "--out", trace], timeout=1200, check=False)
    if p.returncode != 0:
        if "panic:" in p.stderr and "github.com/spikeekips/mitum/isaac.(*SyncSourcePool)" in p.stderr:
            ctx.violation("crash", "the process driving the real pool panicked inside SyncSourcePool", {"stderr": p.stderr[-6000:]})
            return
        raise core.MachineryError("vh SRCPOOL batch exited %d:\n%s" % (p.returncode, p.stderr[-4000:]))
    events, runs = validate(ctx, trace)
    account(ctx, events, runs)
    ctx.exhaustive = False
    ctx.extra["strong_readings_not_judged"] = {
        "soft-IsInNonFixed-false-for-node-also-in-fixed":
            "IsInNonFixed(addr) answers false when a source of the same address is in fixed although another source "
            "(other conninfo) of that address is non-fixed; judged only for addresses without a fixed source"}
    ctx.assumptions = [
        "one goroutine; the lock discipline of the pool (NodeConnInfo reads without the lock) is not examined",
        "fixed lists given to UpdateFixed have distinct ids",
        "the TTL of a problem report (renewTimeout, unexported, 3 s) is exercised by one sequence of the thorough tier that "
        "sleeps 3.2 s; no other event depends on the clock (a sequence runs in microseconds)",
        "which non-fixed source Pick / PickMultiple return (map iteration) is not judged beyond the admissible set",
        "an observation identical to the previous one after Pick / PickMultiple / a harmless report is not logged again",
    ]


def replay(ctx, path):
    d = json.load(open(path))
    calls = d["case"].get("calls")
    if not calls:
        raise core.MachineryError("replay file has no calls")
    p = os.path.join(ctx.work, "replay.json")
    json.dump(calls, open(p, "w"))
    out = os.path.join(ctx.work, "replay.ndjson")
    ctx.vh(["SRCPOOL", "one", "--in", p, "--out", out], timeout=120)
    events, runs = validate(ctx, out)
    account(ctx, events, runs)
