"""C02 - required vote count = exact ceiling. Spec: Tally.tla (Req) / TallyTable.tla.
Binding B (table validation): the real Threshold.Threshold is recorded on the grid
n x {51.0..100.0} and every recorded line is an initial state of TallyTable.tla whose
invariant compares it with the exact integer ceiling. Rows come in two kinds: thresholds
made as Go values, and thresholds decoded from their text form (MarshalText/UnmarshalText, the
way voteproofs and node parameters carry them) - a decoder that moves the value changes the
required count like the arithmetic would (seeded change C02d)."""
import os
import re
import shutil
import subprocess
from concurrent.futures import ThreadPoolExecutor
from vlib import core


def run(ctx):
    if ctx.tier == "quick":
        chunks = [(1, 3000, 2000)]
    else:
        chunks = [(a, a + 9999, 0) for a in range(1, 100001, 10000)]
        ctx.exhaustive = True
    ctx.rule = ("grid points (n, t) with t in 51.0..100.0 step 0.1 (491 values); quick: n in 1..3000, multiples of 100 up to "
                "100000 and 2000 seeded n; thorough: every n in 1..100000; non-trivial = every point (each is one exact comparison)")
    mism = []
    nrows = 0

    def one(ch):
        a, b, extra = ch
        sub = core.Ctx.__new__(core.Ctx)
        sub.__dict__.update(ctx.__dict__)
        sub.work = os.path.join(ctx.work, "chunk%d" % a)
        os.makedirs(sub.work)
        sub.states = sub.transitions = 0
        sub.tlc_cmds = []
        t = os.path.join(sub.work, "table.ndjson")
        sub.vh(["C02", "record", "--from", a, "--to", b, "--extra", extra, "--out", t])
        n = sum(1 for _ in open(t))
        ok, r, _ = sub.tlc_validate_trace("TallyTable", "TallyTable.cfg", t, trace_name="c02_table.ndjson", timeout=1500)
        if not ok:
            raise core.MachineryError("TallyTable rejected the table structurally:\n" + r.out[-3000:])
        if r.distinct != n:
            raise core.MachineryError("TLC checked %d of %d recorded lines" % (r.distinct, n))
        mm = re.findall(r'<<"MISMATCH", (\d+), (\d+), (\d+), (\d+), "(\w+)">>', r.out)
        first = open(t).readline()
        shutil.rmtree(sub.work, ignore_errors=True)
        return n, r.distinct, r.generated, [tuple(map(int, m[:4])) + (m[4],) for m in mm], first, sub.tlc_cmds

    with ThreadPoolExecutor(max_workers=4 if ctx.tier == "thorough" else 1) as ex:
        for n, st, gen, mm, first, cmds in ex.map(one, chunks):
            nrows += n
            ctx.states += st
            ctx.transitions += gen
            mism += mm
            ctx.tlc_cmds += cmds[:1]
            if len(ctx.samples) < 2:
                ctx.samples.append({"table_line_prefix": first[:160] + "..."})
    ctx.traces = nrows
    ctx.evaluations = nrows * 491
    seen = {}
    for (n, t10, got, want, via) in mism:
        if (n * t10) % 1000 == 0 and got == want + 1:
            key = "float-ceil(n*t10%1000==0)"
        else:
            key = "grid-mismatch"
        if via != "value":
            key += ";threshold-decoded-from-" + via
        seen[key] = seen.get(key, 0) + 1
        if seen[key] > 20:
            continue
        ctx.violation(key, "Threshold(%d.%d)%s.Threshold(%d) = %d, exact ceiling is %d"
                      % (t10 // 10, t10 % 10, "" if via == "value" else " [decoded from its text form]", n, got, want),
                      {"n": n, "t10": t10, "got": got, "want": want, "via": via})
    # distinct non-trivial: every grid point is distinct; count measured from the rows TLC checked
    ctx.distinct_override = nrows * 491
    ctx.extra["grid_points"] = nrows * 491
    ctx.extra["mismatches"] = len(mism)
    ctx.extra["mismatch_classes"] = seen
    ctx.assumptions = ["thresholds have one decimal place (as Threshold.String prints them)"]
