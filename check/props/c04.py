"""C04 - the ballot box emits only sound voteproofs.

Spec: Ballotbox.tla. What a count may emit is stated from the statement (Sound: sign facts of the
voteproof's own stage point and flag, from pairwise distinct suffrage nodes, all accepted by Vote
for that (stage point, flag); result = a fresh recount - over the reduced suffrage at 100% when
the voteproof carries expels, which is how every other node validates it). ImplCandidates is the
transcription of voterecords.countFromVoted / countWithExpels; TLC compares the two
(ImplEmitsSound, ImplExpelsMatchMajority) and its counterexamples become scripts.
Binding B (recorder shared with C05, harness/internal/c04): a real isaacstates.Ballotbox is fed
really signed INIT / ACCEPT / suffrage-confirm ballots, with and without expels and embedded
voteproofs, honest and conflicting, sequentially and from goroutines; every voteproof read from
Ballotbox.Voteproof() is logged with its sign facts, expels, result, majority, threshold and the
verdicts of Voteproof.IsValid and isaac.IsValidVoteproofWithSuffrage; BallotboxTrace.tla checks
(i)-(iv) of DESIGN.md section 4 C04 for each of them against the ballots Vote accepted.
Held records and the ticker: a count may hold a record back (INIT draw while expels are not agreed,
voterecords.countAfter); the box's ticker (Ballotbox.start -> countHoldeds) counts it later, without
the count lock, the last-point update and the clean cycle of countVoterecords. Ballotbox.tla has the
action Tick (abstract guard: the box is still voting on the record's stage point; transcriptions
"impl" = filter of unfinishedVoterecords + the check of voterecords.count, "coarse" = the caller's
filter alone) and the property EmitNew (statement: "for a stage point it was voting on"); TLC checks
the transcription and turns the counterexamples of the coarse guard into forced schedules (hold,
close the height through SetLastPoint / late ACCEPT ballots, run the ticker). The recorder runs the
real ticker (Start with a 50us interval, holds expired, Stop) as the scripted op Tick and next to the
concurrent threads; BallotboxTrace.tla checks for every voteproof of every call kind that its stage
point was new with respect to a last point the box had when it was emitted (C04-point-not-new).
Embedded voteproofs are data chosen by the sender (BallotboxFwd.tla): the ID is a free string, so an embedded voteproof
may repeat the ID and the stage point of a voteproof the box has emitted while its content differs. BallotboxFwd.tla
models the two ways a ballot reaches the forwarding gate (validated path: suffrage of the ballot's height known, the count
forwards one of the record's embedded voteproofs and moves the last point; deferred path of a lagging node: only the
suffrage of the earlier height is known, the last point stays) with the statement's gate (a voteproof of the suffrage) and
three shortcut gates that trust sender-chosen fields of the voteproof emitted last (TLC: each breaks ForwardedValid); every
behaviour "V emitted, then a ballot embedding V'" (V' over id {same, fresh} x stage point x nine contents: genuine,
foreign signers, too few votes, mixed, threshold written too high / too low, false draw, double signer) is a script; the
recorder builds the really signed voteproofs (same ID by copying the first voteproof's value, as a decoded message
would), runs the box with a suffrage function that knows the heights up to a bound only, and BallotboxTrace.tla judges
every forwarded voteproof by its content (C04-invalid-forwarded, C04-forwarded-unknown).
"""
import os
import re
from vlib import core
from props import c05 as shared

PREFIX = "C04-"
KEY_EXPEL_TALLY = "expel-vp;tally(t,n)!=tally(100,n-k)"
KEY_EXPEL_MISMATCH = "expel-vp;majority-fact-expels!=voteproof-expels"


def req(n, t10):
    return (n * t10 + 999) // 1000


def tally(q, rq, sfs):
    """Tally.tla Result over sign facts [{'f','ex'},...]: (result, majority key)"""
    th = min(rq, q)
    cnt = {}
    for s in sfs:
        k = (s["f"], tuple(s["ex"]), s.get("sc", False))
        cnt[k] = cnt.get(k, 0) + 1
    tot = len(sfs)
    miss = 0 if tot >= q else q - tot
    for k, c in cnt.items():
        if c >= th:
            return "MAJORITY", k
    if tot > 0 and miss < th and all(c + miss < th for c in cnt.values()):
        return "DRAW", None
    return "NOT YET", None


def classify(cls, vp, reset):
    """name the class of the failing voteproof (stable across seeds)"""
    n = len(reset["nodes"])
    k = len(vp["ex"])
    kind = vp["kind"]
    if k > 0 and cls in ("invalid-with-suffrage", "recount"):
        own = tally(n, req(n, vp["th10"]), vp["sfs"])[0]
        reduced = tally(n - k, n - k, vp["sfs"])[0]
        if own == vp["res"] and reduced != vp["res"]:
            return KEY_EXPEL_TALLY
    if k > 0 and cls == "invalid" and ("unknown expels found" in vp["v1"] or "expels not matched" in vp["v1"]):
        return KEY_EXPEL_MISMATCH
    err = ""
    if cls == "invalid":
        err = vp["v1"]
    elif cls == "invalid-with-suffrage":
        err = vp["v2"]
    m = re.search(r'wrong result; voteproof\("([A-Z ]+)"\) != "([A-Z ]+)', err)
    if m:
        tail = "wrong-result(%s!=%s)" % (m.group(1).replace(" ", ""), m.group(2).replace(" ", ""))
    else:
        seg = re.sub(r'"[^"]*"?', "", err.split(";")[-1].split(",")[0])
        tail = re.sub(r"[^a-z ]+", "", seg.lower()).strip().replace(" ", "-")[:40]
    return "%s;%s%s%s" % (cls, kind, ";fwd" if vp["fwd"] else "", (";" + tail) if tail else "")


def classify_forwarded(vp, ev, hist, reset):
    """class of an invalid forwarded voteproof: the path it took, how its sender-chosen ID / stage point relate to the
    voteproofs the box emitted before in this history, and what is wrong with its content"""
    nodes = set(reset["nodes"])
    if ev["a"] == "Vote":
        path = "deferred(suffrage-of-ballot-height-unknown)" if ev["h"] - 1 > reset.get("sufupto", 1 << 20) else (
            "sc-record" if ev.get("sc") else "validated")
    else:
        path = ev["a"]
    before = []
    for e in hist[:-1]:
        before.extend(e.get("vps", []))
    me = ev.get("vps", [])
    before.extend(me[:me.index(vp)] if vp in me else [])
    pt = lambda v: (v["h"], v["r"], v["s"])
    other = [v for v in before if v["sfs"] != vp["sfs"] or v["res"] != vp["res"] or v["mf"] != vp["mf"] or v["th10"] != vp["th10"]]
    if any(v["id"] == vp["id"] and pt(v) == pt(vp) for v in other):
        rel = "id+point-of-emitted-voteproof"
    elif any(v["id"] == vp["id"] for v in other):
        rel = "id-of-emitted-voteproof"
    elif any(pt(v) == pt(vp) for v in other):
        rel = "point-of-emitted-voteproof"
    else:
        rel = "fresh"
    signers = [x["n"] for x in vp["sfs"]]
    if any(x not in nodes for x in signers):
        bad = "signers-outside-suffrage"
    elif len(set(signers)) != len(signers):
        bad = "duplicate-signer"
    else:
        err = vp["v1"] or vp["v2"]
        m = re.search(r'wrong result; voteproof\("([A-Z ]+)"\) != "([A-Z ]+)', err)
        if m:
            bad = "wrong-result(%s!=%s)" % (m.group(1).replace(" ", ""), m.group(2).replace(" ", ""))
        elif err:
            seg = re.sub(r'"[^"]*"?', "", err.split(";")[-1].split(",")[0])
            bad = re.sub(r"[^a-z ]+", "", seg.lower()).strip().replace(" ", "-")[:40] or "invalid"
        else:
            bad = "recount"
    return "invalid-forwarded;%s;%s;%s" % (path, rel, bad)


def judge(ctx, events, res, source):
    seen = set()
    for (cls, line, info) in res.mismatches():
        if cls.startswith("X-"):
            d = ctx.extra.setdefault("model_divergences_not_alarmed", {})
            d[cls] = d.get(cls, 0) + 1
            continue
        if not cls.startswith(PREFIX):
            continue
        cls = cls[len(PREFIX):]
        ev = events[line - 1]
        start, hist = shared.history_of(events, line)
        reset = events[start]
        m = re.match(r"<<(-?\d+), (\d+), (\d+)>>", info.strip())
        vps = ev.get("vps", [])
        if m:
            h, r, s = int(m.group(1)), int(m.group(2)), int(m.group(3))
            cand = [v for v in vps if (v["h"], v["r"], v["s"]) == (h, r, s)]
            bad = [v for v in cand if v["v1"] or v["v2"]] or cand
            vp = bad[0] if bad else None
        else:
            vp = None
        if vp is not None and cls == "point-not-new":
            pre = events[line - 2]["last"] if line >= 2 and "last" in events[line - 2] else {"h": -1, "r": 0, "s": 0, "maj": False}
            rel = "zero" if pre["s"] not in (1, 3) else "%s-%s;%s;%s" % (
                {1: "INIT", 3: "ACCEPT"}[pre["s"]], "majority" if pre["maj"] else "draw",
                "same-height" if pre["h"] == vp["h"] else ("lower-height" if pre["h"] < vp["h"] else "higher-height"),
                "same-round" if pre["r"] == vp["r"] else ("earlier-round" if pre["r"] < vp["r"] else "later-round"))
            key = "point-not-new;emitted-by=%s;%s-%s;last=%s" % (ev["a"], {1: "INIT", 3: "ACCEPT"}.get(vp["s"], "?"), vp["res"], rel)
            what = ("the box emitted the %s %s voteproof of (h%d r%d s%d) from its own records in %s although its last point was "
                    "already (h%d r%d s%d majority=%s): it was not voting on that stage point any more" % (
                        vp["kind"], vp["res"], vp["h"], vp["r"], vp["s"], ev["a"], pre["h"], pre["r"], pre["s"], pre["maj"]))
        elif vp is None:
            key = cls
            what = "%s at event %d (%s) info=%s" % (cls, line, shared.brief(ev), info)
        elif cls == "invalid-forwarded":
            cand = [v for v in vps if (v["h"], v["r"], v["s"]) == (h, r, s) and v["fwd"]]
            vp = ([v for v in cand if v["v1"] or v["v2"]] or cand or [vp])[0]
            key = classify_forwarded(vp, ev, hist, reset)
            what = ("the box forwarded the embedded %s %s voteproof of (h%d r%d s%d), id %s, signed by %s, threshold %s, although it "
                    "is not a voteproof of the suffrage %s: IsValid=%r IsValidVoteproofWithSuffrage=%r" % (
                        vp["kind"], vp["res"], vp["h"], vp["r"], vp["s"], vp["id"][-12:],
                        ["%s:%s" % (x["n"], x["f"]) for x in vp["sfs"]], vp["th10"] / 10.0, reset["nodes"],
                        vp["v1"][-90:], vp["v2"][-90:]))
        else:
            key = classify(cls, vp, reset)
            what = ("%s: %s %s at (h%d r%d s%d) signed by %s, expels %s, threshold %s, suffrage of %d: IsValid=%r "
                    "IsValidVoteproofWithSuffrage=%r" % (
                        cls, vp["kind"], vp["res"], vp["h"], vp["r"], vp["s"],
                        ["%s:%s%s" % (x["n"], x["f"], ("/" + "+".join(x["ex"])) if x["ex"] else "") for x in vp["sfs"]],
                        [x["n"] for x in vp["ex"]], vp["th10"] / 10.0, len(reset["nodes"]), vp["v1"][-90:], vp["v2"][-90:]))
        if cls == "invalid-forwarded":      # one report per class, the number of histories in extra
            n = ctx.extra.setdefault("invalid_forwarded_by_class", {})
            n[key] = n.get(key, 0) + 1
            if n[key] > 1:
                continue
        if (key, line) in seen:
            continue
        seen.add((key, line))
        calls = [shared.brief(e) for e in hist if e["a"] != "Reset"]
        ctx.violation(key, what + " after " + str(calls[-8:]),
                      {"source": source, "class": cls, "line": line, "reset": reset, "calls": calls, "voteproof": vp, "event": ev})


def vote(node, h, r, s, f, ex, sc=False, evp=None):
    return {"op": "Vote", "b": {"node": node, "h": h, "r": r, "s": s, "sc": sc, "f": f, "ex": sorted(ex),
                                "evp": evp or {"name": ""}}}


def steps_to_history(steps, n=2, tag="", hold="never", tick_every=0):
    """a behaviour of Ballotbox.tla as a script: Vote, SetLast and Tick steps (counts and clean cycles are the box's own);
    tick_every=k: the ticker also runs after every k-th step and at the end (a behaviour seldom takes the one Tick step
    among its many enabled Vote steps; on the real box a run of the ticker is always possible)"""
    ops = []
    for i, s in enumerate(steps):
        if tick_every and i > 0 and i % tick_every == 0 and s["a"] != "Tick":
            ops.append({"op": "Tick"})
        if s["a"] == "Vote":
            ops.append(vote(s["node"], s["h"], s["r"], s["s"], s["f"], s["ex"], s["sc"]))
        elif s["a"] == "SetLast":
            ops.append({"op": "SetLast", "h": s["h"], "r": s["r"], "s": s["s"], "maj": s["maj"], "sc": s["sc"]})
        elif s["a"] == "Tick":
            ops.append({"op": "Tick"})
    if tick_every and ops and ops[-1]["op"] != "Tick":
        ops.append({"op": "Tick"})
    return {"n": n, "local": "n0", "t10": 670, "hold": hold, "ops": ops, "tag": tag}


def held_patterns(n, t10):
    """ways to make the INIT record of a point a draw while the voters disagree on one expel (the draw the box holds
    back): a voters carry the expel of the last node, b voters do not; the local node n0 is in either group"""
    names = ["n%d" % i for i in range(n)]
    x = names[-1]
    out = []
    for local_knows in (True, False):
        found = None
        for tot in range(2, n + 1):
            for a in range(1, tot):
                b = tot - a
                if a > n - 1:
                    continue
                sfs = [{"f": "A", "ex": [x]}] * a + [{"f": "A", "ex": []}] * b
                if tally(n, req(n, t10), sfs)[0] != "DRAW":
                    continue
                # who: the expelled node can only be among those who do not carry its expel
                others = names[1:-1]
                if local_knows:
                    know = ["n0"] + others[:a - 1]
                    rest = [v for v in others if v not in know] + [x]
                    dont = rest[:b]
                else:
                    know = others[:a]
                    rest = ["n0"] + [v for v in others if v not in know] + [x]
                    dont = rest[:b]
                if len(know) != a or len(dont) != b:
                    continue
                found = (know, dont, x)
                break
            if found:
                break
        if found:
            out.append(found)
    return out


def hold_grid(quick):
    """forced schedules around a held record: the INIT record of (1, r=1) is made a held draw, then the last point is
    moved (every last point of a small range through SetLastPoint; the ACCEPT majority of the earlier round through late
    ACCEPT ballots or through the voteproof an INIT ballot of the next height carries; not at all), then the count paths
    that do not start from a ballot run: the ticker, MissingNodes, Count"""
    hs = []
    sizes = (3, 4, 5) if quick else (3, 4, 5, 6, 7)
    ths = (670,) if quick else (670, 600, 1000)
    P = (1, 1, 1)
    missing = {"op": "Missing", "h": P[0], "r": P[1], "s": P[2]}
    tails = ([{"op": "Tick"}, missing, {"op": "Count"}, {"op": "Tick"}],     # the ticker meets the record first
             [missing, {"op": "Count"}, {"op": "Tick"}])                     # ... or MissingNodes' count does
    for n in sizes:
        names = ["n%d" % i for i in range(n)]
        for t10 in ths:
            for pi, (know, dont, x) in enumerate(held_patterns(n, t10)):
                votes = []
                for i in range(max(len(know), len(dont))):
                    if i < len(know):
                        votes.append(vote(know[i], P[0], P[1], P[2], "A", [x]))
                    if i < len(dont):
                        votes.append(vote(dont[i], P[0], P[1], P[2], "A", []))

                def add(tag, pre, mid):
                    hs.append({"n": n, "local": "n0", "t10": t10, "hold": "never", "ops": pre + votes + mid + tails[pi % 2],
                               "tag": "hold-n%d-t%d-p%d-%s" % (n, t10, pi, tag)})
                add("control", [], [])
                for h in (1, 2):
                    for r in (0, 1, 2):
                        for st in (1, 3):
                            for maj in (True, False):
                                add("setlast-h%dr%ds%d%s" % (h, r, st, "m" if maj else "d"), [],
                                    [{"op": "SetLast", "h": h, "r": r, "s": st, "maj": maj, "sc": False}])
                # the box finished INIT of round 0, the ACCEPT ballots of round 0 arrive after the INIT ballots of round 1
                init0 = [{"op": "SetLast", "h": 1, "r": 0, "s": 1, "maj": True, "sc": False}]
                add("late-accept", init0, [vote(v, 1, 0, 3, "A", []) for v in names])
                # ... or never arrive: an INIT ballot of the next height carries the ACCEPT voteproof of round 0
                avp = {"name": "A|1|0|A|", "h": 1, "r": 0, "s": 3, "t10": t10, "votes": [[v, "A"] for v in names]}
                add("carried-accept", init0, [vote(names[1], 2, 0, 1, "A", [], evp=avp)])
    return hs


def expel_grid(quick):
    """every suffrage size, a few thresholds, k expelled nodes: the others vote for one fact carrying the expels,
    one by one (so that the count after each vote sees every prefix); the expelled nodes vote last without expels"""
    hs = []
    sizes = range(2, 10)
    ths = [670] if quick else [670, 600, 750, 510, 1000]
    for n in sizes:
        for t10 in ths:
            for k in (1, 2) if not quick else (1,):
                if k >= n:
                    continue
                for stage in (1, 3):
                    names = ["n%d" % i for i in range(n)]
                    ex = names[n - k:]
                    ops = [vote(x, 1, 0, stage, "A", ex) for x in names[:n - k]] + [vote(x, 1, 0, stage, "A", []) for x in ex]
                    hs.append({"n": n, "local": "n0", "t10": t10, "hold": "zero", "ops": ops, "tag": "grid-n%d-t%d-k%d-s%d" % (n, t10, k, stage)})
    return hs


FWD_WEAK = ("trust-id-point", "trust-id", "trust-point-result")


def fwd_evp(o, names, t10):
    """the really signed voteproof behind a content kind of BallotboxFwd.tla"""
    c = o["ec"]
    out = ["x7", "x8", "x9"]
    v = {"name": "fw|%s|%d|%d|%d|%s" % (o["eid"], o["eh"], o["er"], o["es"], c), "id": o["eid"], "h": o["eh"], "r": o["er"],
         "s": o["es"], "t10": t10, "votes": [[x, "A"] for x in names]}
    if c == "draw":
        v["votes"] = [[x, "ABC"[i % 3]] for i, x in enumerate(names)]
    elif c == "foreign":
        v["votes"] = [[x, "B"] for x in out]
        v["force"] = "B"
    elif c == "few":
        v["votes"] = [[names[1], "B"]]
        v["force"] = "B"
    elif c == "mixed":
        v["votes"] = [[names[1], "B"], [out[1], "B"], [out[2], "B"]]
        v["force"] = "B"
    elif c == "highth":
        v["votes"] = [[x, "A"] for x in names[:2]]
        v["t10"] = 1000
        v["force"] = "A"
    elif c == "fdraw":
        v["force"] = "draw"
    elif c == "twice":
        v["votes"] = [[names[0], "A"], [names[0], "B"], [names[1], "A"]]
        v["force"] = "A"
    elif c == "lowth":
        v["t10"] = 510
    return v


def fwd_scripts(steps, quick, seed):
    """behaviours of BallotboxFwd.tla (V emitted, then a ballot embedding V') as scripts"""
    import json
    import random
    uniq = {}
    for s in steps:
        k = json.dumps([s["sufupto"], s["ops"]], sort_keys=True)
        if k in uniq:
            uniq[k]["crit"] = uniq[k]["crit"] or s["crit"]
        else:
            uniq[k] = s
    rows = [uniq[k] for k in sorted(uniq)]

    def collides(s):
        a, b = [o for o in s["ops"] if o["op"] == "Vote"]
        return s["crit"] and a["eid"] == b["eid"] and (a["eh"], a["er"], a["es"]) == (b["eh"], b["er"], b["es"])
    stats = {"behaviours": len(rows), "critical_offers": sum(1 for s in rows if s["crit"]),
             "critical_offers_with_emitted_id_and_point": sum(1 for s in rows if collides(s))}
    if quick:
        # of the critical offers that re-use the emitted ID and stage point: two (seeded) of every class (path, content of
        # V', stage point and content of V) + a seeded sample of all other behaviours; the thorough tier runs everything
        rng = random.Random(seed)
        groups = {}
        for s in rows:
            if collides(s):
                a, b = [o for o in s["ops"] if o["op"] == "Vote"]
                groups.setdefault((s["path"], b["ec"], a["eh"], a["er"], a["es"], a["ec"]), []).append(s)
        picked = []
        for k in sorted(groups):
            g = groups[k]
            rng.shuffle(g)
            picked.extend(g[:2])
        rest = [s for s in rows if not collides(s)]
        rng.shuffle(rest)
        stats["classes_of_critical_offers_with_emitted_id_and_point"] = len(groups)
        rows = picked + rest[:150]
    hs = []
    for n in ((3,) if quick else (3, 4)):
        names = ["n%d" % i for i in range(n)]
        for i, s in enumerate(rows):
            if n > 3 and not collides(s):     # the larger suffrage: the critical offers with the emitted ID and point only
                continue
            ops = []
            for o in s["ops"]:
                if o["op"] == "SetLast":
                    ops.append({"op": "SetLast", "h": o["h"], "r": o["r"], "s": o["s"], "maj": o["maj"], "sc": False})
                else:
                    ops.append(vote(names[o["node"]], o["h"], o["r"], o["s"], "A", [names[-1]] if o["sc"] else [], o["sc"],
                                    evp=fwd_evp(o, names, 670)))
            hs.append({"n": n, "local": "n0", "t10": 670, "hold": "never", "lag": s["sufupto"] != 99, "sufupto": s["sufupto"],
                       "ops": ops, "tag": "fwd-n%d-%s-%s-%d" % (n, s["path"], "crit" if s["crit"] else "ctl", i)})
    stats["scripts_run"] = len(hs)
    return hs, stats


def run(ctx):
    quick = ctx.tier == "quick"
    ctx._stage_spec()
    rd = os.path.join(core.VERIF, "replays", ctx.id)
    if os.path.isdir(rd):
        for f in os.listdir(rd):
            if f.startswith(ctx.tier + "-"):
                os.remove(os.path.join(rd, f))
    jobs = [
        lambda: ctx.tlc("Ballotbox", "Ballotbox_mc_c04_quick.cfg" if quick else "Ballotbox_mc_c04_thorough.cfg", timeout=1800),
        lambda: ctx.tlc("Ballotbox", "Ballotbox_impl_count.cfg", allow_violation=True, count=False, timeout=900, workers=4),
        lambda: ctx.tlc("Ballotbox", "Ballotbox_impl_count2.cfg", allow_violation=True, count=False, timeout=900, workers=4),
        lambda: ctx.tlc_simulate("Ballotbox", "Ballotbox_sim.cfg", num=30 if quick else 500, depth=40, timeout=600 if quick else 2400),
        # held records and the ticker: the transcription of countHoldeds/countHolded/count emits only for stage points
        # the box is voting on (EmitNew); the caller's own filter alone does not - its counterexamples are schedules
        lambda: ctx.tlc("Ballotbox", "Ballotbox_mc_c04_hold.cfg" if quick else "Ballotbox_mc_c04_hold_thorough.cfg", timeout=1800),
        # (the height is closed through SetLastPoint; thorough: also through late ACCEPT ballots, a deeper search)
        lambda: ctx.tlc("Ballotbox", "Ballotbox_impl_tick.cfg", allow_violation=True, count=False, timeout=900, workers=4),
        lambda: ctx.tlc_simulate("Ballotbox", "Ballotbox_sim_hold.cfg", num=40 if quick else 400, depth=30, timeout=600 if quick else 2400),
    ]
    if not quick:
        jobs.append(lambda: ctx.tlc_simulate("Ballotbox", "Ballotbox_sim7.cfg", num=300, depth=30, timeout=2400))
        jobs.append(lambda: ctx.tlc("Ballotbox", "Ballotbox_impl_tick2.cfg", allow_violation=True, count=False, timeout=1800, workers=4))
    nbase = len(jobs)
    # embedded voteproofs as sender-chosen data: every "V emitted, then a ballot embedding V'" behaviour (scripts), the
    # statement's gate keeps ForwardedValid, each shortcut gate that trusts sender-chosen fields must break it
    jobs.append(lambda: ctx.tlc_dump_steps("BallotboxFwd", "BallotboxFwd_mc.cfg", timeout=900, workers=4))
    for g in FWD_WEAK:
        jobs.append(lambda g=g: ctx.tlc("BallotboxFwd", "BallotboxFwd_weak_%s.cfg" % g, allow_violation=True, count=False,
                                        timeout=600, workers=2))
    out = shared.parallel(jobs)
    (rf, fsteps), weak = out[nbase], out[nbase + 1:]
    out = out[:nbase]
    for g, w in zip(FWD_WEAK, weak):
        if not (w.safety_violation and "ForwardedValid" in (w.violated or "")):
            raise core.MachineryError("BallotboxFwd.tla: the shortcut gate %r does not break ForwardedValid - the model does not "
                                      "reach the offers it is meant to enumerate" % g)
    ctx.extra["model_states_forwarding"] = rf.distinct
    r, ri1, ri2, sim, rh, rt1, simh = out[:7]
    rt2 = out[8] if not quick else None
    ctx.exhaustive = True
    ctx.extra["model_states"] = r.distinct
    ctx.extra["model_states_hold"] = rh.distinct
    scripts = []
    cexs = []
    for name, ri, n, reps in (("Ballotbox_impl_count.cfg", ri1, 7, 12), ("Ballotbox_impl_count2.cfg", ri2, 7, 12),
                              ("Ballotbox_impl_tick.cfg", rt1, 3, 3), ("Ballotbox_impl_tick2.cfg", rt2, 3, 3)):
        if ri is not None and ri.safety_violation:
            steps = shared.counterexample_steps(ctx, ri.out)
            cexs.append({"config": name, "violated": ri.violated, "steps": steps, "first": len(scripts), "reps": reps})
            # the order in which countWithExpels meets entries of equal size is a map's: repeat the script
            for i in range(reps):
                scripts.append(steps_to_history(steps, n=n, tag="cex-%s-%d" % (name, i)))
    ctx.extra["impl_model_counterexamples"] = [{"config": c["config"], "violated": c["violated"], "steps": c["steps"]} for c in cexs]
    scripts.extend(expel_grid(quick))
    scripts.extend(hold_grid(quick))
    for i, b in enumerate(sim[1]):
        h = steps_to_history(b, tag="sim%d" % i)
        if h["ops"]:
            scripts.append(h)
    for i, b in enumerate(simh[1]):
        h = steps_to_history(b, n=3, tag="simh%d" % i, hold=("never", "zero")[i % 2], tick_every=3)
        if h["ops"]:
            scripts.append(h)
    if not quick:
        for i, b in enumerate(out[7][1]):
            h = steps_to_history(b, n=7, tag="sim7-%d" % i)
            if h["ops"]:
                scripts.append(h)
    fhs, fstats = fwd_scripts(fsteps, quick, ctx.seed)
    if not fhs or fstats["critical_offers_with_emitted_id_and_point"] == 0:
        raise core.MachineryError("BallotboxFwd.tla exported no critical offers: %s" % fstats)
    scripts.extend(fhs)
    ctx.extra["forwarding"] = fstats
    sp = os.path.join(ctx.work, "scripts.ndjson")
    core.write_ndjson(sp, scripts)
    parts = [("model-scripts", ["run", "--in", sp]),
             ("random-seq", ["record", "--num", 24 if quick else 600, "--len", 36, "--nmax", 9, "--conc", 0]),
             ("random-conc", ["record", "--num", 20 if quick else 500, "--len", 24, "--nmax", 9, "--conc", 1])]
    path = os.path.join(ctx.work, "trace_all.ndjson")
    with open(path, "w") as cat:
        for name, a in parts:
            t = os.path.join(ctx.work, "trace_%s.ndjson" % name)
            p = ctx.vh(["C04"] + a + ["--out", t], timeout=1500)
            m = re.search(r"unsettled=(\d+)", p.stdout)
            if m and int(m.group(1)) > 0:
                ctx.extra["unsettled_calls"] = ctx.extra.get("unsettled_calls", 0) + int(m.group(1))
            cat.write(open(t).read())
    events = core.read_ndjson(path)
    if not events:
        raise core.MachineryError("harness recorded no events")
    ok, res, hw = ctx.tlc_validate_trace("BallotboxTrace", "BallotboxTrace.cfg", path, timeout=1500 if quick else 3600)
    if not ok:
        raise core.MachineryError("trace validation stopped at event %s:\n%s" % (hw, res.out[-3000:]))
    # evidence: one case per history; non-trivial = the box emitted at least one voteproof
    hists = []
    ticks = {"runs": 0, "emitting": 0, "voteproofs": 0, "concurrent_histories_with_ticker": 0}
    for e in events:
        if e["a"] == "Reset":
            hists.append({"reset": e, "ops": [], "vps": 0, "kinds": set()})
            if e.get("ticker"):
                ticks["concurrent_histories_with_ticker"] += 1
        else:
            hists[-1]["ops"].append(shared.brief(e) + (("[" + e["evp"]["name"] + "]") if e.get("evp", {}).get("name") else ""))
            for v in e.get("vps", []):
                hists[-1]["vps"] += 1
                hists[-1]["kinds"].add(v["kind"] + ":" + v["res"] + (":fwd" if v["fwd"] else "") + (":tick" if e["a"] == "Tick" else ""))
            if e["a"] == "Tick":
                ticks["runs"] += 1
                ticks["emitting"] += 1 if e.get("vps") else 0
                ticks["voteproofs"] += len(e.get("vps", []))
    ctx.extra["ticker"] = ticks
    # forwarding scripts: the model says the first ballot's voteproof V is forwarded; a box that does not is not driven
    # the way BallotboxFwd.tla describes (machinery, not a verdict)
    fw = {"histories": 0, "first_forwarded": 0, "second_forwarded": 0}
    cur = None
    for e in events:
        if e["a"] == "Reset":
            cur = {"fwd": e.get("tag", "").startswith("fwd-"), "votes": 0}
            fw["histories"] += 1 if cur["fwd"] else 0
        elif cur and cur["fwd"] and e["a"] == "Vote":
            cur["votes"] += 1
            if e.get("vps"):
                fw["first_forwarded" if cur["votes"] == 1 else "second_forwarded"] += 1
    ctx.extra["forwarding"].update(fw)
    if fw["histories"] and fw["first_forwarded"] * 10 < fw["histories"] * 9:
        raise core.MachineryError("forwarding scripts: the box forwarded the genuine first voteproof in %d of %d histories only: "
                                  "BallotboxFwd.tla does not describe how the recorder drives the box" % (
                                      fw["first_forwarded"], fw["histories"]))
    if ticks["runs"] > 20 and ticks["emitting"] == 0:
        raise core.MachineryError("the ticker of the ballot box never emitted a held voteproof in %d runs: the Tick op does not "
                                  "drive countHoldeds (machine too loaded?)" % ticks["runs"])
    kinds = {}
    for h in hists:
        ctx.case([h["reset"]["nodes"], h["reset"]["local"], h["reset"]["t10"], h["ops"]], nontrivial=h["vps"] > 0,
                 sample={"suffrage": len(h["reset"]["nodes"]), "t10": h["reset"]["t10"], "ops": h["ops"][:10], "emitted": sorted(h["kinds"])})
        for k in h["kinds"]:
            kinds[k] = kinds.get(k, 0) + 1
    ctx.traces += len(hists)
    ctx.extra["emitted_voteproof_kinds"] = kinds
    ctx.extra["voteproofs_checked"] = sum(h["vps"] for h in hists)
    judge(ctx, events, res, "all")
    # which implementation-level counterexamples did the real box reproduce?
    starts = [i for i, e in enumerate(events) if e["a"] == "Reset"]
    model_only = []
    for c in cexs:
        lo = starts[c["first"]]
        hi = starts[c["first"] + c["reps"]] if c["first"] + c["reps"] < len(starts) else len(events)
        hit = any(cls.startswith(PREFIX) and lo < line <= hi for (cls, line, _) in res.mismatches())
        if not hit:
            model_only.append({"config": c["config"], "violated": c["violated"],
                               "note": "the real ballot box did not emit the voteproof the transcription predicts"})
    if model_only:
        ctx.extra["model_only_counterexamples"] = model_only
    ctx.rule = ("one case = one history on a fresh real Ballotbox (suffrage of 1..9 really keyed nodes, threshold, ordered calls with "
                "their ballots, sequential and concurrent); every voteproof read from Voteproof() is checked; non-trivial = the box "
                "emitted at least one voteproof; distinct by (suffrage, local, threshold, call sequence); the op Tick is a run of "
                "the box's own ticker with the holds expired")
    ctx.assumptions = [
        "the suffrage is the same for every height; the box knows it for every height except in the forwarding scripts of a "
        "lagging node (known up to a height); voteproofs are always judged with the real suffrage",
        "forwarded voteproofs (taken out of a ballot) are checked against the weaker reading: the very content embedded in some "
        "ballot handed to Vote (whatever its sender-chosen ID repeats), valid for the suffrage, result = recount with the "
        "voteproof's own threshold",
        "soundness, not completeness: a voteproof the box could have emitted but did not is no violation",
        "whether a record is held (voterecords.countAfter) is not observable: a run of the ticker is judged by what it emitted; "
        "the hold duration is either zero or never expires except in a Tick (no wall-clock dependent hold)",
        "a voteproof must be new with respect to a last point the box had during the call (before it, or after an earlier "
        "voteproof of the same call; concurrent part: the last point before it, of any voteproof emitted meanwhile or set by a "
        "thread); the stronger reading (the box would still accept a ballot for the point) is reported as a divergence only",
    ]
    if ctx.extra.get("unsettled_calls", 0) > 50:
        raise core.MachineryError("too many calls did not come to rest: %s" % ctx.extra["unsettled_calls"])
