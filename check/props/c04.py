"""C04 - the ballot box emits only sound voteproofs.

Spec: Ballotbox.tla. What a count may emit is stated from the statement (Sound: sign facts of the
voteproof's own stage point and flag, from pairwise distinct suffrage nodes, all accepted by Vote
for that (stage point, flag); result = a fresh recount - over the reduced suffrage at 100% when
the voteproof carries expels, which is how every other node validates it). ImplCandidates is the
transcription of voterecords.countFromVoted / countWithExpels; TLC compares the two
(ImplEmitsSound, ImplExpelsMatchMajority) and its counterexamples become scripts.
Binding B (recorder shared with C05, harness/internal/c04): a real isaacstates.Ballotbox is fed
really signed INIT / ACCEPT / suffrage-confirm ballots, with and without expels and embedded
voteproofs, honest and conflicting, sequentially and from goroutines; every voteproof read from
Ballotbox.Voteproof() is logged with its sign facts, expels, result, majority, threshold and the
verdicts of Voteproof.IsValid and isaac.IsValidVoteproofWithSuffrage; BallotboxTrace.tla checks
(i)-(iv) of DESIGN.md section 4 C04 for each of them against the ballots Vote accepted.
"""
import os
import re
from vlib import core
from props import c05 as shared

PREFIX = "C04-"
KEY_EXPEL_TALLY = "expel-vp;tally(t,n)!=tally(100,n-k)"
KEY_EXPEL_MISMATCH = "expel-vp;majority-fact-expels!=voteproof-expels"


def req(n, t10):
    return (n * t10 + 999) // 1000


def tally(q, rq, sfs):
    """Tally.tla Result over sign facts [{'f','ex'},...]: (result, majority key)"""
    th = min(rq, q)
    cnt = {}
    for s in sfs:
        k = (s["f"], tuple(s["ex"]), s.get("sc", False))
        cnt[k] = cnt.get(k, 0) + 1
    tot = len(sfs)
    miss = 0 if tot >= q else q - tot
    for k, c in cnt.items():
        if c >= th:
            return "MAJORITY", k
    if tot > 0 and miss < th and all(c + miss < th for c in cnt.values()):
        return "DRAW", None
    return "NOT YET", None


def classify(cls, vp, reset):
    """name the class of the failing voteproof (stable across seeds)"""
    n = len(reset["nodes"])
    k = len(vp["ex"])
    kind = vp["kind"]
    if k > 0 and cls in ("invalid-with-suffrage", "recount"):
        own = tally(n, req(n, vp["th10"]), vp["sfs"])[0]
        reduced = tally(n - k, n - k, vp["sfs"])[0]
        if own == vp["res"] and reduced != vp["res"]:
            return KEY_EXPEL_TALLY
    if k > 0 and cls == "invalid" and ("unknown expels found" in vp["v1"] or "expels not matched" in vp["v1"]):
        return KEY_EXPEL_MISMATCH
    err = ""
    if cls == "invalid":
        err = vp["v1"]
    elif cls == "invalid-with-suffrage":
        err = vp["v2"]
    m = re.search(r'wrong result; voteproof\("([A-Z ]+)"\) != "([A-Z ]+)', err)
    if m:
        tail = "wrong-result(%s!=%s)" % (m.group(1).replace(" ", ""), m.group(2).replace(" ", ""))
    else:
        seg = re.sub(r'"[^"]*"?', "", err.split(";")[-1].split(",")[0])
        tail = re.sub(r"[^a-z ]+", "", seg.lower()).strip().replace(" ", "-")[:40]
    return "%s;%s%s%s" % (cls, kind, ";fwd" if vp["fwd"] else "", (";" + tail) if tail else "")


def judge(ctx, events, res, source):
    seen = set()
    for (cls, line, info) in res.mismatches():
        if cls.startswith("X-"):
            d = ctx.extra.setdefault("model_divergences_not_alarmed", {})
            d[cls] = d.get(cls, 0) + 1
            continue
        if not cls.startswith(PREFIX):
            continue
        cls = cls[len(PREFIX):]
        ev = events[line - 1]
        start, hist = shared.history_of(events, line)
        reset = events[start]
        m = re.match(r"<<(-?\d+), (\d+), (\d+)>>", info.strip())
        vps = ev.get("vps", [])
        if m:
            h, r, s = int(m.group(1)), int(m.group(2)), int(m.group(3))
            cand = [v for v in vps if (v["h"], v["r"], v["s"]) == (h, r, s)]
            bad = [v for v in cand if v["v1"] or v["v2"]] or cand
            vp = bad[0] if bad else None
        else:
            vp = None
        if vp is None:
            key = cls
            what = "%s at event %d (%s) info=%s" % (cls, line, shared.brief(ev), info)
        else:
            key = classify(cls, vp, reset)
            what = ("%s: %s %s at (h%d r%d s%d) signed by %s, expels %s, threshold %s, suffrage of %d: IsValid=%r "
                    "IsValidVoteproofWithSuffrage=%r" % (
                        cls, vp["kind"], vp["res"], vp["h"], vp["r"], vp["s"],
                        ["%s:%s%s" % (x["n"], x["f"], ("/" + "+".join(x["ex"])) if x["ex"] else "") for x in vp["sfs"]],
                        [x["n"] for x in vp["ex"]], vp["th10"] / 10.0, len(reset["nodes"]), vp["v1"][-90:], vp["v2"][-90:]))
        if (key, line) in seen:
            continue
        seen.add((key, line))
        calls = [shared.brief(e) for e in hist if e["a"] != "Reset"]
        ctx.violation(key, what + " after " + str(calls[-8:]),
                      {"source": source, "class": cls, "line": line, "reset": reset, "calls": calls, "voteproof": vp, "event": ev})


def vote(node, h, r, s, f, ex, sc=False):
    return {"op": "Vote", "b": {"node": node, "h": h, "r": r, "s": s, "sc": sc, "f": f, "ex": sorted(ex), "evp": {"name": ""}}}


def expel_grid(quick):
    """every suffrage size, a few thresholds, k expelled nodes: the others vote for one fact carrying the expels,
    one by one (so that the count after each vote sees every prefix); the expelled nodes vote last without expels"""
    hs = []
    sizes = range(2, 10)
    ths = [670] if quick else [670, 600, 750, 510, 1000]
    for n in sizes:
        for t10 in ths:
            for k in (1, 2) if not quick else (1,):
                if k >= n:
                    continue
                for stage in (1, 3):
                    names = ["n%d" % i for i in range(n)]
                    ex = names[n - k:]
                    ops = [vote(x, 1, 0, stage, "A", ex) for x in names[:n - k]] + [vote(x, 1, 0, stage, "A", []) for x in ex]
                    hs.append({"n": n, "local": "n0", "t10": t10, "hold": "zero", "ops": ops, "tag": "grid-n%d-t%d-k%d-s%d" % (n, t10, k, stage)})
    return hs


def run(ctx):
    quick = ctx.tier == "quick"
    ctx._stage_spec()
    rd = os.path.join(core.VERIF, "replays", ctx.id)
    if os.path.isdir(rd):
        for f in os.listdir(rd):
            if f.startswith(ctx.tier + "-"):
                os.remove(os.path.join(rd, f))
    jobs = [
        lambda: ctx.tlc("Ballotbox", "Ballotbox_mc_c04_quick.cfg" if quick else "Ballotbox_mc_c04_thorough.cfg", timeout=1800),
        lambda: ctx.tlc("Ballotbox", "Ballotbox_impl_count.cfg", allow_violation=True, count=False, timeout=900, workers=4),
        lambda: ctx.tlc("Ballotbox", "Ballotbox_impl_count2.cfg", allow_violation=True, count=False, timeout=900, workers=4),
        lambda: ctx.tlc_simulate("Ballotbox", "Ballotbox_sim.cfg", num=30 if quick else 500, depth=40),
    ]
    if not quick:
        jobs.append(lambda: ctx.tlc_simulate("Ballotbox", "Ballotbox_sim7.cfg", num=300, depth=30))
    out = shared.parallel(jobs)
    r, ri1, ri2, sim = out[0], out[1], out[2], out[3]
    ctx.exhaustive = True
    ctx.extra["model_states"] = r.distinct
    scripts = []
    cexs = []
    for name, ri in (("Ballotbox_impl_count.cfg", ri1), ("Ballotbox_impl_count2.cfg", ri2)):
        if ri.safety_violation:
            steps = shared.counterexample_steps(ctx, ri.out)
            cexs.append({"config": name, "violated": ri.violated, "steps": steps, "first": len(scripts)})
            # the order in which countWithExpels meets entries of equal size is a map's: repeat the script
            for i in range(12):
                scripts.append(shared.steps_to_history(steps, n=7, tag="cex-%s-%d" % (name, i)))
    ctx.extra["impl_model_counterexamples"] = [{"config": c["config"], "violated": c["violated"], "steps": c["steps"]} for c in cexs]
    scripts.extend(expel_grid(quick))
    for i, b in enumerate(sim[1]):
        h = shared.steps_to_history(b, tag="sim%d" % i)
        if h["ops"]:
            scripts.append(h)
    if not quick:
        for i, b in enumerate(out[4][1]):
            h = shared.steps_to_history(b, n=7, tag="sim7-%d" % i)
            if h["ops"]:
                scripts.append(h)
    sp = os.path.join(ctx.work, "scripts.ndjson")
    core.write_ndjson(sp, scripts)
    parts = [("model-scripts", ["run", "--in", sp]),
             ("random-seq", ["record", "--num", 24 if quick else 600, "--len", 36, "--nmax", 9, "--conc", 0]),
             ("random-conc", ["record", "--num", 20 if quick else 500, "--len", 24, "--nmax", 9, "--conc", 1])]
    path = os.path.join(ctx.work, "trace_all.ndjson")
    with open(path, "w") as cat:
        for name, a in parts:
            t = os.path.join(ctx.work, "trace_%s.ndjson" % name)
            p = ctx.vh(["C04"] + a + ["--out", t], timeout=1500)
            m = re.search(r"unsettled=(\d+)", p.stdout)
            if m and int(m.group(1)) > 0:
                ctx.extra["unsettled_calls"] = ctx.extra.get("unsettled_calls", 0) + int(m.group(1))
            cat.write(open(t).read())
    events, res = shared.validate(ctx, path, "all")
    # evidence: one case per history; non-trivial = the box emitted at least one voteproof
    hists = []
    for e in events:
        if e["a"] == "Reset":
            hists.append({"reset": e, "ops": [], "vps": 0, "kinds": set()})
        else:
            hists[-1]["ops"].append(shared.brief(e))
            for v in e.get("vps", []):
                hists[-1]["vps"] += 1
                hists[-1]["kinds"].add(v["kind"] + ":" + v["res"] + (":fwd" if v["fwd"] else ""))
    kinds = {}
    for h in hists:
        ctx.case([h["reset"]["nodes"], h["reset"]["local"], h["reset"]["t10"], h["ops"]], nontrivial=h["vps"] > 0,
                 sample={"suffrage": len(h["reset"]["nodes"]), "t10": h["reset"]["t10"], "ops": h["ops"][:10], "emitted": sorted(h["kinds"])})
        for k in h["kinds"]:
            kinds[k] = kinds.get(k, 0) + 1
    ctx.traces += len(hists)
    ctx.extra["emitted_voteproof_kinds"] = kinds
    ctx.extra["voteproofs_checked"] = sum(h["vps"] for h in hists)
    judge(ctx, events, res, "all")
    # which implementation-level counterexamples did the real box reproduce?
    starts = [i for i, e in enumerate(events) if e["a"] == "Reset"]
    model_only = []
    for c in cexs:
        lo = starts[c["first"]]
        hi = starts[c["first"] + 12] if c["first"] + 12 < len(starts) else len(events)
        hit = any(cls.startswith(PREFIX) and lo < line <= hi for (cls, line, _) in res.mismatches())
        if not hit:
            model_only.append({"config": c["config"], "violated": c["violated"],
                               "note": "the real ballot box did not emit the voteproof the transcription predicts"})
    if model_only:
        ctx.extra["model_only_counterexamples"] = model_only
    ctx.rule = ("one case = one history on a fresh real Ballotbox (suffrage of 1..9 really keyed nodes, threshold, ordered calls with "
                "their ballots, sequential and concurrent); every voteproof read from Voteproof() is checked; non-trivial = the box "
                "emitted at least one voteproof; distinct by (suffrage, local, threshold, call sequence)")
    ctx.assumptions = [
        "suffrage known and the same for every height",
        "forwarded voteproofs (taken out of a ballot) are checked against the weaker reading: embedded in some ballot handed to "
        "Vote, valid for the suffrage, result = recount with the voteproof's own threshold",
        "soundness, not completeness: a voteproof the box could have emitted but did not is no violation",
    ]
    if ctx.extra.get("unsettled_calls", 0) > 50:
        raise core.MachineryError("too many calls did not come to rest: %s" % ctx.extra["unsettled_calls"])
