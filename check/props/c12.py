"""C12 - Merkle fixed tree (util/fixedtree). Spec: FixedTree.tla. Binding A.

Every distinct state of the exhaustive config (tree size, one tree mutation | proof target, one
proof mutation) and every state of seeded -simulate walks over sizes 1..2000 is one case: the real
fixedtree.Writer builds the tree (random distinct keys, SHA3-256 node hash), Tree.IsValid /
Tree.Proof / Proof.IsValid / Proof.Prove are called on the unmodified and on the modified
objects, and the outcome must be what the statement says (valid, proves, change detected, root
changed). The extracted proof must have the layout the specification computes with exact integer
index arithmetic. A large tree (2^16+3 / 2^18+5 nodes) checks the float index arithmetic of the
code around every level boundary."""
import os
from vlib import core


def where(size, idx):
    if idx == 0:
        return "root"
    return "inner" if 2 * idx + 1 < size else "leaf"


def run(ctx):
    quick = ctx.tier == "quick"
    cfg = "FixedTree_mc_quick.cfg" if quick else "FixedTree_mc_thorough.cfg"
    r, steps = ctx.tlc_dump_steps("FixedTree", cfg, timeout=2400)
    if len(steps) != r.distinct - 1:
        raise core.MachineryError("%s: %d states but %d steps" % (cfg, r.distinct, len(steps)))
    nexh = len(steps)
    ctx.exhaustive = True
    # the statement's "every change in a proof is detected" on the transcription of Proof.Prove: a candidate only
    rc = ctx.tlc("FixedTree", "FixedTree_mc_candidate.cfg", allow_violation=True, timeout=900, count=False)
    ctx.extra["model_candidate_ProofMutationDetected"] = ("violated on the transcription (see UndetectedAreNonPathKeys)"
                                                          if rc.safety_violation else "holds on the transcription")
    _, behs = ctx.tlc_simulate("FixedTree", "FixedTree_sim.cfg", num=40 if quick else 600, depth=25 if quick else 40)
    for b in behs:
        steps.extend(b)
        ctx.traces += 1
    ctx.rule = ("every state of %s (sizes, every node x {key,hash,rekey}, every target, every non-empty proof entry x "
                "{key,hash}) + %d -simulate walks of FixedTree_sim.cfg (sizes 1..2000); non-trivial = a mutation or a "
                "proof is involved; distinct by (size, tree mutation, target, proof mutation)" % (cfg, len(behs)))
    cases = os.path.join(ctx.work, "cases.ndjson")
    core.write_ndjson(cases, steps)
    res = os.path.join(ctx.work, "res.ndjson")
    ctx.vh(["C12", "replay", "--in", cases, "--out", res], timeout=2400)
    rows = core.read_ndjson(res)
    if len(rows) != len(steps):
        raise core.MachineryError("harness answered %d of %d cases" % (len(rows), len(steps)))
    calls = 0
    model_only = []
    kinds = {}
    for c, row in zip(steps, rows):
        calls += row["calls"]
        size, mt, x, mp = c["size"], c["mutT"], c["x"], c["mutP"]
        kind = ("tree-" + mt[1]) if mt else ("proof-" + mp[1] if mp else ("proof" if x >= 0 else "build"))
        kinds[kind] = kinds.get(kind, 0) + 1
        ctx.case([size, mt, x, mp], nontrivial=kind != "build", sample={"case": {k: c[k] for k in ("size", "mutT", "x", "mutP", "layout")}, "result": row})
        judge(ctx, c, row, model_only)
    ctx.traces += nexh
    # one large tree
    big = os.path.join(ctx.work, "big.ndjson")
    n = (1 << 16) + 3 if quick else (1 << 18) + 5
    ctx.vh(["C12", "big", "--size", n, "--out", big], timeout=1200)
    b = core.read_ndjson(big)[0]
    calls += b["calls"]
    ctx.traces += 1
    ctx.case(["big", n], nontrivial=True)
    if b.get("panic"):
        ctx.violation("panic(big-tree)", "tree of %d nodes: %s" % (n, b["panic"][:300]), b)
    elif not b["valid"]:
        ctx.violation("built-tree-invalid", "the tree of %d nodes built by the Writer does not validate" % n, b)
    elif b["fails"]:
        ctx.violation("big-tree(%s)" % ("proof" if "roof" in b["fails"][0] else "mutation"), "tree of %d nodes: %s" % (n, b["fails"][0]), b)
    ctx.extra["big_tree"] = {"size": n, "proofs": b["proofs"], "tree_mutations": b["tree_mutations"], "fails": len(b["fails"])}
    ctx.extra["real_calls"] = calls
    ctx.extra["cases_by_kind"] = kinds
    ctx.extra["model_only_counterexamples"] = model_only[:20]
    ctx.assumptions = [
        "node i of the specification is a BaseNode with a random distinct string key; the ideal hash of the specification "
        "stands for SHA3-256 over key||left||right (no collision is assumed, none is searched)",
        "a change = one key replaced by a fresh key, or one hash replaced by another 32-byte value (bit flip / unrelated "
        "hash / hash without children); empty proof entries have neither and are not changed",
        "a changed proof counts as detected if Proof.IsValid or Proof.Prove(key) returns an error (weak reading of "
        "'validation or proof verification fail')",
        "Proof.Prove does not take a root: binding the last entry to a trusted root is the caller's business (C13)",
    ]


def judge(ctx, c, row, model_only):
    """one case of FixedTree.tla against what the real code did"""
    size, mt, x, mp = c["size"], c["mutT"], c["x"], c["mutP"]
    kind = ("tree-" + mt[1]) if mt else ("proof-" + mp[1] if mp else ("proof" if x >= 0 else "build"))
    rec = {"case": c, "result": row}
    if row.get("panic"):
        ctx.violation("panic(%s)" % kind, "size %d %s: %s" % (size, kind, row["panic"][:300]), rec)
        return kind
    if kind == "build":
        if row.get("valid") is not True:
            ctx.violation("built-tree-invalid", "the tree of %d nodes built by the Writer does not validate: %s" % (size, row.get("validerr")), rec)
    elif kind in ("tree-key", "tree-hash"):
        if row.get("valid") is not False:
            ctx.violation("tree-mutation-accepted(%s;%s)" % (mt[1], where(size, mt[0])),
                          "tree of %d nodes with the %s of node %d changed still validates" % (size, mt[1], mt[0]), rec)
    elif kind == "tree-rekey":
        if row.get("rootchanged") is not True:
            ctx.violation("root-unchanged(%s)" % where(size, mt[0]), "tree of %d nodes: key of node %d changed, same root" % (size, mt[0]), rec)
        elif row.get("rekeyvalid") is not True:
            ctx.violation("built-tree-invalid", "re-keyed tree of %d nodes does not validate" % size, rec)
    elif kind == "proof":
        if row.get("proves") is not True:
            ctx.violation("proof-rejected(%s)" % where(size, x), "size %d: proof of node %d does not verify: %s" % (size, x, row.get("proveerr")), rec)
        elif row.get("layout_ok") is not True:
            ctx.violation("proof-layout(%s)" % where(size, x), "size %d: proof of node %d is %s, specification %s" % (size, x, row.get("layout_got"), c["layout"]), rec)
        elif row.get("root_is_last") is not True:
            ctx.violation("proof-root", "size %d: last entry of the proof of node %d is not the root" % (size, x), rec)
        if c["impl"] == 0 and row.get("proves") is True:
            model_only.append({"case": [size, x], "what": "transcription rejects, code proves"})
    else:
        if row.get("layout_ok") is False:
            ctx.violation("proof-layout(%s)" % where(size, x), "size %d: proof of node %d: entry %d is not the specification's" % (size, x, mp[0]), rec)
        elif row.get("detect") is not True:
            if mp[1] == "key" and c["onpath"] == 0:
                key = "proof-nonpath-key"
            else:
                key = "proof-mutation-accepted(%s;%s)" % (mp[1], "path" if c["onpath"] == 1 else "nonpath")
            ctx.violation(key, "size %d, proof of node %d (layout %s): %s of entry %d (tree node %d, %s the path) changed, "
                          "Proof.IsValid and Proof.Prove still pass" % (size, x, c["layout"], mp[1], mp[0], c["layout"][mp[0]],
                                                                         "on" if c["onpath"] == 1 else "not on"), rec)
        if c["impl"] != -1 and (c["impl"] == 1) != (row.get("detect") is not True):
            model_only.append({"case": [size, x, mp], "what": "transcription says proves=%d, code detect=%s" % (c["impl"], row.get("detect"))})
    return kind


def replay(ctx, path):
    """re-run the case of a replay file on the current tree"""
    import json
    case = json.load(open(path))["case"]
    if "case" not in case:
        raise core.MachineryError("replay of the large tree: re-run the tier")
    c = case["case"]
    cases, res = os.path.join(ctx.work, "cases.ndjson"), os.path.join(ctx.work, "res.ndjson")
    core.write_ndjson(cases, [c])
    ctx.vh(["C12", "replay", "--in", cases, "--out", res])
    row = core.read_ndjson(res)[0]
    ctx.traces += 1
    ctx.case(["replay", c["size"], c["mutT"], c["x"], c["mutP"]], nontrivial=True, sample={"case": c, "result": row})
    judge(ctx, c, row, [])
