"""C30 - stream header protocol (network/quicstream/header/broker.go). Spec: StreamHeader.tla.
Binding A: every completed run of the exhaustive TLC exploration (client messages, the handler's
calls in TLC's order, the client's read calls, each with the value it must return; optionally one
adversary action on a token of one direction) is replayed on the real ClientBroker and on the
real HandlerBroker behind quicstreamheader.NewHandler, with the real JSON encoder, over
in-memory streams delivered in 4 chunkings x 2 EOF styles. Seeded raw-byte fuzz of the read
side (flips, truncations, garbage, insertions; random chunking) checks 'a message or an error,
never a panic'."""
import json
import os
from vlib import core


def tamper_class(c, f=None):
    t = c.get("tam") or {}
    if c.get("fuzz"):
        return "fuzz-" + c.get("tamper", "?")
    if not t.get("dir"):
        return "untouched"
    return "%s-%s(%s)" % (t["a"], (f or {}).get("tok", "?"), t["dir"])


def qualifier(fs):
    combos = [(x["plan"], x["eof"]) for x in fs if x.get("plan")]
    if not combos or len(combos) != len(fs):
        return ""
    if all(e == "eager" for _, e in combos):
        return ";eof-with-last-bytes"
    if all(p != "all" for p, _ in combos):
        return ";chunked"
    return ""


def op_msg(c, f):
    ops = c.get("hops") if f["side"] == "handler" else c.get("cops")
    if ops and 0 <= f["at"] < len(ops):
        o = ops[f["at"]]
        return "%s(%s %s)" % (o["op"], o["t"], o["k"])
    return f.get("op", "?")


def judge(ctx, cases, rows, label):
    if len(rows) != len(cases):
        raise core.MachineryError("harness answered %d of %d %s cases" % (len(rows), len(cases), label))
    rows.sort(key=lambda r: r["i"])
    calls = skipped = 0
    anyc = {}
    for c, row in zip(cases, rows):
        calls += row["calls"]
        skipped += row.get("skipped_huge_alloc", 0)
        for k, v in (row.get("any") or {}).items():
            anyc[k] = anyc.get(k, 0) + v
        seen = {}
        for f in row.get("fails", []):
            if f["side"] == "machinery":
                raise core.MachineryError("%s case %d: harness and specification disagree on the tokens: %s / %s" % (label, row["i"], f["got"], f["want"]))
            if f["kind"] in ("panic", "hang"):
                key = "%s;%s;%s" % (f["kind"], f["side"], tamper_class(c, f))
            elif tamper_class(c) == "untouched":
                key = "roundtrip;%s-%s;%s" % (f["side"], op_msg(c, f), f["kind"])
            else:
                key = "before-adversary;%s-%s;%s" % (f["side"], op_msg(c, f), f["kind"])
            seen.setdefault(key, []).append(f)
        for key, fs in seen.items():
            f = fs[0]
            if not key.startswith(("panic", "hang")):
                key += qualifier(fs)
            where = sorted(set("%s/%s" % (x["plan"], x["eof"]) for x in fs if x.get("plan")))
            what = "%s %s [%s] chunking %s: got %s; the specification says %s" % (
                f["side"], op_msg(c, f), tamper_class(c, f), ",".join(where)[:60], f["got"][:200].replace("\n", " "), f["want"] or "-")
            small = {k: v for k, v in c.items() if k not in ("fails", "any")}
            ctx.violation(key, what, {"case": small, "failures": fs[:6]})
    return calls, skipped, anyc


def params(ctx):
    if ctx.tier == "quick":
        return dict(cfgs=["StreamHeader_mc_quick.cfg", "StreamHeader_tamper_quick.cfg"], fuzz=3000)
    return dict(cfgs=["StreamHeader_mc_thorough.cfg", "StreamHeader_tamper_thorough.cfg"], fuzz=60000)


def run(ctx):
    P = params(ctx)
    ctx.exhaustive = True
    ctx.rule = ("cases = completed runs of StreamHeader.tla under %s (request head, client bodies, handler reads/writes in every "
                "order, client reads; second config: one adversary action on a type/length token or a cut of one direction), each "
                "replayed in 4 chunkings x 2 EOF styles; plus %d seeded raw-byte fuzz cases of the read side; non-trivial = at "
                "least one body or response; distinct by (client messages, handler calls, client calls, adversary action)" % (
                    " + ".join(P["cfgs"]), P["fuzz"]))
    calls = skipped = 0
    anyc = {}
    nruns = {}
    for cfg in P["cfgs"]:
        r, steps = ctx.tlc_dump_steps("StreamHeader", cfg, timeout=2400)
        f = os.path.join(ctx.work, cfg + ".ndjson")
        core.write_ndjson(f, steps)
        ctx.vh(["C30", "replay", "--in", f, "--out", f + ".res"], timeout=3000)
        c, s, a = judge(ctx, steps, core.read_ndjson(f + ".res"), cfg)
        calls += c
        skipped += s
        for k, v in a.items():
            anyc[k] = anyc.get(k, 0) + v
        nruns[cfg] = len(steps)
        for k, st in enumerate(steps):
            ctx.case([st["cmsgs"], st["hops"], st["cops"], st["tam"]], len(st["cmsgs"]) > 1 or len(st["hops"]) > 1,
                     sample=st if k % 499 == 0 else None)
        ctx.traces += len(steps)
    fres = os.path.join(ctx.work, "fuzz.ndjson")
    ctx.vh(["C30", "fuzz", "--num", P["fuzz"], "--out", fres], timeout=3000)
    frows = core.read_ndjson(fres)
    frows.sort(key=lambda r: r["i"])
    c, s, a = judge(ctx, frows, [dict(r) for r in frows], "fuzz")
    calls += c
    skipped += s
    for fr in frows:
        ctx.case(["fuzz", fr["seed"], fr["i"]], fr["bytes"] > 0)
    ctx.traces += len(frows)
    ctx.extra["runs"] = nruns
    ctx.extra["fuzz_cases"] = len(frows)
    ctx.extra["fuzz_outcomes"] = a
    ctx.extra["real_calls"] = calls
    ctx.extra["skipped_huge_alloc"] = skipped
    ctx.extra["unconstrained_call_outcomes"] = anyc
    ctx.extra["stronger_reading_not_alarmed"] = {
        "short-fixed-body-without-error": anyc.get("short-fixed-body-without-error", 0)}
    ctx.assumptions = [
        "the two directions are replayed in phases (client writes; handler reads and writes; client reads) over in-memory "
        "streams: the brokers are sequential objects, concurrency of the two endpoints adds no behaviour on FIFO streams",
        "after the adversary's token only 'message or error, no panic, returns within 60 s' is demanded; messages before it "
        "must be read identically",
        "a fixed-length body cut short by the end of the stream is delivered as a shorter body with a clean EOF (the consumer "
        "has bodyLength to compare); counted as short-fixed-body-without-error, not alarmed",
        "hostile lengths of the lengthed head parts between 1 MiB and 2^31-1 are not run (the reader allocates the announced "
        "size per Read call); counted in skipped_huge_alloc. Lengths >= 2^31 are refused by the code and are run",
        "request header type of the harness: verif-request-header-v1.2.3 (BaseRequestHeader + id), response: DefaultResponseHeader",
    ]


def replay(ctx, path):
    rep = json.load(open(path))
    c = rep["case"]["case"]
    f = os.path.join(ctx.work, "one.ndjson")
    if c.get("fuzz"):
        ctx.vh(["C30", "fuzz", "--seed", c["seed"], "--only", c["i"], "--out", f + ".res"])
        rows = core.read_ndjson(f + ".res")
        judge(ctx, rows, [dict(r) for r in rows], "fuzz")
    else:
        core.write_ndjson(f, [c])
        ctx.vh(["C30", "replay", "--in", f, "--out", f + ".res"])
        judge(ctx, [c], core.read_ndjson(f + ".res"), "replayed")
    ctx.traces += 1
    ctx.rule = "replay of " + path
