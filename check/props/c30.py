"""C30 - stream header protocol (network/quicstream/header/broker.go). Spec: StreamHeader.tla.
Binding A: every completed run of the exhaustive TLC exploration (client messages, the handler's
calls in TLC's order, the client's read calls, each with the value it must return; optionally one
adversary action on a token of one direction) is replayed on the real ClientBroker and on the
real HandlerBroker behind quicstreamheader.NewHandler, with the real JSON encoder, over
in-memory streams delivered in 4 chunkings x 2 EOF styles. Seeded raw-byte fuzz of the read
side (flips, truncations, garbage, insertions; random chunking) checks 'a message or an error,
never a panic'."""
import json
import os
import re
from vlib import core

MAX_CRASH_ROUNDS = 3      # crashes of the many-case process that are followed up before the rest is given up
MAX_CRASHING_UNITS = 4    # crashing (delivery, EOF style) units examined per case that crashes alone


def tamper_class(c, f=None):
    t = c.get("tam") or {}
    if c.get("fuzz"):
        return "fuzz-" + c.get("tamper", "?")
    if not t.get("dir"):
        return "untouched"
    return "%s-%s(%s)" % (t["a"], (f or {}).get("tok", "?"), t["dir"])


def qualifier(fs):
    combos = [(x["plan"], x["eof"]) for x in fs if x.get("plan")]
    if not combos or len(combos) != len(fs):
        return ""
    if all(e == "eager" for _, e in combos):
        return ";eof-with-last-bytes"
    if all(p.startswith("cut(") for p, _ in combos):
        return ";sparse-delivery"       # only when a chunk ends inside a field and the next one is not cut at the field's end
    if all(p != "all" for p, _ in combos):
        return ";chunked"
    return ""


def op_msg(c, f):
    ops = c.get("hops") if f["side"] == "handler" else c.get("cops")
    if ops and 0 <= f["at"] < len(ops):
        o = ops[f["at"]]
        return "%s(%s %s)" % (o["op"], o["t"], o["k"])
    return f.get("op", "?")


# ------------------------------------------------------------------ panics: whose code was it
MODULE = "github.com/spikeekips/mitum/"
FRAME = re.compile(r"^(\S.*)\n\t(/\S+?):(\d+)(?: \+0x[0-9a-f]+)?$", re.M)


def panic_origin(text):
    """(where, function, frames from the panicking one on) of a Go panic report - the text of a died process' stderr or what h.Catch
    recorded (message + debug.Stack()). where: 'repo' when the panicking frame (the first frame after the
    runtime's own ones that belongs to the repository or to the harness) is code of the tree under test,
    'harness' when it is ours, None when the text is no panic report."""
    m = re.search(r"^(panic: .*|fatal error: concurrent map .*)$", text, re.M)
    if not m:
        return None, None, []
    rest = text[m.end():]
    g = re.search(r"^goroutine \d+ \[[^\]]*\]:\n", rest, re.M)
    if not g:
        return None, None, []
    block = rest[g.end():].split("\n\n", 1)[0]
    frames = [(fm.group(1), fm.group(2), int(fm.group(3))) for fm in FRAME.finditer(block)]
    last = max([i for i, fr in enumerate(frames) if fr[0].startswith("panic(")], default=-1)
    repo = os.path.realpath(core.REPO) + "/"
    harness = os.path.realpath(core.HARNESS) + "/"
    for j in range(last + 1, len(frames)):
        fn, path, _ = frames[j]
        if fn.startswith("created by "):
            break
        rp = os.path.realpath(path)
        name = strip_args(fn.replace(MODULE, ""))
        if rp.startswith(harness):
            return "harness", name, frames[j:]
        if rp.startswith(repo):
            return "repo", name, frames[j:]
    return None, None, frames


def strip_args(fn):
    """'util.EnsureRead({0x13..}, ...)' -> 'util.EnsureRead'; 'header.(*baseBroker).readHead(0xc0..)' keeps the receiver"""
    depth = 0
    for i in range(len(fn) - 1, -1, -1):
        if fn[i] == ")":
            depth += 1
        elif fn[i] == "(":
            depth -= 1
            if depth == 0:
                return fn[:i]
    return fn


def panic_head(text, frames, n=6):
    m = re.search(r"^(panic: .*|fatal error: .*)$", text, re.M)
    return (m.group(1) if m else "panic") + " at " + " <- ".join("%s (%s:%d)" % (strip_args(f.replace(MODULE, "")), os.path.basename(p), l)
                                                                 for f, p, l in frames[:n])


# ------------------------------------------------------------------ running cases in processes that may die
def read_progress(path):
    started, rows, unit = [], {}, None
    if os.path.exists(path):
        with open(path) as f:
            for line in f:
                line = line.strip()
                if not line:
                    continue
                try:
                    d = json.loads(line)
                except ValueError:
                    continue        # the line the process was writing when it died
                if "start" in d:
                    started.append(d["start"])
                elif "unit" in d:
                    unit = d
                else:
                    rows[d["i"]] = d
    return started, rows, unit


def crash_of(p, what):
    """the panic of a died harness process, or MachineryError: only a panic of the code under test is a verdict"""
    where, fn, frames = panic_origin(p.stderr)
    if where != "repo":
        raise core.MachineryError("%s exited %d%s:\n%s\n%s" % (
            what, p.returncode, " (panic in harness code %s)" % fn if where == "harness" else "", p.stdout[-2000:], p.stderr[-4000:]))
    return fn, panic_head(p.stderr, frames)


def run_alone(ctx, base, i, tag, deep):
    """case i alone in fresh processes. Returns (row, number of crashes). A crash is charged to the
    (delivery, EOF style) unit that was running; the case is then re-run without that unit, so that what its
    other units show is reported as well."""
    skip, fails, row = [], [], None
    out = os.path.join(ctx.work, "%s.alone%d.res" % (tag, i))
    for _ in range(MAX_CRASHING_UNITS if deep else 1):
        args = base + ["--only", i, "--out", out, "--trace", "1", "--workers", "1", "--grace", "300"]
        if skip:
            args += ["--skip", ";".join(skip)]
        p = ctx.vh(args, timeout=600, check=False)
        _, rows, unit = read_progress(out)
        if p.returncode == 0:
            row = rows.get(i)
            if row is None:
                raise core.MachineryError("%s case %d alone: no result" % (tag, i))
            break
        fn, head = crash_of(p, "vh %s (case %d alone)" % (" ".join(map(str, base)), i))
        if unit is None or unit.get("case") != i:
            raise core.MachineryError("%s case %d alone: the process died outside any guarded call:\n%s" % (tag, i, p.stderr[-3000:]))
        name = unit["unit"]
        plan, _, eof = name.partition(":")[2].rpartition("/") if name.startswith(("c2h:", "h2c:")) else name.rpartition("/")
        fails.append({"side": unit["side"], "at": -1, "op": unit["side"], "kind": "panic", "plan": plan or "random", "eof": eof or name,
                      "got": head, "want": "a message or an error", "fn": fn, "process_died": True, "unit": name, "tok": unit.get("tok", "")})
        if name == "fuzz" or name in skip:
            break
        skip.append(name)
    if row is None:
        row = {"i": i, "calls": 0, "units": 0, "incomplete": True}
    if fails:
        row["fails"] = fails + row.get("fails", [])
        row["crashed_units"] = [f["unit"] for f in fails]
    return row, len(fails)


def run_cases(ctx, base, n, tag, timeout=3000):
    """Cases 0..n-1 of `vh <base>`; returns {i: row}. The code under test starts goroutines of its own, a panic
    there ends the process: the cases that were running are re-run alone; those that die alone with a panic whose
    origin is the repository's code get a row saying so (-> verdict), the others their ordinary row; the
    remaining cases go on in a fresh process. A death that is not such a panic, or that no case reproduces
    alone, is a MachineryError."""
    pending, rows, rounds = list(range(n)), {}, 0
    while pending:
        ids = os.path.join(ctx.work, "%s.ids%d" % (tag, rounds))
        out = os.path.join(ctx.work, "%s.res%d" % (tag, rounds))
        with open(ids, "w") as f:
            f.write("".join("%d\n" % i for i in pending))
        what = "vh %s --ids .." % " ".join(map(str, base))
        p = ctx.vh(base + ["--ids", ids, "--out", out], timeout=timeout, check=False)
        started, done, _ = read_progress(out)
        rows.update(done)
        if p.returncode == 0:
            if len(done) != len(pending):
                raise core.MachineryError("harness answered %d of %d %s cases" % (len(done), len(pending), tag))
            break
        fn, head = crash_of(p, what)
        suspects = [i for i in started if i not in done]
        confirmed = 0
        for i in suspects:
            row, ncrash = run_alone(ctx, base, i, tag, deep=confirmed < 2 and rounds == 0)
            rows[i] = row
            confirmed += 1 if ncrash else 0
        if not confirmed:
            raise core.MachineryError("%s died (%s) but none of the cases %s dies alone:\n%s" % (what, head, suspects, p.stderr[-3000:]))
        rounds += 1
        ctx.extra.setdefault("process_deaths", []).append({"run": tag, "panic": head, "cases_running": suspects, "die_alone": confirmed})
        pending = [i for i in pending if i not in rows]
        if rounds >= MAX_CRASH_ROUNDS and pending:
            ctx.extra.setdefault("not_replayed_after_process_deaths", {})[tag] = len(pending)
            break
    return rows


def judge(ctx, cases, rows, label):
    """cases: list; rows: {i: row} (cases without a row were given up after repeated process deaths)"""
    calls = skipped = units = sparse = 0
    anyc = {}
    for i in sorted(rows):
        c, row = cases[i], rows[i]
        if row.get("not_run_after_hangs"):
            ctx.extra["not_run_after_hangs"] = ctx.extra.get("not_run_after_hangs", 0) + 1
            continue
        calls += row.get("calls", 0)
        units += row.get("units", 0)
        sparse += row.get("sparse", 0)
        skipped += row.get("skipped_huge_alloc", 0)
        for k, v in (row.get("any") or {}).items():
            anyc[k] = anyc.get(k, 0) + v
        seen = {}
        for f in row.get("fails", []):
            if f["side"] == "machinery":
                raise core.MachineryError("%s case %d: harness and specification disagree on the tokens: %s / %s" % (label, row["i"], f["got"], f.get("want")))
            if f["kind"] == "panic":
                fn = f.get("fn")
                if not fn:
                    where, fn, frames = panic_origin(f["got"])
                    if where == "harness":
                        raise core.MachineryError("%s case %d: panic in harness code %s:\n%s" % (label, row["i"], fn, f["got"][:3000]))
                    if where == "repo":
                        f["got"] = panic_head(f["got"], frames)
                key = "panic(%s);%s;%s" % (fn or "?", f["side"], "fuzz" if c.get("fuzz") else tamper_class(c, f))
            elif f["kind"] == "hang":
                key = "%s;%s;%s" % (f["kind"], f["side"], tamper_class(c, f))
            elif c.get("fuzz"):
                key = "roundtrip;%s-%s;%s;random-chunks" % (f["side"], f.get("op", "?"), f["kind"])
            elif tamper_class(c) == "untouched":
                key = "roundtrip;%s-%s;%s" % (f["side"], op_msg(c, f), f["kind"])
            else:
                key = "before-adversary;%s-%s;%s" % (f["side"], op_msg(c, f), f["kind"])
            seen.setdefault(key, []).append(f)
        for key, fs in seen.items():
            f = fs[0]
            if not key.startswith(("panic", "hang")) and not c.get("fuzz"):
                key += qualifier(fs)
            where = sorted(set("%s/%s" % (x["plan"], x["eof"]) for x in fs if x.get("plan")))
            what = "%s %s [%s] chunking %s: got %s; the specification says %s" % (
                f["side"], op_msg(c, f), tamper_class(c, f), ",".join(where)[:60], f["got"][:300].replace("\n", " "), f.get("want") or "-")
            small = {k: v for k, v in c.items() if k not in ("fails", "any")}
            ctx.violation(key, what, {"case": small, "failures": fs[:6]})
    return calls, skipped, anyc, units, sparse


def params(ctx):
    if ctx.tier == "quick":
        return dict(cfgs=["StreamHeader_mc_quick.cfg", "StreamHeader_tamper_quick.cfg"], fuzz=3000)
    return dict(cfgs=["StreamHeader_mc_thorough.cfg", "StreamHeader_tamper_thorough.cfg"], fuzz=60000)


def run(ctx):
    P = params(ctx)
    ctx.exhaustive = True
    ctx.rule = ("cases = completed runs of StreamHeader.tla under %s (request head, client bodies, handler reads/writes in every "
                "order, client reads; second config: one adversary action on a type/length token or a cut of one direction), each "
                "replayed in 4 dense deliveries x 2 EOF styles, and - once per distinct (bytes of a direction, read calls of that "
                "direction) - in every sparse delivery of the specification (Deliveries: one or two cut points anywhere, a chunk "
                "completes a field and carries bytes of the next) x 2 EOF styles; plus %d seeded raw-byte fuzz cases of the read "
                "side under random chunk sizes (untouched ones must read back what was written); non-trivial = at "
                "least one body or response; distinct by (client messages, handler calls, client calls, adversary action)" % (
                    " + ".join(P["cfgs"]), P["fuzz"]))
    calls = skipped = units = sparse = 0
    anyc = {}
    nruns = {}
    for cfg in P["cfgs"]:
        r, steps = ctx.tlc_dump_steps("StreamHeader", cfg, timeout=2400)
        f = os.path.join(ctx.work, cfg + ".ndjson")
        core.write_ndjson(f, steps)
        rows = run_cases(ctx, ["C30", "replay", "--in", f], len(steps), cfg)
        c, s, a, u, sp = judge(ctx, steps, rows, cfg)
        calls += c
        skipped += s
        units += u
        sparse += sp
        for k, v in a.items():
            anyc[k] = anyc.get(k, 0) + v
        nruns[cfg] = len(steps)
        for k, st in enumerate(steps):
            if k not in rows:
                continue
            ctx.case([st["cmsgs"], st["hops"], st["cops"], st["tam"]], len(st["cmsgs"]) > 1 or len(st["hops"]) > 1,
                     sample={x: y for x, y in st.items() if x != "cuts"} if k % 499 == 0 else None)
        ctx.traces += len(rows)
    frows = run_cases(ctx, ["C30", "fuzz", "--num", P["fuzz"]], P["fuzz"], "fuzz")
    for r in frows.values():      # rows written for a process that died carry no description of the case
        r.setdefault("fuzz", True)
        r.setdefault("seed", ctx.seed)
        r.setdefault("tamper", "?")
    fcases = {i: dict(r) for i, r in frows.items()}
    c, s, a, _, _ = judge(ctx, fcases, frows, "fuzz")
    calls += c
    skipped += s
    for i in sorted(frows):
        fr = frows[i]
        ctx.case(["fuzz", fr.get("seed", ctx.seed), fr["i"]], fr.get("bytes", 0) > 0)
    ctx.traces += len(frows)
    ctx.extra["runs"] = nruns
    ctx.extra["delivery_units"] = units
    ctx.extra["sparse_delivery_units"] = sparse
    ctx.extra["fuzz_cases"] = len(frows)
    ctx.extra["fuzz_untouched_read_back"] = sum(1 for r in frows.values() if r.get("tamper") == "none")
    ctx.extra["fuzz_outcomes"] = a
    ctx.extra["real_calls"] = calls
    ctx.extra["skipped_huge_alloc"] = skipped
    ctx.extra["unconstrained_call_outcomes"] = anyc
    ctx.extra["stronger_reading_not_alarmed"] = {
        "short-fixed-body-without-error": anyc.get("short-fixed-body-without-error", 0)}
    ctx.assumptions = [
        "the two directions are replayed in phases (client writes; handler reads and writes; client reads) over in-memory "
        "streams: the brokers are sequential objects, concurrency of the two endpoints adds no behaviour on FIFO streams",
        "after the adversary's token only 'message or error, no panic, returns within 60 s' is demanded; messages before it "
        "must be read identically",
        "a fixed-length body cut short by the end of the stream is delivered as a shorter body with a clean EOF (the consumer "
        "has bodyLength to compare); counted as short-fixed-body-without-error, not alarmed",
        "hostile lengths of the lengthed head parts between 1 MiB and 2^31-1 are not run (the reader allocates the announced "
        "size per Read call); counted in skipped_huge_alloc. Lengths >= 2^31 are refused by the code and are run",
        "request header type of the harness: verif-request-header-v1.2.3 (BaseRequestHeader + id), response: DefaultResponseHeader",
        "sparse deliveries are performed once per (messages of the direction, adversary action, read calls of the direction), by "
        "the first run of that class: what a side reads does not depend on what it writes in between (the dense deliveries are "
        "performed for every interleaving)",
        "a panic in a goroutine the repository starts itself (util.AwareContextValue, util.EnsureRead) ends the harness process; "
        "it is a verdict only if the panicking frame is repository code and the case dies again when run alone; after %d such "
        "deaths per run the remaining cases are not replayed (not_replayed_after_process_deaths)" % MAX_CRASH_ROUNDS,
    ]


def replay(ctx, path):
    rep = json.load(open(path))
    c = rep["case"]["case"]
    f = os.path.join(ctx.work, "one.ndjson")
    if c.get("fuzz"):
        row, _ = run_alone(ctx, ["C30", "fuzz", "--seed", c["seed"]], c["i"], "fuzz-replay", True)
        for k in ("fuzz", "tamper", "seed"):
            row.setdefault(k, c.get(k))
        judge(ctx, {c["i"]: dict(row)}, {c["i"]: row}, "fuzz")
    else:
        core.write_ndjson(f, [c])
        judge(ctx, [c], run_cases(ctx, ["C30", "replay", "--in", f], 1, "replayed"), "replayed")
    ctx.traces += 1
    ctx.rule = "replay of " + path
