"""C19 - database reads agree with the committed chain. Spec: Database.tla (+ DatabaseTrace.tla).

Binding A, three sources of behaviours of Database.tla, all replayed on a real Center +
LeveldbPermanent + LeveldbBlockWrite over one leveldb storage:
  1. exhaustive: TLC enumerates every distinct abstract state (chain shape x merge boundary x
     generations) of a small instance; the shortest path to each state is replayed and every
     read is compared at its end;
  2. -simulate behaviours of a larger instance with every read compared after every step;
  3. the counterexamples of the implementation-level transcription (ImplAgrees...) - candidates
     that only count when the real code shows them.
Binding B: concurrent readers during writes and merges; DatabaseTrace.tla validates the log.
"""
import json
import os
from vlib import core

ID = "C19"


# ------------------------------------------------------------------ shared with C20 / C26
def steps_to_case(cid, steps, check="all", permcache=0, writecache=0):
    """steps: decoded `step` values of one behaviour (each has a, r, len, tf, ilh)."""
    acts, reads, ilh, ln, tf = [], [], [], [], []
    for i, s in enumerate(steps):
        acts.append(s["a"])
        last = i == len(steps) - 1
        reads.append(s["r"] if (check == "all" or last) else None)
        ilh.append(s["ilh"])
        ln.append(s["len"])
        tf.append(s["tf"])
    return {"id": cid, "acts": acts, "reads": reads, "ilh": ilh, "len": ln, "tf": tf,
            "permcache": permcache, "writecache": writecache}


def path_case(cid, s, permcache=0, writecache=0):
    """a dumped state of an exhaustive run: path + the reads at its end."""
    acts = s["path"]
    n = len(acts)
    return {"id": cid, "acts": acts, "reads": [None] * (n - 1) + [s["r"]], "ilh": [0] * (n - 1) + [s["ilh"]],
            "len": [0] * (n - 1) + [s["len"]], "tf": [0] * (n - 1) + [s["tf"]],
            "permcache": permcache, "writecache": writecache}


def canon_acts(acts):
    out = []
    for a in acts:
        if a["name"] in ("Write", "PermMerge"):
            out.append([a["name"], a["h"], "".join(sorted(k[0] for k in a["st"]))])
        elif a["name"] == "Remove":
            out.append(["Remove", a["h"]])
        elif a["name"] == "PoolPut":
            out.append(["PoolPut", a["kind"]])
        else:
            out.append([a["name"]])
    return out


def classify(d, case):
    """name the class of a difference between a read of the real database and the model."""
    read, arg, got, want = d["read"], d.get("arg", ""), d["got"], d["want"]
    ln, tf = d.get("len", 0), d.get("tf", 0)
    ntemps = ln - tf + 1
    base = read[:-5] if read.endswith("Bytes") else read
    if base == "SuffrageProof":
        # number of suffrage changes so far = first index the model does not find
        nsuf = None
        r = case["reads"][d["step"]]
        if r is not None:
            nsuf = sum(1 for x in r["sp"] if x)
        if want == "-" and got not in ("-", "-9.-9") and nsuf is not None and int(arg) >= nsuf:
            return "SuffrageProof(sh>existing)"
        return "%s(%s)" % (read, "not-found" if got == "-" else "wrong-proof")
    if read == "SuffrageProofByBlockHeight":
        h = int(arg)
        oldest = tf - 1          # height of the oldest temp
        if ntemps > 0 and h < oldest - 1 and got not in ("-", "-9.-9") and int(got.split(".")[0]) > h:
            return "ProofByBlockHeight(h<oldest-temp-1)"     # the proof of a block above the one asked for
        return "ProofByBlockHeight(%s)" % ("not-found" if got == "-" else "wrong-proof" if want != "-" else "found-beyond")
    if base in ("State",):
        if got == "-":
            return "%s(lost)" % read
        if want == "-":
            return "%s(phantom)" % read
        if got == "-9.-9":
            return "%s(undecodable-or-foreign)" % read
        return "%s(%s)" % (read, "stale" if got < want else "other-block")
    if read in ("ExistsInStateOperation", "ExistsKnownOperation"):
        return "%s(%s)" % (read, "lost" if got == "false" else "phantom")
    if read in ("WriteBlock", "MergeOne", "MergeAllPermanent", "RemoveBlocks", "temps"):
        return "%s(%s)" % (read, "error" if got.startswith("error") else "wrong-result")
    return "%s(%s)" % (read, "lost" if got == "-" else "phantom" if want == "-" else "wrong-object")


def run_cases(ctx, prop, cases, keys, maxlen, tag, extra_args=()):
    """write cases, run the harness, return results in case order."""
    cp = os.path.join(ctx.work, "cases-%s.ndjson" % tag)
    rp = os.path.join(ctx.work, "res-%s.ndjson" % tag)
    core.write_ndjson(cp, cases)
    ctx.vh([prop, "replay", "--in", cp, "--out", rp, "--keys", ",".join(keys), "--maxlen", maxlen] + list(extra_args),
           timeout=3000)
    rows = {r["id"]: r for r in core.read_ndjson(rp)}
    if len(rows) != len(cases):
        raise core.MachineryError("harness answered %d of %d cases (%s)" % (len(rows), len(cases), tag))
    return [rows[c["id"]] for c in cases]


def judge(ctx, cases, results, source):
    """turn the differences into verdicts; returns number of cases with a difference."""
    bad = 0
    info = ctx.extra.setdefault("reported_only", {})
    for c, r in zip(cases, results):
        ctx.traces += 1
        ctx.extra["real_steps"] = ctx.extra.get("real_steps", 0) + r["steps"]
        ctx.extra["real_read_rounds"] = ctx.extra.get("real_read_rounds", 0) + r["reads"]
        acts = canon_acts(c["acts"])
        ctx.case(acts, nontrivial=any(a[0] in ("Write", "PermMerge") for a in acts),
                 sample={"source": source, "acts": acts, "ok": r["ok"]})
        for d in r.get("info", []):
            info[d["read"]] = info.get(d["read"], 0) + 1
        if r.get("panic"):
            ctx.violation("panic", "panic while replaying %s: %s" % (acts, r["panic"][:400]), {"case": c, "result": r})
            bad += 1
            continue
        if r.get("fatal") and not r.get("diffs"):
            raise core.MachineryError("replay of case %s stopped: %s" % (c["id"], r["fatal"]))
        if r.get("diffs"):
            bad += 1
        seen = set()
        for d in r.get("diffs", []):
            key = classify(d, c)
            if key in seen:
                continue
            seen.add(key)
            ctx.violation(key, "%s(%s) = %s, the committed chain says %s (chain length %d, temps from height %d) after %s" % (
                d["read"], d.get("arg", ""), d["got"], d["want"], d.get("len", 0), d.get("tf", 1) - 1,
                acts[:d["step"] + 1][-8:]),
                {"source": source, "diff": d, "all_diffs": r["diffs"][:20], "errs": r.get("errs", [])[:5], "case": c})
    return bad


KEYS_Q = ["a", "SUF", "POL"]


def run(ctx):
    import time
    quick = ctx.tier == "quick"
    t0 = [time.time()]
    ph = ctx.extra.setdefault("phase_s", {})

    def phase(name):
        ph[name] = round(time.time() - t0[0], 1)
        t0[0] = time.time()
    # 1. exhaustive: the model's own properties + every distinct state replayed
    cfg = "Database_mc_quick.cfg" if quick else "Database_mc_thorough.cfg"
    maxlen = 3 if quick else 4
    r, states = ctx.tlc_dump_steps("Database", cfg, timeout=1500)
    phase("tlc_exhaustive")
    cases = [path_case(i, s, permcache=(0, 2, 4096)[i % 3], writecache=(0, 1, 64)[(i // 3) % 3])
             for i, s in enumerate(states)]
    res = run_cases(ctx, ID, cases, KEYS_Q, maxlen, "exh")
    judge(ctx, cases, res, "exhaustive")
    ctx.extra["exhaustive_states_replayed"] = len(cases)
    phase("replay_exhaustive")

    # 2. implementation-level transcription: candidates
    cands = {}
    # (the exhaustive configs above carry the REPAIRED transcription and ImplAgrees... as invariants: what
    # fixes/C19-*.diff leaves agrees with the statement on the whole instance.) Here the pinned tree's
    # transcription: quick = one run that stops at the first disagreement, thorough = one run per read.
    runs = [("Database_impl_pinned_quick.cfg", None)] if quick else [
        ("Database_impl_ImplAgreesSuffrageProof.cfg", "ImplAgreesSuffrageProof"),
        ("Database_impl_ImplAgreesProofByBlockHeight.cfg", "ImplAgreesProofByBlockHeight")]
    for c, inv in runs:
        rr = ctx.tlc("Database", c, args=["-noGenerateSpecTE"], allow_violation=True, count=False, timeout=600,
                     workers=2 if quick else None)
        if rr.safety_violation:
            cands[rr.violated] = True
    for inv in ("ImplAgreesSuffrageProof", "ImplAgreesProofByBlockHeight"):
        cands.setdefault(inv, False)
    phase("impl")
    ctx.extra["impl_transcription_disagrees"] = cands
    met = set(k for (k, _, _) in ctx.viol) | set(ctx.known_hit)
    moc = []
    if cands["ImplAgreesSuffrageProof"] and not any("SuffrageProof(sh>existing)" in k for k in met):
        moc.append("ImplAgreesSuffrageProof: the transcription of suffrageProofInTemps returns an older proof for a "
                   "suffrage height that does not exist yet; not met on this tree")
    if cands["ImplAgreesProofByBlockHeight"] and not any("ProofByBlockHeight(h<oldest-temp-1)" in k for k in met):
        moc.append("ImplAgreesProofByBlockHeight: the transcription of SuffrageProofByBlockHeight asks the permanent "
                   "store for oldest-temp-1; not met on this tree")
    ctx.extra["model_only_counterexamples"] = moc

    # 3. random behaviours of a larger instance, every read after every step
    num, depth = (100, 30) if quick else (1000, 50)
    _, behs = ctx.tlc_simulate("Database", "Database_sim.cfg", num=num, depth=2 * depth)   # action + ReadAll
    phase("tlc_simulate")
    cases = [steps_to_case(i, b, permcache=(0, 2, 4096)[i % 3], writecache=(0, 1, 64)[(i // 3) % 3])
             for i, b in enumerate(behs)]
    res = run_cases(ctx, ID, cases, ["a", "b", "SUF", "POL"], 8, "sim")
    judge(ctx, cases, res, "simulate")
    phase("replay_simulate")

    # 4. concurrent readers (binding B)
    readers(ctx)
    phase("readers")

    # 5. forced schedules of the permanent store's state cache against a merge (binding G)
    forced(ctx, ID, "PermCache_enum_quick.cfg" if quick else "PermCache_enum.cfg")
    phase("forced")

    ctx.exhaustive = True
    ctx.rule = ("behaviours of Database.tla (WriteBlock/MergeOne/MergeAll/RemoveBlocks) replayed on a real Center; "
                "exhaustive part: shortest path to every distinct state of %s, reads compared at its end; random part: "
                "-simulate behaviours with all reads compared after every step; non-trivial = at least one block written; "
                "distinct by action sequence (block contents by key set)" % cfg)
    ctx.assumptions = [
        "blocks are written through the BlockWriteDatabase API in the order a block writer uses it "
        "(SetStates, SetOperations, SetBlockMap, SetSuffrageProof, Write, MergeBlockWriteDatabase)",
        "a block that changes the suffrage state carries the suffrage proof of the next suffrage height",
        "LastSuffrageProofBytes' extra height is not constrained by the statement (reported in reported_only)",
    ]


STALE_KEY = "State-older-than-committed;perm-state-cache"


def forced(ctx, prop, cfg, extra_args=()):
    """PermCache.tla: every distinct state of the interleaving model is a schedule; those a single merge call
    can realise are forced on the real code through the gates in (Leveldb|Redis)Permanent.State. A verdict only
    from what the real database answers: a read that was called after a merge had ended (or after the whole
    schedule) and returns an older state than that merge committed."""
    r, states = ctx.tlc_dump_steps("PermCache", cfg, timeout=900)
    cases = []
    for s in states:
        for wc in (64, 0):
            cases.append({"id": len(cases), "sched": s["sched"], "stored": s["stored"], "cache": s["cache"],
                          "rets": s["rets"], "los": s["los"], "writecache": wc,
                          "model_ok": bool(s["fresh"] and s["nostale"])})
    cp = os.path.join(ctx.work, "forced-cases.ndjson")
    rp = os.path.join(ctx.work, "forced-res.ndjson")
    core.write_ndjson(cp, cases)
    ctx.vh([prop, "forced", "--in", cp, "--out", rp] + list(extra_args), timeout=1800)
    rows = {x["id"]: x for x in core.read_ndjson(rp)}
    if len(rows) != len(cases):
        raise core.MachineryError("forced: harness answered %d of %d schedules" % (len(rows), len(cases)))
    st = {"schedules": len(cases), "forced": 0, "not_forced": 0, "stale_on_code": 0, "model_stale": 0,
          "model_stale_not_met": 0, "prediction_differs": 0}
    for c in cases:
        x = rows[c["id"]]
        if x.get("panic"):
            ctx.violation("forced(panic)", "panic while forcing %s: %s" % (c["sched"], x["panic"][:300]), {"case": c})
            continue
        if not x["forced"]:
            st["not_forced"] += 1
            continue
        st["forced"] += 1
        ctx.traces += 1
        ctx.case(["forced", c["sched"], c["writecache"]], nontrivial=any(a[0] == "m" for a in c["sched"]),
                 sample={"source": "forced", "sched": c["sched"], "fresh": x["fresh"], "stored": x["stored"]})
        if not c["model_ok"]:
            st["model_stale"] += 1
        predicted = c["cache"] if c["cache"] != -1 else c["stored"]
        if x["fresh"] != predicted:
            st["prediction_differs"] += 1
        stale = x["fresh"] >= -1 and x["fresh"] < x["stored"]
        why = "a read after the schedule returns height %d, the last merged block wrote height %d" % (
            2 * x["fresh"], 2 * x["stored"])
        for rd, v in (x.get("rets") or {}).items():
            lo = c["los"].get(rd, -1)
            if c["rets"].get(rd, -1) != -1 and lo != -1 and v < lo:
                stale = True
                why = "reader %s was called after the merge of height %d had ended and got height %d" % (rd, 2 * lo, 2 * v)
        if stale:
            st["stale_on_code"] += 1
            ctx.violation(STALE_KEY, "forced schedule %s (block write state cache %d): %s" % (c["sched"], c["writecache"], why),
                          {"source": "forced", "case": c, "result": x})
        elif not c["model_ok"]:
            st["model_stale_not_met"] += 1
    ctx.extra["forced_schedules"] = st
    if st["model_stale_not_met"]:
        ctx.extra.setdefault("model_only_counterexamples", []).append(
            "PermCache: %d schedules end with a stale cache in the model but not on this tree" % st["model_stale_not_met"])
    if st["forced"] == 0:
        raise core.MachineryError("no schedule of PermCache.tla could be forced")


def readers(ctx):
    quick = ctx.tier == "quick"
    t = os.path.join(ctx.work, "readers.ndjson")
    ctx.vh([ID, "readers", "--out", t, "--runs", 6 if quick else 40, "--blocks", 12 if quick else 30,
            "--readers", 4, "--reads", 700 if quick else 1500], timeout=1200)
    events = core.read_ndjson(t)
    ok, res, hw = ctx.tlc_validate_trace("DatabaseTrace", "DatabaseTrace.cfg", t, timeout=1500)
    nruns = sum(1 for e in events if e["a"] == "Reset")
    ctx.traces += nruns
    ctx.extra["reader_events"] = len(events)
    if not ok and hw is not None:
        ev = events[hw - 1] if 0 < hw <= len(events) else None
        ctx.violation("readers(trace-rejected)", "reader event %s is not explained by DatabaseTrace.tla: %s" % (hw, ev),
                      {"line": hw, "event": ev})
    seen = set()
    pc_at = []
    pc = 0
    for e in events:
        if e["a"] == "Reset":
            pc = e.get("pc", 0)
        pc_at.append(pc)
    older = 0
    for (cls, line, rest) in res.mismatches():
        ev = events[line - 1]
        if cls in ("stale-read(State)", "committed-not-visible(State)"):
            # one class of history: a State read answered with an older state than a commit that had returned
            key = STALE_KEY if pc_at[line - 1] > 0 else "readers(State-older-than-committed;no-cache)"
            older += 1
        else:
            key = "readers(%s)" % cls
        if key in seen:
            continue
        seen.add(key)
        ctx.violation(key, "concurrent readers: reader %s: %s (permanent store state cache size %d); got/want %s" % (
            ev.get("r"), ev, pc_at[line - 1], rest),
            {"class": cls, "event": ev, "permcache": pc_at[line - 1], "before": events[max(0, line - 12):line]})
    ctx.extra["reader_state_reads_older_than_committed"] = older
