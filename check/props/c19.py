"""C19 - database reads agree with the committed chain. Spec: Database.tla (+ DatabaseTrace.tla).

Binding A, three sources of behaviours of Database.tla, all replayed on a real Center +
LeveldbPermanent + LeveldbBlockWrite over one leveldb storage:
  1. exhaustive: TLC enumerates every distinct abstract state (chain shape x merge boundary x
     generations) of a small instance; the shortest path to each state is replayed and every
     read is compared at its end;
  2. -simulate behaviours of a larger instance with every read compared after every step;
  3. the counterexamples of the implementation-level transcription (ImplAgrees...) - candidates
     that only count when the real code shows them.
Binding B: concurrent readers during writes and merges; DatabaseTrace.tla validates the log.
"""
import json
import os
import random
from vlib import core

ID = "C19"


# ------------------------------------------------------------------ shared with C20 / C26
def _acts(acts, model_wc, keep_reads):
    out = []
    for a in acts:
        if a["name"] == "Read" and not keep_reads:
            continue
        if not model_wc and "wc" in a:
            a = {k: v for k, v in a.items() if k != "wc"}
        out.append(a)
    return out


def steps_to_case(cid, steps, check="all", permcache=0, writecache=0, model_wc=False):
    """steps: decoded `step` values of one behaviour (each has a, r, rd, len, tf, ilh). A step whose `rd` is false
    (NoRead of the spec) is performed without any read. model_wc: the spec chose per block whether the block
    write database has a state cache (else the case's writecache holds for every block)."""
    acts, reads, ilh, ln, tf = [], [], [], [], []
    for i, s in enumerate(steps):
        acts.append(s["a"])
        last = i == len(steps) - 1
        reads.append(s["r"] if (s.get("rd", True) and (check == "all" or last)) else None)
        ilh.append(s["ilh"])
        ln.append(s["len"])
        tf.append(s["tf"])
    return {"id": cid, "acts": _acts(acts, model_wc, True), "reads": reads, "ilh": ilh, "len": ln, "tf": tf,
            "permcache": permcache, "writecache": writecache}


def path_case(cid, s, permcache=0, writecache=0, model_wc=False, reads_in_path=False):
    """a dumped state of an exhaustive run: path + the reads at its end. reads_in_path: the path's Read steps
    (ReadAll of the spec: every read is performed there and fills the caches) are kept; the last one is where the
    reads are compared."""
    acts = _acts(s["path"], model_wc, reads_in_path)
    n = len(acts)
    return {"id": cid, "acts": acts, "reads": [None] * (n - 1) + [s["r"]], "ilh": [0] * (n - 1) + [s["ilh"]],
            "len": [0] * (n - 1) + [s["len"]], "tf": [0] * (n - 1) + [s["tf"]],
            "permcache": permcache, "writecache": writecache}


def stratified(states, keyf, per, rng, must=None):
    """seeded sample that keeps every stratum (class of state) represented: up to `per` states of each stratum
    plus every state `must` selects."""
    groups = {}
    for s in states:
        groups.setdefault(repr(keyf(s)), []).append(s)
    out = []
    for k in sorted(groups):
        g = groups[k]
        keep = [s for s in g if must and must(s)]
        rest = [s for s in g if not (must and must(s))]
        rng.shuffle(rest)
        out += keep + rest[:max(0, per - len(keep))]
    return out, len(groups)


def big_of(s):
    """(size class, height, merged into the permanent store, still in the chain) of the big block of a dumped state"""
    for a in s["path"]:
        if a["name"] in ("Write", "PermMerge") and a.get("cls", "s") != "s":
            alive = any(k[0] == a["h"] and k[1] == a["g"] for k in s["r"]["kno"])
            return (a["cls"], a["h"], alive and a["h"] < s["tf"] - 1, alive)
    return None


def canon_acts(acts):
    out = []
    for a in acts:
        if a["name"] in ("Write", "PermMerge"):
            row = [a["name"], a["h"], "".join(sorted(k[0] for k in a["st"]))]
            if a.get("cls", "s") != "s":
                row.append(a["cls"])
            if a.get("wc") is not None:
                row.append("wc" if a["wc"] else "nowc")
            out.append(row)
        elif a["name"] == "Remove":
            out.append(["Remove", a["h"]])
        elif a["name"] == "PoolPut":
            out.append(["PoolPut", a["kind"]])
        else:
            out.append([a["name"]])
    return out


def classify(d, case):
    """name the class of a difference between a read of the real database and the model."""
    read, arg, got, want = d["read"], d.get("arg", ""), d["got"], d["want"]
    ln, tf = d.get("len", 0), d.get("tf", 0)
    ntemps = ln - tf + 1
    base = read[:-5] if read.endswith("Bytes") else read
    if base == "SuffrageProof":
        # number of suffrage changes so far = first index the model does not find
        nsuf = None
        r = case["reads"][d["step"]]
        if r is not None:
            nsuf = sum(1 for x in r["sp"] if x)
        if want == "-" and got not in ("-", "-9.-9") and nsuf is not None and int(arg) >= nsuf:
            return "SuffrageProof(sh>existing)"
        return "%s(%s)" % (read, "not-found" if got == "-" else "wrong-proof")
    if read == "SuffrageProofByBlockHeight":
        h = int(arg)
        oldest = tf - 1          # height of the oldest temp
        if ntemps > 0 and h < oldest - 1 and got not in ("-", "-9.-9") and int(got.split(".")[0]) > h:
            return "ProofByBlockHeight(h<oldest-temp-1)"     # the proof of a block above the one asked for
        return "ProofByBlockHeight(%s)" % ("not-found" if got == "-" else "wrong-proof" if want != "-" else "found-beyond")
    if base in ("State",):
        if got == "-":
            return "%s(lost)" % read
        if want == "-":
            return "%s(phantom)" % read
        if got == "-9.-9":
            return "%s(undecodable-or-foreign)" % read
        return "%s(%s)" % (read, "stale" if got < want else "other-block")
    if read.endswith("[filler]"):
        # a record of a block with filler states: name the class by where the block is and how many batches moved it
        h, g = (int(x) for x in arg.split("."))
        w = [a for a in case["acts"] if a["name"] in ("Write", "PermMerge") and a["h"] == h and a["g"] == g]
        gn, wn = (int(x.split()[0]) if x.split()[0].isdigit() else -1 for x in (got, want))
        what = "lost" if gn < wn else "phantom"
        if not w:
            return "%s(%s)" % (read, what)
        merged = h < tf - 1
        if merged:
            where = "merged-block;%s" % ("several-merge-batches" if w[0].get("mb", 1) > 1 else "one-merge-batch")
        else:
            where = "temp-block;%s" % ("several-write-batches" if w[0].get("wb", 1) > 1 else "one-write-batch")
        return "%s(%s;%s)" % (read, what, where)
    if read in ("ExistsInStateOperation", "ExistsKnownOperation"):
        if arg.endswith(".-1") or arg.endswith(".partial"):
            return "%s(some-of-a-block-lost)" % read       # some operations of a block exist, others do not
        return "%s(%s)" % (read, "lost" if got == "false" else "phantom")
    if read in ("WriteBlock", "MergeOne", "MergeAllPermanent", "RemoveBlocks", "temps"):
        return "%s(%s)" % (read, "error" if got.startswith("error") else "wrong-result")
    return "%s(%s)" % (read, "lost" if got == "-" else "phantom" if want == "-" else "wrong-object")


def run_cases(ctx, prop, cases, keys, maxlen, tag, extra_args=()):
    """write cases, run the harness, return results in case order."""
    cp = os.path.join(ctx.work, "cases-%s.ndjson" % tag)
    rp = os.path.join(ctx.work, "res-%s.ndjson" % tag)
    core.write_ndjson(cp, cases)
    ctx.vh([prop, "replay", "--in", cp, "--out", rp, "--keys", ",".join(keys), "--maxlen", maxlen] + list(extra_args),
           timeout=3000)
    rows = {r["id"]: r for r in core.read_ndjson(rp)}
    if len(rows) != len(cases):
        raise core.MachineryError("harness answered %d of %d cases (%s)" % (len(rows), len(cases), tag))
    return [rows[c["id"]] for c in cases]


def judge(ctx, cases, results, source):
    """turn the differences into verdicts; returns number of cases with a difference."""
    bad = 0
    info = ctx.extra.setdefault("reported_only", {})
    for c, r in zip(cases, results):
        ctx.traces += 1
        ctx.extra["real_steps"] = ctx.extra.get("real_steps", 0) + r["steps"]
        ctx.extra["real_read_rounds"] = ctx.extra.get("real_read_rounds", 0) + r["reads"]
        acts = canon_acts(c["acts"])
        ctx.case(acts, nontrivial=any(a[0] in ("Write", "PermMerge") for a in acts),
                 sample={"source": source, "acts": acts, "ok": r["ok"]})
        for d in r.get("info", []):
            info[d["read"]] = info.get(d["read"], 0) + 1
        if r.get("panic"):
            ctx.violation("panic", "panic while replaying %s: %s" % (acts, r["panic"][:400]), {"case": c, "result": r})
            bad += 1
            continue
        if r.get("fatal") and not r.get("diffs"):
            raise core.MachineryError("replay of case %s stopped: %s" % (c["id"], r["fatal"]))
        if r.get("diffs"):
            bad += 1
        seen = set()
        for d in r.get("diffs", []):
            key = classify(d, c)
            if key in seen:
                continue
            seen.add(key)
            ctx.violation(key, "%s(%s) = %s, the committed chain says %s (chain length %d, temps from height %d) after %s" % (
                d["read"], d.get("arg", ""), d["got"], d["want"], d.get("len", 0), d.get("tf", 1) - 1,
                acts[:d["step"] + 1][-8:]),
                {"source": source, "diff": d, "all_diffs": r["diffs"][:20], "errs": r.get("errs", [])[:5], "case": c})
    return bad


KEYS_Q = ["a", "SUF", "POL"]


def run(ctx):
    import time
    quick = ctx.tier == "quick"
    t0 = [time.time()]
    ph = ctx.extra.setdefault("phase_s", {})

    def phase(name):
        ph[name] = round(time.time() - t0[0], 1)
        t0[0] = time.time()
    rng = random.Random(ctx.seed)
    # (development aid: VERIF_C19_ONLY=size,mem runs only the named parts; the evidence then says so)
    only = [x for x in os.environ.get("VERIF_C19_ONLY", "").split(",") if x]
    if only:
        ctx.extra["partial_run_only"] = only
    cfg = "Database_mc_quick.cfg" if quick else "Database_mc_thorough.cfg"
    cfg_s = "Database_size_mc_quick.cfg" if quick else "Database_size_mc_thorough.cfg"
    cfg_m = "Database_mem_mc_quick.cfg" if quick else "Database_mem_mc_thorough.cfg"

    def part_exh():
        # 1. exhaustive: the model's own properties + every distinct state replayed (the path's Read steps are
        # performed: every read after every action, compared at the end)
        maxlen = 3 if quick else 4
        r, states = ctx.tlc_dump_steps("Database", cfg, timeout=1500)
        phase("tlc_exhaustive")
        cases = [path_case(i, s, permcache=(0, 2, 4096)[i % 3], writecache=(0, 1, 64)[(i // 3) % 3], reads_in_path=True)
                 for i, s in enumerate(states)]
        res = run_cases(ctx, ID, cases, KEYS_Q, maxlen, "exh")
        judge(ctx, cases, res, "exhaustive")
        ctx.extra["exhaustive_states_replayed"] = len(cases)
        phase("replay_exhaustive")

    def part_size():
        # 1b. block size: one block of the chain has a size class (records below / at / above the block write batch
        # limit and the permanent merge batch limit, several batches); EVERY record of it is read at the end of the path.
        # quick: a seeded sample that keeps every (class, big block merged / temp / removed, last action) represented
        r, states = ctx.tlc_dump_steps("Database", cfg_s, timeout=1500)
        phase("tlc_size")
        states = [s for s in states if big_of(s)]
        nall = len(states)
        if quick:
            states, nstrata = stratified(states, lambda s: (big_of(s)[0], big_of(s)[2], big_of(s)[3], s["a"]["name"]), 2, rng)
        cases = [path_case(i, s, permcache=(4096, 0, 2)[i % 3], writecache=(0, 64, 1)[(i // 3) % 3], reads_in_path=True)
                 for i, s in enumerate(states)]
        res = run_cases(ctx, ID, cases, KEYS_Q, 3, "size")
        judge(ctx, cases, res, "size")
        cov = {}
        for s in states:
            b = big_of(s)
            k = "%s:%s" % (b[0], "merged" if b[2] else "temp" if b[3] else "removed")
            cov[k] = cov.get(k, 0) + 1
        ctx.extra["size_classes"] = {"states": nall, "replayed": len(cases), "by_class": cov}
        if not any(k.endswith(":merged") and k[0] == "m" and k[:2] in ("m+", "mm", "m3") for k in cov):
            raise core.MachineryError("no block above the permanent merge batch limit was merged")
        phase("replay_size")

    def part_mem():
        # 1c. memory: the spec chooses per block whether the block write database has a state cache and where reads
        # happen (ReadAll / NoRead); chains of 4 blocks so that a key can be merged, read (cached), written again and
        # merged again. `eff` in the view keeps one path per distinct effect on the memory; quick: every state whose
        # last action had to invalidate a cached key or merged / forgot a temp cache, a seeded sample of the others
        r, states = ctx.tlc_dump_steps("Database", cfg_m, timeout=1500)
        phase("tlc_mem")
        states = [s for s in states if s["rd"]]
        nall = len(states)
        ndrop = sum(1 for s in states if s["mem"]["eff"]["drop"])
        if quick:
            states, nstrata = stratified(states, lambda s: (s["a"]["name"], s["mem"]["eff"]["tc"], len(s["mem"]["pc"]), s["len"]),
                                         4, rng, must=lambda s: bool(s["mem"]["eff"]["drop"]))
        cases = [path_case(i, s, permcache=(4096, 2, 4096, 0)[i % 4], writecache=(64, 1)[(i // 4) % 2], model_wc=True,
                           reads_in_path=True) for i, s in enumerate(states)]
        res = run_cases(ctx, ID, cases, KEYS_Q, 4, "mem")
        judge(ctx, cases, res, "memory")
        ctx.extra["memory_states"] = {"states": nall, "replayed": len(cases), "merge_invalidates_cached_key": ndrop}
        if ndrop == 0:
            raise core.MachineryError("no state in which a merge invalidates a cached key")
        phase("replay_mem")

    def part_impl():
        # 2. implementation-level transcription: candidates
        cands = {}
        # (the exhaustive configs above carry the REPAIRED transcription and ImplAgrees... as invariants: what
        # fixes/C19-*.diff leaves agrees with the statement on the whole instance.) Here the pinned tree's
        # transcription: quick = one run that stops at the first disagreement, thorough = one run per read.
        runs = [("Database_impl_pinned_quick.cfg", None)] if quick else [
            ("Database_impl_ImplAgreesSuffrageProof.cfg", "ImplAgreesSuffrageProof"),
            ("Database_impl_ImplAgreesProofByBlockHeight.cfg", "ImplAgreesProofByBlockHeight")]
        for c, inv in runs:
            rr = ctx.tlc("Database", c, args=["-noGenerateSpecTE"], allow_violation=True, count=False, timeout=600,
                         workers=2 if quick else None)
            if rr.safety_violation:
                cands[rr.violated] = True
        for inv in ("ImplAgreesSuffrageProof", "ImplAgreesProofByBlockHeight"):
            cands.setdefault(inv, False)
        if not quick:
            # the sibling of the tree's merge: no purge of the merged keys from the state cache (Purge = FALSE) - the
            # model says Center.State then disagrees with the chain; the replays above are what would meet it
            rr = ctx.tlc("Database", "Database_mem_nopurge.cfg", args=["-noGenerateSpecTE"], allow_violation=True, count=False,
                         timeout=600)
            ctx.extra["model_without_purge_violates"] = rr.violated
        phase("impl")
        ctx.extra["impl_transcription_disagrees"] = cands
        met = set(k for (k, _, _) in ctx.viol) | set(ctx.known_hit)
        moc = []
        if cands["ImplAgreesSuffrageProof"] and not any("SuffrageProof(sh>existing)" in k for k in met):
            moc.append("ImplAgreesSuffrageProof: the transcription of suffrageProofInTemps returns an older proof for a "
                       "suffrage height that does not exist yet; not met on this tree")
        if cands["ImplAgreesProofByBlockHeight"] and not any("ProofByBlockHeight(h<oldest-temp-1)" in k for k in met):
            moc.append("ImplAgreesProofByBlockHeight: the transcription of SuffrageProofByBlockHeight asks the permanent "
                       "store for oldest-temp-1; not met on this tree")
        ctx.extra["model_only_counterexamples"] = moc

    def part_sim():
        # 3. random behaviours of a larger instance, every read after every step
        num, depth = (100, 30) if quick else (1000, 50)
        _, behs = ctx.tlc_simulate("Database", "Database_sim.cfg", num=num, depth=2 * depth)   # action + ReadAll
        phase("tlc_simulate")
        # (the spec chooses size classes - at most one big block per behaviour -, state caches per block and NoRead steps)
        cases = [steps_to_case(i, b, permcache=(0, 2, 4096)[i % 3], writecache=(1, 64)[(i // 3) % 2], model_wc=True)
                 for i, b in enumerate(behs)]
        res = run_cases(ctx, ID, cases, ["a", "b", "SUF", "POL"], 8, "sim")
        judge(ctx, cases, res, "simulate")
        phase("replay_simulate")

    def part_readers():
        # 4. concurrent readers (binding B)
        readers(ctx)
        phase("readers")

    def part_forced():
        # 5. forced schedules of the permanent store's state cache against a merge (binding G)
        forced(ctx, ID, "PermCache_enum_quick.cfg" if quick else "PermCache_enum.cfg")
        phase("forced")

    for name, part in (("exh", part_exh), ("size", part_size), ("mem", part_mem), ("impl", part_impl), ("sim", part_sim),
                       ("readers", part_readers), ("forced", part_forced)):
        if not only or name in only:
            part()

    ctx.exhaustive = True
    ctx.rule = ("behaviours of Database.tla (WriteBlock with size class and state cache choice/MergeOne/MergeAll/RemoveBlocks/"
                "ReadAll/NoRead) replayed on a real Center; exhaustive parts: shortest path to every distinct state (view "
                "includes the memory and the last action's effect on it) of %s, of %s (%s) and of %s (%s), every read performed "
                "where the path reads, compared at its end, every record of a big block read; random part: -simulate "
                "behaviours with all reads compared after every step; non-trivial = at least one block written; distinct by "
                "action sequence (block contents by key set, size class, cache choice)" % (
                    cfg, cfg_s, "stratified sample" if quick else "all", cfg_m, "stratified sample + every cache invalidation" if quick else "all"))
    ctx.assumptions = [
        "blocks are written through the BlockWriteDatabase API in the order a block writer uses it "
        "(SetStates, SetOperations, SetBlockMap, SetSuffrageProof, Write, MergeBlockWriteDatabase)",
        "a block that changes the suffrage state carries the suffrage proof of the next suffrage height",
        "LastSuffrageProofBytes' extra height is not constrained by the statement (reported in reported_only)",
    ]


STALE_KEY = "State-older-than-committed;perm-state-cache"
# the same observable in a history without any overlap of a read and a merge (reads, merges and reopens one
# after the other): not the known race - the cache kept a state across the merge of a newer one
STALE_SEQ_KEY = "State-older-than-committed;perm-state-cache;no-read-in-flight"


def forced(ctx, prop, cfg, extra_args=()):
    """PermCache.tla: every distinct state of the interleaving model is a schedule; those a single merge call
    can realise are forced on the real code through the gates in (Leveldb|Redis)Permanent.State. A verdict only
    from what the real database answers: a read that was called after a merge had ended (or after the whole
    schedule) and returns an older state than that merge committed."""
    r, states = ctx.tlc_dump_steps("PermCache", cfg, timeout=900)
    cases = []
    for s in states:
        # whether the merged temp carries a state cache is part of the schedule (["m","write","tempcache"])
        cases.append({"id": len(cases), "sched": s["sched"], "stored": s["stored"], "cache": s["cache"],
                      "rets": s["rets"], "los": s["los"], "writecache": 0, "raced": bool(s.get("raced")),
                      "model_ok": bool(s["fresh"] and s["nostale"])})
    cp = os.path.join(ctx.work, "forced-cases.ndjson")
    rp = os.path.join(ctx.work, "forced-res.ndjson")
    core.write_ndjson(cp, cases)
    ctx.vh([prop, "forced", "--in", cp, "--out", rp] + list(extra_args), timeout=1800)
    rows = {x["id"]: x for x in core.read_ndjson(rp)}
    if len(rows) != len(cases):
        raise core.MachineryError("forced: harness answered %d of %d schedules" % (len(rows), len(cases)))
    st = {"schedules": len(cases), "forced": 0, "not_forced": 0, "stale_on_code": 0, "model_stale": 0,
          "model_stale_not_met": 0, "prediction_differs": 0, "forced_sequential": 0, "forced_with_reopen": 0,
          "forced_merge_of_cached_key_without_temp_cache": 0}
    for c in cases:
        x = rows[c["id"]]
        if x.get("panic"):
            ctx.violation("forced(panic)", "panic while forcing %s: %s" % (c["sched"], x["panic"][:300]), {"case": c})
            continue
        if not x["forced"]:
            st["not_forced"] += 1
            continue
        st["forced"] += 1
        ctx.traces += 1
        ctx.case(["forced", c["sched"], c["writecache"]], nontrivial=any(a[0] == "m" for a in c["sched"]),
                 sample={"source": "forced", "sched": c["sched"], "fresh": x["fresh"], "stored": x["stored"]})
        if not c["raced"]:
            st["forced_sequential"] += 1
        if any(a[0] == "x" for a in c["sched"]):
            st["forced_with_reopen"] += 1
        if cached_then_merged_without_temp_cache(c["sched"]):
            st["forced_merge_of_cached_key_without_temp_cache"] += 1
        if not c["model_ok"]:
            st["model_stale"] += 1
        predicted = c["cache"] if c["cache"] != -1 else c["stored"]
        if x["fresh"] != predicted:
            st["prediction_differs"] += 1
        stale = x["fresh"] >= -1 and x["fresh"] < x["stored"]
        why = "a read after the schedule returns height %d, the last merged block wrote height %d" % (
            2 * x["fresh"], 2 * x["stored"])
        for rd, v in (x.get("rets") or {}).items():
            lo = c["los"].get(rd, -1)
            if c["rets"].get(rd, -1) != -1 and lo != -1 and v < lo:
                stale = True
                why = "reader %s was called after the merge of height %d had ended and got height %d" % (rd, 2 * lo, 2 * v)
        if stale:
            st["stale_on_code"] += 1
            ctx.violation(STALE_KEY if c["raced"] else STALE_SEQ_KEY,
                          "forced schedule %s (%s): %s" % (
                              c["sched"], "a read was in flight during a merge" if c["raced"] else
                              "sequential history: no read in flight during any merge", why),
                          {"source": "forced", "case": c, "result": x})
        elif not c["model_ok"]:
            st["model_stale_not_met"] += 1
    ctx.extra["forced_schedules"] = st
    if st["model_stale_not_met"]:
        ctx.extra.setdefault("model_only_counterexamples", []).append(
            "PermCache: %d schedules end with a stale cache in the model but not on this tree" % st["model_stale_not_met"])
    if st["forced"] == 0:
        raise core.MachineryError("no schedule of PermCache.tla could be forced")


def cached_then_merged_without_temp_cache(sched):
    """a completed read filled the cache and a later merge came from a temp without a state cache"""
    cached = False
    for a in sched:
        if a[1] == "setcache":
            cached = True
        elif a[0] == "x":
            cached = False
        elif a[0] == "m" and a[1] == "write":
            if cached and len(a) > 2 and a[2] == "notempcache":
                return True
    return False


def readers(ctx):
    quick = ctx.tier == "quick"
    t = os.path.join(ctx.work, "readers.ndjson")
    ctx.vh([ID, "readers", "--out", t, "--runs", 6 if quick else 40, "--blocks", 12 if quick else 30,
            "--readers", 4, "--reads", 700 if quick else 1500], timeout=1200)
    events = core.read_ndjson(t)
    ok, res, hw = ctx.tlc_validate_trace("DatabaseTrace", "DatabaseTrace.cfg", t, timeout=1500)
    nruns = sum(1 for e in events if e["a"] == "Reset")
    ctx.traces += nruns
    ctx.extra["reader_events"] = len(events)
    if not ok and hw is not None:
        ev = events[hw - 1] if 0 < hw <= len(events) else None
        ctx.violation("readers(trace-rejected)", "reader event %s is not explained by DatabaseTrace.tla: %s" % (hw, ev),
                      {"line": hw, "event": ev})
    seen = set()
    pc_at = []
    pc = 0
    for e in events:
        if e["a"] == "Reset":
            pc = e.get("pc", 0)
        pc_at.append(pc)
    older = 0
    for (cls, line, rest) in res.mismatches():
        ev = events[line - 1]
        if cls in ("stale-read(State)", "committed-not-visible(State)"):
            # one class of history: a State read answered with an older state than a commit that had returned
            key = STALE_KEY if pc_at[line - 1] > 0 else "readers(State-older-than-committed;no-cache)"
            older += 1
        else:
            key = "readers(%s)" % cls
        if key in seen:
            continue
        seen.add(key)
        ctx.violation(key, "concurrent readers: reader %s: %s (permanent store state cache size %d); got/want %s" % (
            ev.get("r"), ev, pc_at[line - 1], rest),
            {"class": cls, "event": ev, "permcache": pc_at[line - 1], "before": events[max(0, line - 12):line]})
    ctx.extra["reader_state_reads_older_than_committed"] = older
