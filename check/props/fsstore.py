"""FSSTORE - the block file store (spec/FSStore.tla): LocalFSWriter's file-system protocol, what a
restart finds after a process stop at every point of it, readers vs. block map check sums, the same
height written twice, compressed/uncompressed/remote item variants, the empty-height clean-up.

TLC: exhaustive model checking of FSStore.tla (crash points x writers x uploads x clean-up pass) and the
model's prediction for every crash point (`Restart` steps of FSStore_crash.cfg). Real code: vh-fsstore
drives the real LocalFSWriter step by step on real blocks (pipeline of harness/internal/c10), records the
file-system operations of the real Save with inotify, rebuilds every prefix of them as a directory state
and runs launch's real start-up functions, the real readers and validators on each; see check/fsstore.md.
"""
import collections
import json
import os
import re

from vlib import core

MOD = "FSStore"


def _restart_predictions(ctx):
    """class (shape, hdir, fjson, db has the block) -> set of (A, B, presented, complete)"""
    dump = os.path.join(ctx.work, "fsstore_crash")
    r = ctx.tlc(MOD, "FSStore_crash.cfg", args=["-dump", dump], workers=4)
    pred = collections.defaultdict(set)
    n = 0
    with open(dump + ".dump", errors="replace") as f:
        for line in f:
            m = re.match(r'^(?:/\\ )?step = "Restart (\S) (\S) (\S+) (\S+) (\S) (\S) (\S+) (\S+) (\S)"', line.strip())
            if not m:
                continue
            a, b, shape, cp, pres, compl, hd, fj, dbh = m.groups()
            pred[(shape, hd, fj, dbh == "T")].add((a == "T", b == "T", pres == "T", compl == "T"))
            n += 1
    os.remove(dump + ".dump")
    if n == 0:
        raise core.MachineryError("no Restart step in the dump of FSStore_crash.cfg")
    return r, pred


def _height(o, h):
    for x in o["heights"]:
        if x["h"] == h:
            return x
    return None


def _complete(hh, want_hash=None):
    if hh is None or hh["files"] != "found" or hh["map"] != "found":
        return False
    if want_hash is not None and hh.get("maphash") != want_hash:
        return False
    if hh["valid_err"]:
        return False
    return all(i["found"] and i["sum_ok"] and i["decoded"] for i in hh["items"])


def _klass(hh, db_has):
    d = "dir" if hh["dir"] else "nodir"
    return "%s,files-json=%s,%s" % (d, hh["fj"], "in-db" if db_has else "not-in-db")


RECOVER_KEYS = {
    ("dir", "none"): "recover(height-directory-without-block-item-files)",
    ("dir", "empty"): "recover(height-directory-with-truncated-block-item-files)",
    ("dir", "partial"): "recover(height-directory-with-truncated-block-item-files)",
    ("dir", "full"): "recover(block-in-local-fs-not-in-database)",
}


def _judge_crash(ctx, r, pred, drift):
    o = r["obs"]
    H = r["h"]
    hh = _height(o, H)
    tag = "%s h=%d %s:%s %s" % (r["shape"], H, r["phase"], r["cp"], r.get("op", ""))
    if o.get("panic"):
        ctx.violation("panic(%s)" % _klass(hh, r["db_has"]) if hh else "panic", "panic while restarting on " + tag + ": " + o["panic"][:300], r)
        return
    if any(s.startswith("machinery") for s in (o["check_a"], o["check_b"])):
        raise core.MachineryError("start-up context: " + o["check_a"])
    db_has = o["db_last"] >= H
    started = o["check_a"] == "" and o["check_b"] == ""
    kl = _klass(hh, db_has)
    ctx.case(["crash", r["shape"], kl, started], nontrivial=True,
             sample={"case": tag, "state": kl, "started": started, "retry": o["retry"][:60]})
    # model's prediction for this class of directory state
    fjk = {"none": "none", "empty": "trunc", "partial": "trunc", "full": "local"}[hh["fj"]]
    key = (r["shape"], "dir" if hh["dir"] else "none", fjk, db_has)
    real = (o["check_a"] == "", o["check_b"] == "", hh["files"] == "found", _complete(hh))
    if key not in pred:
        drift.append({"case": tag, "state": list(key), "real": list(real), "model": "state not reachable in the model"})
    elif real not in pred[key]:
        drift.append({"case": tag, "state": list(key), "real": list(real), "model": sorted(map(list, pred[key]))})
    # restart cleans the temp directory
    if o["temp_left"] or o.get("clean_err"):
        ctx.violation("restart(temp-directory-left)", "after CleanBlockTempDirectory %s: left %s err %s" % (tag, o["temp_left"], o.get("clean_err")), r)
    # P2 on everything a reader returned, whether the start-up passed or not
    for x in o["heights"] + ([o["after"]] if o.get("after") else []):
        for it in x["items"]:
            if it["found"] and not it["sum_ok"]:
                ctx.violation("read-checksum(%s)" % it["t"],
                              "%s: reader returned bytes of %s at height %d whose sha256 is not the block map's check sum" % (tag, it["t"], x["h"]), r)
    if not started:
        if r["phase"] == "done":
            ctx.violation("crash-atomic(normal-restart-refused)", "restart after a complete Save + database merge refused: A=%r B=%r" % (o["check_a"], o["check_b"]), r)
        return
    # P1
    for x in o["heights"]:
        if x["files"] == "found" and not _complete(x):
            ctx.violation("crash-atomic(%s)" % _klass(x, o["db_last"] >= x["h"]),
                          "%s: start-up passed and height %d is presented (block item files readable) but the block is not complete: map=%s valid=%r items=%s"
                          % (tag, x["h"], x["map"], x["valid_err"], [(i["t"], i["found"], i["sum_ok"]) for i in x["items"]]), r)
    last = _height(o, o["db_last"])
    if last is not None and not _complete(last):
        ctx.violation("crash-atomic(database-last-height-not-in-local-fs)",
                      "%s: start-up passed although the database's last height %d is not a complete block in the local fs" % (tag, o["db_last"]), r)
    if r["phase"] == "done" and not _complete(hh, r["hash"]):
        ctx.violation("crash-atomic(saved-block-incomplete)", "%s: the block is not complete after Save" % tag, r)
    # P6
    if o["retry"] not in ("", "ok"):
        k = RECOVER_KEYS.get(("dir" if hh["dir"] else "nodir", hh["fj"]), "recover(%s)" % kl)
        ctx.violation(k, "%s: after the restart (start-up checks passed, database at %d, local fs: %s) a fresh LocalFSWriter of height %d fails at %s: %s"
                      % (tag, o["db_last"], kl, H, o.get("retry_step"), o["retry"]), r)
    elif o["retry"] == "ok" and not _complete(o.get("after"), r["hash"]):
        ctx.violation("recover(rewritten-block-incomplete)", "%s: the fresh writer saved but the block is not complete" % tag, r)


def _judge_twice(ctx, r):
    a = r["after"]
    tag = "%s h=%d" % (r["scen"], r["h"])
    if r["scen"] == "race":
        ok_a, ok_b = r["a_save"] == "", r["b_save"] == ""
        outcome = ("A" if ok_a else "-") + ("B" if ok_b else "-")
        ctx.case(["twice", "race", r["h"], outcome, a["dir"], a["map"]], nontrivial=True)
        if ok_a and ok_b:
            ctx.violation("twice(both-saves-succeed)", tag + ": two writers of one height both returned success", r)
        elif ok_a or ok_b:
            want = r["hash_a"] if ok_a else r["hash_b"]
            if not _complete(a, want):
                ctx.violation("twice(concurrent-save-removes-saved-block)",
                              "%s: Save of one writer returned success, the other's failed with %r; afterwards the winner's block is gone/incomplete: dir=%s files-json=%s map=%s"
                              % (tag, (r["b_save"] if ok_a else r["a_save"])[:80], a["dir"], a["fj"], a["map"]), r)
        return
    ctx.case(["twice", r["scen"], r["h"], r["a_save"] == "", r["b_save"][:30]], nontrivial=True,
             sample={"case": tag, "b_save": r["b_save"][:60]})
    if r["scen"] == "save-error-after-rename":
        if r["a_save"] == "":
            raise core.MachineryError("Save succeeded although <height>.json could not be created")
        if a["dir"]:
            ctx.violation("save-error(half-written-height-directory-left)",
                          "%s: Save failed after its rename (%s) and left its height directory behind (no <height>.json): the next Save of the height is blocked" % (tag, r["a_save"][:80]), r)
        return
    if r["a_save"] != "" and r["scen"] == "cancel-other":
        ctx.violation("cancel(removes-other-writer)", "%s: after another writer's Cancel the first writer fails: %s" % (tag, r["a_save"]), r)
        return
    if r["a_save"] != "":
        raise core.MachineryError("first writer could not save in %s: %s" % (tag, r["a_save"]))
    if r.get("save_again"):
        ctx.violation("twice(save-again-fails)", tag + ": second Save() of a saved writer: " + r["save_again"], r)
    if r["scen"] in ("sequential", "interleaved"):
        if r["b_save"] == "":
            ctx.violation("twice(second-save-succeeds)", tag + ": Save of a second writer of a stored height succeeded", r)
        if r["a_diff"]:
            ctx.violation("twice(first-block-changed)", "%s: files of the first block changed: %s" % (tag, r["a_diff"][:8]), r)
        if len(r["temp_after_b"]) < 1 and r["b_save"] != "":
            pass  # a failed Save may or may not keep its temp directory; Cancel is what must remove it
    if not _complete(a, r["hash_a"]):
        ctx.violation("twice(first-block-corrupted)" if r["scen"] != "cancel-other" else "cancel(removes-other-writer)",
                      "%s: the first writer's block is not complete afterwards: dir=%s map=%s valid=%r" % (tag, a["dir"], a["map"], a["valid_err"]), r)
    if r["b_cancel"] != "":
        ctx.violation("cancel(error)", tag + ": Cancel: " + r["b_cancel"], r)
    if r["temp_end"]:
        ctx.violation("cancel(leaves-temp-directory)", "%s: temp directories left after Cancel/Save: %s" % (tag, r["temp_end"]), r)


def _judge_variant(ctx, r):
    tag = "%s %s/%s%s" % (r["t"], r["scheme"], r["format"], " (writer's own format)" if r["native"] else "")
    ctx.case(["variant", r["t"], r["scheme"], r["format"], r["found"], r["same"], r["rb_found"]], nontrivial=True,
             sample={"case": tag, "found": r["found"], "same": r["same"]})
    if r["up_err"] or not r["updated"]:
        raise core.MachineryError("WriteItemFiles refused the variant %s: %s" % (tag, r["up_err"]))
    if r["scheme"] == "file":
        if not r["found"]:
            ctx.violation("variants(file-scheme-item-not-readable)",
                          "%s: block item files name file://<path>; BlockItemFile.IsValid, IsInLocalBlockItemFile, ReadFileFromItemFile and Reader() accept it, "
                          "Item()/BlockItemReadersItemFuncWithRemote report not found (err=%r valid=%r)" % (tag, r["err"], r["valid_err"][:80]), r)
    else:
        if not r["found"] or r["err"]:
            ctx.violation("variants(%s-%s-not-read)" % (r["scheme"], r["format"]), "%s: found=%s err=%r" % (tag, r["found"], r["err"]), r)
        elif not r["same"]:
            ctx.violation("variants(%s-%s-decodes-differently)" % (r["scheme"], r["format"]), tag + ": decoded item differs from the writer's own file", r)
        elif not r["sum_ok"]:
            ctx.violation("read-checksum(%s-variant)" % r["format"], tag + ": decompressed stream does not have the map's check sum", r)
        if r["valid_err"]:
            ctx.violation("variants(%s-%s-block-invalid)" % (r["scheme"], r["format"]), "%s: IsValidBlockFromLocalFS: %s" % (tag, r["valid_err"]), r)
    if r["rb_called"] and not r["rb_found"] and not r["rb_err"]:
        ctx.violation("read-by-itemfile(%s-item-read-reported-not-found)" % r["scheme"],
                      "%s: BlockItemReadByBlockItemFileFuncWithRemote handed the item to the callback (decoded, no error) and returned found=false" % tag, r)
    if r["rb_err"] and r["scheme"] != "file":
        ctx.violation("read-by-itemfile(error)", "%s: %s" % (tag, r["rb_err"]), r)


def _judge_cleanup(ctx, r, stale):
    ctx.case(["cleanup", r["scen"], r["removed"], [(x["h"], x["kind"], x["dir"]) for x in r["heights"]]], nontrivial=True,
             sample={"case": r["scen"], "removed": r["removed"]})
    for n in r["notes"]:
        if n.startswith("panic"):
            ctx.violation("panic(cleanup)", n[:300], r)
        elif n.startswith("upload"):
            raise core.MachineryError("clean-up scenario %s: %s" % (r["scen"], n))
    if r["temp_gone"]:
        ctx.violation("cleanup(removed-temp-directory)", r["scen"] + ": a writer's temp directory vanished while it was writing", r)
    if r.get("w_save"):
        ctx.violation("cleanup(writer-disturbed)", "%s: writer of the next height: %s" % (r["scen"], r["w_save"]), r)
    for b in r["bad_reads"]:
        if "checksum-mismatch" in b:
            ctx.violation("read-checksum(concurrent-clean-up)", "%s: %s" % (r["scen"], b), r)
    for x in r["heights"]:
        if x["kind"] in ("local", "mixed"):
            if not x["dir"] or not x["dir_same"]:
                ctx.violation("cleanup(removed-local-height)",
                              "%s: height %d is presented with local items but its directory is %s" % (r["scen"], x["h"], "gone" if not x["dir"] else "changed"), r)
            elif x["read"]:
                ctx.violation("cleanup(local-height-unreadable)", "%s: height %d: %s" % (r["scen"], x["h"], x["read"]), r)
        elif x["kind"] == "remote" and x["read"]:
            if "checksum-mismatch" in x["read"]:
                ctx.violation("read-checksum(remote)", "%s: height %d: %s" % (r["scen"], x["h"], x["read"]), r)
            else:
                stale.append({"scen": r["scen"], "h": x["h"], "read": x["read"]})
        elif x["kind"] == "none":
            ctx.violation("cleanup(block-item-files-lost)", "%s: height %d has no block item files any more" % (r["scen"], x["h"]), r)


def _protocol(ctx, r, drift):
    """order facts of the real Save (inotify) against the protocol of FSStore.tla"""
    save = [c for c in r["calls"] if c["call"] == "save"][0]["ops"] or []
    seq = []
    for o in save:
        s = "%s:%s:%s" % (o["w"], o["op"], o["n"])
        if o["op"] in ("close", "from", "other"):
            continue
        if o["w"] == "temp" and o["op"] == "rm":
            a = "Drop"
        elif o["w"] == "temp" and o["n"].startswith("map."):
            a = {"create": "MapC", "write": "MapW"}.get(o["op"], s)
        elif o["w"] == "temp" and o["op"] == "write":
            a = "Drop"       # closing the (empty) operations / states file before removing it
        elif o["w"] == "parent" and o["op"] == "to":
            a = "Rename"
        elif o["w"] == "parent" and o["n"] == r["fj"]:
            a = {"create": "FjC", "write": "FjW"}.get(o["op"], s)
        else:
            a = s
        if not seq or seq[-1] != a:
            seq.append(a)
    want = ["MapC", "MapW", "Rename", "FjC", "FjW"]
    got = [a for a in seq if a != "Drop"]
    if got != want or (seq and "Drop" in seq[seq.index("MapC"):] if "MapC" in seq else False):
        drift.append({"case": "save order %s h=%d" % (r["shape"], r["h"]), "real": seq, "model": ["Drop*"] + want})
    if r["materialised_vs_real"]:
        raise core.MachineryError("replaying the observed operations of Save does not give Save's final state: %s" % r["materialised_vs_real"][:10])


def run(ctx):
    thorough = ctx.tier == "thorough"
    ctx.level = "model_checking"
    ctx.rule = ("FSStore.tla invariants CrashAtomic/ReadMatchesMap/FirstSurvives/SaveComplete/PresentedComplete and action properties "
                "FirstFilesSurvive/CleanupSafe/CleanupLeavesTemp hold on the model; on the real code, for every prefix of the "
                "file-system operations of the real Save (and every Set* boundary) a restart with launch's start-up functions presents "
                "only complete blocks (P1), readers never return bytes whose sha256 differs from the map's check sum (P2), a second "
                "writer of a stored height leaves the first block byte-identical (P3), gz/plain/local/http variants decode identically (P4), "
                "the clean-up pass removes only directories of heights whose block item files name no local item (P5), a fresh writer "
                "can store the next height after the restart (P6)")
    ctx.assumptions = [
        "a crash is a process stop (kill/panic): what was handed to the kernel stays; power loss (no fsync anywhere in the writer) is not modelled",
        "crash points inside Save are not forced in the running code: the real Save's file-system operations are recorded with inotify and every prefix "
        "is rebuilt as a directory state from the real Save's own output (no /repo hook); a j-th of m write events leaves j/m of the final bytes",
        "crash points between Set* calls abandon the real writer object (its buffered bytes never reach the disk), they do not kill a process",
        "blocks are the real pipeline's (policy / candidate operations, an empty block); shape 'noops' (states without operations) exists in the model only",
        "the concurrent scenarios (two Saves at once, clean-up daemon vs uploads vs writer) run on whatever schedule the machine gives; only schedule-independent facts are judged",
    ]

    # ---- TLC
    r1 = ctx.tlc(MOD, "FSStore_mc_quick.cfg", workers=8)
    rp, pred = _restart_predictions(ctx)
    ctx.extra["tlc"] = {"mc_quick": [r1.distinct, round(r1.wall, 1)], "crash": [rp.distinct, round(rp.wall, 1)]}
    cands = []
    if thorough:
        r = ctx.tlc(MOD, "FSStore_toctou.cfg", workers=4)   # two writers inside Save at once, repaired error path
        ctx.extra["tlc"]["FSStore_toctou.cfg"] = [r.distinct, round(r.wall, 1)]
        for cfg, inv in (("FSStore_recover.cfg", "Recoverable"), ("FSStore_toctou_before.cfg", "FirstSurvives")):
            r = ctx.tlc(MOD, cfg, workers=4, allow_violation=True, count=False)
            cands.append({"cfg": cfg, "violated": r.violated, "expected": inv})
        for cfg in ("FSStore_cleanup.cfg", "FSStore_mc_thorough.cfg"):
            r = ctx.tlc(MOD, cfg, timeout=1500)
            ctx.extra["tlc"][cfg] = [r.distinct, round(r.wall, 1)]
        for cfg, inv in (("FSStore_rewrite.cfg", "FirstFilesSurvive"),):
            r = ctx.tlc(MOD, cfg, workers=4, allow_violation=True, count=False)
            cands.append({"cfg": cfg, "violated": r.violated, "expected": inv})
    ctx.extra["model_candidates"] = cands
    ctx.extra["model_only_counterexamples"] = [
        "FSStore_rewrite.cfg / FirstFilesSurvive: a writer created before height h was stored saves after the operator moved h to a remote and the "
        "clean-up removed the directory: Stat passes, <h>.json of the stored block is overwritten (needs a writer object kept alive across upload + clean-up delay)",
        "readers: ItemFiles caches <h>.json; a load racing WriteItemFiles can cache the old (local) list after the cache entry was dropped; once the "
        "directory is removed such a reader reports the items not found (never wrong bytes)",
    ]
    ctx.exhaustive = True

    # ---- the real code
    rows = []
    d = os.path.join(ctx.work, "fs")
    res = os.path.join(ctx.work, "res.ndjson")
    ctx.vh(["FSSTORE", "run", "--dir", d, "--out", res, "--races", 150 if thorough else 25], timeout=1500)
    rows += core.read_ndjson(res)
    if thorough:
        for i in range(1, 9):
            resi = os.path.join(ctx.work, "res%d.ndjson" % i)
            ctx.vh(["FSSTORE", "run", "--dir", d + str(i), "--out", resi, "--only", "cleanup"], timeout=900,
                   env_extra={"VERIF_SEED": str(ctx.seed * 1000 + i)})
            rows += core.read_ndjson(resi)
    drift, stale = [], []
    kinds = collections.Counter()
    for r in rows:
        kinds[r["kind"]] += 1
        ctx.traces += 1
        if r["kind"] == "crash":
            _judge_crash(ctx, r, pred, drift)
        elif r["kind"] == "trace":
            _protocol(ctx, r, drift)
        elif r["kind"] == "twice":
            _judge_twice(ctx, r)
        elif r["kind"] == "variant":
            _judge_variant(ctx, r)
        elif r["kind"] == "cleanup":
            _judge_cleanup(ctx, r, stale)
    ctx.extra["records"] = dict(kinds)
    races = [r for r in rows if r["kind"] == "twice" and r["scen"] == "race"]
    ctx.extra["race_outcomes"] = dict(collections.Counter(
        ("A" if r["a_save"] == "" else "-") + ("B" if r["b_save"] == "" else "-") + (":dir" if r["after"]["dir"] else ":nodir") for r in races))
    ctx.extra["model_drift"] = drift[:20]
    ctx.extra["stale_cache_unreadable"] = stale[:10]
    for need in ("crash", "trace", "twice", "variant", "cleanup"):
        if kinds[need] == 0:
            raise core.MachineryError("no %s record from the harness" % need)
    if drift and not ctx.viol:
        raise core.MachineryError("the real code no longer behaves as FSStore.tla describes (update the model): %s" % json.dumps(drift[:3]))
