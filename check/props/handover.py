"""HANDOVER - the handover protocol between a consensus node X and its replacement Y
(isaac/states/handover*.go, states_handover.go). Spec: Handover.tla (+ HandoverLock.tla for
the lock order of HandoverXBroker, HandoverTrace.tla for binding B).

 1. TLC checks Handover.tla exhaustively on a small instance (every fault kind, cancellation
    at every point) for the safety properties; candidate properties that the model violates
    are turned into behaviours and concretised on the real brokers (rule 1).
 2. binding A: -simulate behaviours (the retry limits of the code) are replayed step by step
    on real HandoverXBroker / HandoverYBroker objects joined by a harness network; after each
    step the observable state of the real objects must equal the model state; independently
    the statement-level facts (never both vote, Y in only after X's finish, ...) are judged
    on what the real objects did.
 3. binding B: seeded free-running scenarios of the real brokers are recorded and validated
    by HandoverTrace.tla.
 4. HandoverLock.tla (lock order of successcount) + a stress run that looks for the
    deadlock the model finds; the Ask path against NewAskHandoverReceivedFunc.
"""
import json
import os
import re

from vlib import core

ID = "HANDOVER"

# ---------------------------------------------------------------- TLA+ values / states


class _P:
    def __init__(self, s):
        self.s = s
        self.i = 0

    def ws(self):
        while self.i < len(self.s) and self.s[self.i] in " \t\r\n":
            self.i += 1

    def eat(self, t):
        self.ws()
        if self.s.startswith(t, self.i):
            self.i += len(t)
            return True
        return False

    def expect(self, t):
        if not self.eat(t):
            raise ValueError("expected %r at %r" % (t, self.s[self.i:self.i + 30]))

    def value(self):
        self.ws()
        s = self.s
        if self.eat("<<"):
            out = []
            if self.eat(">>"):
                return out
            while True:
                out.append(self.value())
                if self.eat(">>"):
                    return out
                self.expect(",")
        if self.eat("{"):
            out = []
            if self.eat("}"):
                return out
            while True:
                out.append(self.value())
                if self.eat("}"):
                    return out
                self.expect(",")
        if self.eat("["):
            out = {}
            while True:
                self.ws()
                m = re.compile(r"[A-Za-z_][A-Za-z0-9_]*").match(s, self.i)
                if not m:
                    raise ValueError("field name at %r" % s[self.i:self.i + 30])
                self.i = m.end()
                self.expect("|->")
                out[m.group(0)] = self.value()
                if self.eat("]"):
                    return out
                self.expect(",")
        if s[self.i] == '"':
            j = self.i + 1
            buf = []
            while s[j] != '"':
                if s[j] == "\\":
                    j += 1
                buf.append(s[j])
                j += 1
            self.i = j + 1
            return "".join(buf)
        m = re.compile(r"-?\d+").match(s, self.i)
        if m:
            self.i = m.end()
            return int(m.group(0))
        for lit, v in (("TRUE", True), ("FALSE", False)):
            if s.startswith(lit, self.i):
                self.i += len(lit)
                return v
        raise ValueError("value at %r" % s[self.i:self.i + 30])


def parse_value(text):
    p = _P(text)
    v = p.value()
    p.ws()
    if p.i != len(text):
        raise ValueError("trailing text %r" % text[p.i:p.i + 30])
    return v


def parse_states(text):
    """states of a -simulate file or of the error trace in TLC's output -> [dict var -> value]"""
    states = []
    cur = None
    name = None
    buf = []

    def flush():
        nonlocal name, buf
        if cur is not None and name is not None:
            cur[name] = parse_value("\n".join(buf))
        name, buf = None, []

    for line in text.splitlines():
        if re.match(r"^(STATE_\d+ ==|State \d+: )", line):
            flush()
            cur = {}
            states.append(cur)
            continue
        m = re.match(r"^/\\ (\w+) = (.*)$", line)
        if m and cur is not None:
            flush()
            name = m.group(1)
            buf = [m.group(2)]
            continue
        if cur is not None and name is not None:
            if line.strip() == "" or line.startswith("=====") or line.startswith("\\*") \
                    or re.match(r"^(Error|\d+ states generated|Finished|The |Progress|Checking)", line):
                flush()
                if not line.startswith("\\*") and line.strip() != "":
                    cur = None
                continue
            buf.append(line)
    flush()
    return [s for s in states if s]


# ---------------------------------------------------------------- cfg -> harness parameters
def cfg_params(ctx, cfg):
    d = ctx._stage_spec()
    txt = open(os.path.join(d, cfg)).read()
    spec = open(os.path.join(d, "Handover.tla")).read()

    def const(name):
        m = re.search(r"(?m)^\s*%s\s*(=|<-)\s*(\S+)" % name, txt)
        if not m:
            raise core.MachineryError("constant %s not in %s" % (name, cfg))
        return m.group(2)
    kname = const("Kinds")
    m = re.search(r"(?m)^%s\s*==\s*(<<.*>>)\s*$" % re.escape(kname), spec)
    if not m:
        raise core.MachineryError("definition of %s not found" % kname)
    return {
        "kinds": parse_value(m.group(1)),
        "min_chal": int(const("MinChal")), "ready_end": int(const("ReadyEndArg")),
        "max_fail": int(const("MaxFail")), "max_ask": int(const("MaxAsk")),
    }, {"FinishRetry": int(const("FinishRetry")), "CancelRetry": int(const("CancelRetry"))}


SNAP = ["xb", "xc", "xf", "xlv", "xcc", "xlcc", "xs", "xre", "xpc", "xfail", "xOut", "xWF", "xWC", "xret",
        "xVoted", "yrta", "yds", "yid", "yf", "yc", "yfail", "ypend", "yIn", "ySync", "yWF", "yWC"]


def gobool(b):
    return "true" if b else "false"


def want_of(st):
    w = {k: st[k] for k in SNAP}
    w["xVoted"] = sorted(st["xVoted"])
    w["ypend"] = sorted(st["ypend"])
    w["net"] = sorted("%s:%s:%d:%s:%s" % (m["from"], m["t"], m["k"], gobool(m["ok"]), gobool(m["er"])) for m in st["net"])
    return w


def act_of(st):
    a = dict(st["step"])
    if "m" in a:
        m = a["m"]
        a["m"] = {"from": m["from"], "t": m["t"], "k": m["k"], "ok": m["ok"], "er": m["er"]}
    return a


def behaviour_case(cid, params, states):
    steps = [{"act": act_of(s), "want": want_of(s)} for s in states if s["step"]["a"] != "Init"]
    return {"id": cid, "params": params, "steps": steps}


def canon(case):
    return [[s["act"].get("a"), s["act"].get("k"), s["act"].get("o"), s["act"].get("r"),
             (s["act"].get("m") or {}).get("t"), (s["act"].get("m") or {}).get("k"), s["act"].get("to"), s["act"].get("t")]
            for s in case["steps"]]


# ---------------------------------------------------------------- TLC runs
JAVA = ("-Xmx8g",)


def simulate(ctx, cfg, num, depth):
    d = ctx._stage_spec()
    ctx._nsim = getattr(ctx, "_nsim", 0) + 1
    sim = os.path.join(ctx.work, "hsim%d" % ctx._nsim)
    os.makedirs(sim)
    ctx.tlc("Handover", cfg, args=["-simulate", "file=%s/t,num=%d" % (sim, num), "-depth", depth, "-seed", ctx.seed],
            workers=1, timeout=900, count=False)
    out = []
    for f in sorted(os.listdir(sim)):
        sts = parse_states(open(os.path.join(sim, f)).read())
        if len(sts) > 1:
            out.append(sts)
    n = sum(len(b) for b in out)
    ctx.states += n
    ctx.transitions += n
    return out


def _replay_cases(ctx, cases, tag):
    inp = os.path.join(ctx.work, "cases-%s.ndjson" % tag)
    res = os.path.join(ctx.work, "res-%s.ndjson" % tag)
    core.write_ndjson(inp, cases)
    ctx.vh([ID, "replay", "--in", inp, "--out", res], timeout=1500)
    rows = core.read_ndjson(res)
    if len(rows) != len(cases):
        raise core.MachineryError("harness answered %d of %d cases" % (len(rows), len(cases)))
    return rows


SAFETY_WHAT = {
    "both-vote;x-goes-on-with-the-voteproof-y-entered-with":
        "Y entered consensus with INIT voteproof k (Finish delivered) while X's sendVoteproof(k) returned isFinished=false, "
        "so X's consensus handler goes on to vote after the same voteproof",
    "both-vote;x-goes-on-with-the-voteproof-y-entered-with;after-a-good-finish":
        "finish() succeeded (broker finished, Y in consensus with INIT voteproof k) but sendVoteproof(k) returned isFinished=false: "
        "X's consensus handler goes on to vote after the voteproof it handed over",
    "both-vote;x-votes-after-later-voteproof": "X voted after a voteproof later than the one Y entered consensus with",
    "both-in;y-in-consensus-x-not-out": "Y is in consensus, X's finish() has returned and X was not told to leave (whenFinished not called)",
    "x-finished-but-not-out": "HandoverXBroker is finished but whenFinished was never called",
    "y-cancelled-but-in": "Y's broker was cancelled before it finished, yet Y entered consensus",
    "callback-twice": "WhenFinished / WhenCanceled called more than once",
    "y-in-without-finish": "Y entered consensus (or syncing by Finish) without being finished",
}


def act_name(a):
    n = a.get("a", "?")
    if n == "Resolve":
        return "Resolve-%s-%s" % ((a.get("m") or {}).get("t"), a.get("o"))
    if n in ("BadId", "Stray"):
        return "%s-%s" % (n, a.get("to"))
    if n in ("XSendVoteproof", "YChallenge", "XBallot") and a.get("r"):
        return "%s-%s" % (n, a.get("r"))
    return n


def judge(ctx, cases, rows, origin):
    """conformance differences and statement-level facts of replayed behaviours -> violations"""
    flaky = 0
    for c, r in zip(cases, rows):
        ctx.case(canon(c), nontrivial=len(c["steps"]) > 4,
                 sample={"id": c["id"], "steps": len(c["steps"]), "last": c["steps"][-1]["act"] if c["steps"] else None})
        ctx.traces += 1
        for s in r.get("safety") or []:
            ctx.violation("safety;" + s, "%s [%s, %s]" % (SAFETY_WHAT.get(s, s), origin, c["id"]),
                          {"case": c, "result": r})
        if r.get("panic"):
            ctx.violation("panic;" + act_name(r.get("act") or {}), "panic in the real broker at step %s of %s: %s" % (
                r.get("at"), c["id"], r["panic"][:300]), {"case": c, "result": r})
            continue
        if r["ok"]:
            continue
        if "FLAKY" in (r.get("note") or "") or not r.get("stable", True):
            flaky += 1
            continue
        a = r.get("act") or {}
        fields = r.get("fields") or []
        key = "conformance;%s;%s" % (act_name(a), "+".join(fields[:3]))
        got, want = r.get("got") or {}, r.get("want") or {}
        d = {f: (got.get(f), want.get(f)) for f in fields if f != "return"}
        ctx.violation(key, "after step %d (%s) of %s the real brokers differ from Handover.tla in %s (real, model): %s %s" % (
            r.get("at"), json.dumps(a, sort_keys=True), c["id"], fields, d, r.get("note") or ""), {"case": c, "result": r})
    if flaky:
        ctx.extra["replays_not_reproducible"] = ctx.extra.get("replays_not_reproducible", 0) + flaky
        if flaky > max(3, len(cases) // 10):
            raise core.MachineryError("%d of %d replays were not reproducible (machine too loaded?)" % (flaky, len(cases)))


# ---------------------------------------------------------------- candidates
CANDIDATES = [
    # (invariant, constants overridden in Handover_cand.cfg, tiers)
    ("NoDoubleVote", {}, ("quick", "thorough")),
    ("FreshAtFinish", {}, ("thorough",)),
    ("NotBothOut", {}, ("thorough",)),
    ("ResponseNeverErrDup", {"AllowDup": "TRUE"}, ("thorough",)),
]


def candidates(ctx):
    """TLC counterexamples of properties the implementation-level model does not have;
    each is replayed on the real brokers: conformance of every step shows the real code
    walks the same path, the statement-level judgement decides whether it is a violation."""
    params, _ = cfg_params(ctx, "Handover_cand.cfg")
    d = ctx._stage_spec()
    base = open(os.path.join(d, "Handover_cand.cfg")).read()
    out = []
    for inv, over, tiers in CANDIDATES:
        if ctx.tier not in tiers:
            continue
        cfg = "Handover_cand_%s.cfg" % inv
        txt = base
        for k, v in over.items():
            txt, n = re.subn(r"(?m)^(\s*%s\s*=\s*)\S+" % k, lambda m: m.group(1) + v, txt)
            if n != 1:
                raise core.MachineryError("constant %s not in Handover_cand.cfg" % k)
        open(os.path.join(d, cfg), "w").write(txt + "\nINVARIANT %s\n" % inv)
        r = ctx.tlc("Handover", cfg, timeout=1200, allow_violation=True, java_opts=JAVA)
        if not r.violated:
            ctx.extra.setdefault("candidates_holding", []).append(inv)
            continue
        sts = parse_states(r.out[r.out.index("The behavior up to this point"):])
        case = behaviour_case("cand-%s" % inv, params, sts)
        out.append((inv, case, r))
    if out:
        rows = _replay_cases(ctx, [c for _, c, _ in out], "cand")
        for (inv, case, r), row in zip(out, rows):
            ent = {"invariant": inv, "steps": len(case["steps"]), "reproduced_on_real_brokers": bool(row["ok"]),
                   "real_safety_facts": row.get("safety") or [],
                   "path": [act_name(s["act"]) for s in case["steps"]][-12:]}
            ctx.extra.setdefault("model_only_counterexamples", []).append(ent)
        judge(ctx, [c for _, c, _ in out], rows, "TLC counterexample")


# ---------------------------------------------------------------- lock order + stress, ask
def lock_model(ctx):
    """HandoverLock.tla: the lock order of the code must show the deadlock (NotStuck violated),
    the repaired order must not"""
    r = ctx.tlc("HandoverLock", "HandoverLock.cfg", timeout=300, allow_violation=True)
    dead = r.violated == "NotStuck"
    ctx.extra["lock_model_deadlock"] = dead
    r2 = ctx.tlc("HandoverLock", "HandoverLock_repaired.cfg", timeout=300, allow_violation=True)
    if r2.violated:
        raise core.MachineryError("HandoverLock.tla: the repaired variant violates %s" % r2.violated)
    return dead


def stress(ctx, model_deadlock):
    out = os.path.join(ctx.work, "stress.json")
    ms = 3000 if ctx.tier == "quick" else 15000
    ctx.vh([ID, "stress", "--ms", ms, "--rounds", 3 if ctx.tier == "quick" else 10, "--out", out], timeout=120)
    res = core.read_ndjson(out)[0]
    ctx.extra["stress"] = {k: res.get(k) for k in ("rounds", "send_calls", "recv_calls", "deadlocked", "stalled")}
    ctx.traces += res.get("rounds", 0)
    ctx.case(["stress-rlock"], sample={"stress": res})
    if res.get("deadlocked"):
        ctx.violation("deadlock;isReadyToFinish-nested-read-lock",
                      "sendVoteproof(INIT voteproof) and Receive run concurrently on a ready HandoverXBroker: %s; %s "
                      "(HandoverLock.tla deadlock=%s)" % (res.get("send_frame"), res.get("recv_frame"), model_deadlock),
                      {"stress": res})
    elif res.get("stalled"):
        ctx.extra["stress_stalled_without_lock_frames"] = True


def ask(ctx):
    out = os.path.join(ctx.work, "ask.json")
    ctx.vh([ID, "ask", "--out", out], timeout=120)
    for row in core.read_ndjson(out):
        ctx.case(["ask", row["case"]], sample=row)
        ctx.traces += 1
        if not row["ok"]:
            ctx.violation(row["key"], row["what"], row)


# ---------------------------------------------------------------- binding B
def record_and_validate(ctx):
    num = 60 if ctx.tier == "quick" else 300
    t = os.path.join(ctx.work, "trace.ndjson")
    ctx.vh([ID, "record", "--num", num, "--out", t], timeout=900)
    events = core.read_ndjson(t)
    runs = sum(1 for e in events if e["a"] == "Reset")
    ctx.traces += runs
    ctx.extra["recorded_events"] = len(events)
    ctx.extra["recorded_runs_y_entered"] = sum(
        1 for i, e in enumerate(events) if e["a"] == "Act" and e["obs"]["yIn"] > 0
        and (i + 1 == len(events) or events[i + 1]["a"] == "Reset"))
    cur = []
    for e in events + [{"a": "Reset"}]:
        if e["a"] == "Reset":
            if cur:
                ctx.case(cur, nontrivial=len(cur) > 6)
            cur = []
        elif e["a"] == "Act":
            a = e["act"]
            cur.append([a["a"], a.get("k"), (a.get("m") or {}).get("t"), a.get("o"), a.get("r")])
    for attempt in range(4):
        ok = _validate(ctx, events)
        if ok is True:
            break
        # ok = index of the Reset of the run that stopped the validation: cut it out, validate the rest
        nxt = ok + 1
        while nxt < len(events) and events[nxt]["a"] != "Reset":
            nxt += 1
        events = events[:ok] + events[nxt:]
        core.write_ndjson(t, events)
        if not any(e["a"] == "Act" for e in events):
            break


def _validate(ctx, events):
    """-> True (whole file consumed) or the index of the Reset event of the run TLC stopped in"""
    t = os.path.join(ctx.work, "trace.ndjson")
    ok, res, hw = ctx.tlc_validate_trace("HandoverTrace", "HandoverTrace.cfg", t, timeout=1500, dfs=True)

    def history(j):
        k = j
        while k > 0 and events[k]["a"] != "Reset":
            k -= 1
        return [dict(e.get("act") or {"a": e["a"]}) for e in events[k:j + 1]]

    for e in events:
        if e["a"] == "Panic":
            ctx.violation("panic;" + act_name(e.get("act") or {}), "panic in a real broker during a recorded run: %s" % e["panic"][:300], e)
    seen_runs = set()
    for (cls, line, rest) in res.mismatches():
        j = line - 1
        k = j
        while k > 0 and events[k]["a"] != "Reset":
            k -= 1
        if k in seen_runs:      # the first difference of a run; the model state has left the real one after it
            continue
        seen_runs.add(k)
        act = (events[j].get("act") or {}) if j < len(events) else {}
        ctx.violation("trace;mismatch;%s;%s" % (act_name(act), cls),
                      "recorded run: after %s the real brokers show %s (real, model) = %s" % (json.dumps(act, sort_keys=True), cls, rest),
                      {"line": line, "history": history(j), "observed": (events[j].get("obs") if j < len(events) else None)})
    if not ok:
        if hw is None:      # stopped by an invariant: the trace index of the last state of the error trace
            ls = re.findall(r"(?m)^/\\ l = (\d+)", res.out)
            hw = int(ls[-1]) - 1 if ls else 1
        j = max(0, min((hw or 1) - 1, len(events) - 1))
        ev = events[j]
        k = j
        while k > 0 and events[k]["a"] != "Reset":
            k -= 1
        if res.violated and res.violated not in ("<postcondition>",):
            ctx.violation("trace;invariant;%s" % res.violated,
                          "a recorded run of the real brokers walks into a state that violates %s of Handover.tla" % res.violated,
                          {"history": history(j), "tlc_tail": res.out[-1500:]})
        elif ev["a"] != "Panic" and k not in seen_runs:
            ctx.violation("trace;unexplained;%s" % act_name(ev.get("act") or {}),
                          "event %s of a recorded run is not a step of Handover.tla: %s" % (hw, json.dumps(ev.get("act"), sort_keys=True)),
                          {"line": hw, "history": history(j), "observed": ev.get("obs"), "tlc_tail": res.out[-1500:]})
        return k
    return True


# ---------------------------------------------------------------- run
def run(ctx):
    quick = ctx.tier == "quick"
    ctx.rule = ("behaviours of Handover.tla (each a sequence of broker calls / network resolutions): -simulate behaviours of "
                "Handover_sim*.cfg and TLC counterexamples replayed on real brokers, recorded free runs validated by "
                "HandoverTrace.tla; distinct by action sequence; non-trivial = more than 4 steps")
    ctx.assumptions = [
        "X and Y nodes are reduced to what calls the brokers (consensus handler -> sendVoteproof, handover handler -> "
        "sendStagePoint/sendBlockMap, patchStates callbacks); 'X votes after voteproof k' = sendVoteproof(k) returned isFinished=false",
        "goroutines the brokers start (challenge response, cancel message, whenCanceled) are assumed to reach SendMessageFunc "
        "before the next scheduled step (the harness waits for them)",
        "Y is honest: it challenges only voteproofs it received; forged traffic is limited to foreign ids and unexpected kinds",
    ]
    parts = set((os.environ.get("VERIF_HANDOVER_PARTS") or "mc,cand,replay,trace,lock,ask").split(","))  # development aid
    ctx.extra["parts"] = sorted(parts)
    # 1. exhaustive
    if "mc" in parts:
        r = ctx.tlc("Handover", "Handover_mc_quick.cfg" if quick else "Handover_mc_thorough.cfg", timeout=1500, java_opts=JAVA)
        ctx.extra["mc"] = {"distinct": r.distinct, "generated": r.generated, "depth": r.diameter, "wall_s": round(r.wall, 1)}
        if not quick:
            for cfg in ("Handover_mc_thorough2.cfg", "Handover_mc_nodup.cfg"):
                r2 = ctx.tlc("Handover", cfg, timeout=1500, java_opts=JAVA)
                ctx.extra["mc_" + cfg] = {"distinct": r2.distinct, "generated": r2.generated, "wall_s": round(r2.wall, 1)}
        ctx.exhaustive = True
    # candidates of the model, concretised
    if "cand" in parts:
        candidates(ctx)
    # 2. binding A
    if "replay" in parts:
        for cfg, num, depth in (("Handover_sim.cfg", 120 if quick else 1000, 120), ("Handover_sim2.cfg", 120 if quick else 1000, 120)):
            params, lim = cfg_params(ctx, cfg)
            if lim["FinishRetry"] != 33 or lim["CancelRetry"] != 3:
                raise core.MachineryError("%s must use the retry limits of the code (33, 3)" % cfg)
            behs = simulate(ctx, cfg, num, depth)
            cases = [behaviour_case("%s#%d" % (cfg, i), params, b) for i, b in enumerate(behs)]
            rows = _replay_cases(ctx, cases, cfg.split(".")[0])
            judge(ctx, cases, rows, cfg)
    # 3. binding B
    if "trace" in parts:
        record_and_validate(ctx)
    # 4. lock order, ask
    if "lock" in parts:
        stress(ctx, lock_model(ctx))
    if "ask" in parts:
        ask(ctx)


def replay(ctx, path):
    """check.py HANDOVER --replay <file of replays/HANDOVER/>: performs the saved behaviour again
    on the real brokers of the current tree (conformance / safety cases only)."""
    saved = json.load(open(path))
    c = (saved.get("case") or {}).get("case")
    if not c or "steps" not in c:
        print("replay file %s holds no behaviour (key %s): re-run the tier with VERIF_SEED=%s" % (path, saved.get("key"), saved.get("seed")))
        return
    rows = _replay_cases(ctx, [c], "again")
    judge(ctx, [c], rows, "replay of " + os.path.basename(path))
    print(json.dumps({k: rows[0].get(k) for k in ("ok", "at", "fields", "note", "safety")}))
