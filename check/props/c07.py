"""C07 - proposer selection is deterministic and picks a suffrage member.
Spec: Proposer.tla. Binding A, two parts.

Single cases: every state of the exhaustive run (all listings = permutations of all non-empty subsets of N
nodes, x points x previous-block byte sums x which node is local x how many proposers fail) and the final
state of every -simulate behaviour (up to 64 nodes) is one case run through a real isaac.BaseProposalSelector
made for it (real getNodes sort, real BlockBasedProposerSelector.Select, real TempPool, really signed proposals).

Histories (Hist = TRUE): the statement makes the proposer a function of (point, previous block, suffrage) alone,
so it may not depend on what the selector OBJECT of a node was asked before. A script is a chain that grows
block by block - every block may change the suffrage (join / leave / swap / nothing) - and selections put to
long-lived selector objects at the heights and rounds of that chain (GetNodesFunc answers by block height from
the chain as it is at that moment, nothing above its top). Every maximal script of the exhaustive run and the
last state of every -simulate behaviour (up to 64 nodes, two selector objects, also late selections for older
heights, now and then a failing proposer) is replayed on real long-lived BaseProposalSelector objects; every
selection is also put to a selector object made for that single call (a node that has just started) with the
same point, previous block and suffrage in another listing.

Verdicts come from the statement, evaluated on what the real code did:
  non-member            a selected / winning proposer is not in the listed suffrage
  non-member;long-lived-selector   the same, by a selector object that was asked before (e.g. a node that left with the last block)
  history-dependent     a selector object that was asked before selects another proposer than one made for the call
                        (same point, previous block, suffrage)
  order-dependent       two listings of the same suffrage (same point, previous block) select different proposers
  node-dependent        two nodes (different `local`) select different first proposers for the same input
  fallback-order-dependent  after the same failures, two listings continue with different proposers
  failed-proposer-selected-again
Differences to the specification's own choice (sorted by address, index (sum+height+round) mod n) that keep
the statement are reported as evidence only."""
import bisect
import os
import random
import re
import shutil
import time
from vlib import core


def parse_tla(s):
    """value printed by TLC (ints, <<..>>, {..}, [a |-> ..]) -> Python (sets become lists)"""
    pos, n = 0, len(s)
    fld = re.compile(r"(\w+)\s*\|->")
    num = re.compile(r"-?\d+")

    def ws():
        nonlocal pos
        while pos < n and s[pos] in " \n\t":
            pos += 1

    def seq(close):
        nonlocal pos
        out = []
        ws()
        if s.startswith(close, pos):
            pos += len(close)
            return out
        while True:
            out.append(val())
            ws()
            if s.startswith(close, pos):
                pos += len(close)
                return out
            if s[pos] != ",":
                raise ValueError(s[pos:pos + 30])
            pos += 1

    def val():
        nonlocal pos
        ws()
        if s.startswith("<<", pos):
            pos += 2
            return seq(">>")
        if s[pos] == "{":
            pos += 1
            return seq("}")
        if s[pos] == "[":
            pos += 1
            out = {}
            while True:
                ws()
                m = fld.match(s, pos)
                if not m:
                    raise ValueError(s[pos:pos + 30])
                pos = m.end()
                out[m.group(1)] = val()
                ws()
                if s[pos] == "]":
                    pos += 1
                    return out
                if s[pos] != ",":
                    raise ValueError(s[pos:pos + 30])
                pos += 1
        m = num.match(s, pos)
        if not m:
            raise ValueError(s[pos:pos + 30])
        pos = m.end()
        return int(m.group())

    v = val()
    ws()
    if pos != n:
        raise ValueError("trailing " + s[pos:pos + 30])
    return v


STEP = re.compile(r'^(?:/\\ )?step = "(.*)"$')


def script_strings(path, last_only=False):
    out = []
    with open(path, errors="replace") as f:
        for line in f:
            m = STEP.match(line.rstrip("\n"))
            if m and m.group(1):
                out.append(m.group(1))
    return out[-1:] if last_only else out


EVENT = re.compile(r"\[([^\]]*)\]")
FIELD = re.compile(r", (?=\w+ \|->)")


def normal(t):
    """TLC prints the fields of a record in one order when it is made and in another once it was compared: sort them"""
    return EVENT.sub(lambda m: "[" + ", ".join(sorted(FIELD.split(m.group(1)))) + "]", t)


def maximal(strs):
    """scripts that are not the beginning of another script (a script is printed as <<e1, e2, ...>>)"""
    heads = sorted(normal(t)[:-2] for t in strs)
    out = []
    for t in heads:
        p = t + ", "
        j = bisect.bisect_left(heads, p)
        if j < len(heads) and heads[j].startswith(p):
            continue
        out.append(t + ">>")
    return out


def cfg_consts(name):
    txt = open(os.path.join(core.SPEC, name)).read()
    return {k: int(v) for k, v in re.findall(r"^\s*(\w+)\s*=\s*(\d+)\s*$", txt, re.M)}


def hist_scripts(ctx, cfg, sim=None):
    """the scripts of the history part: exhaustive (maximal scripts of the dump) or -simulate (last state of each behaviour)"""
    k = cfg_consts(cfg)
    order = sorted(range(1, k["N"] + 1), key=lambda i: (i * k["Mul"]) % k["Mod"])
    try:
        if sim is None:
            dump = os.path.join(ctx.work, "hdump%d" % (getattr(ctx, "_ntlc", 0) + 1))
            ctx.tlc("Proposer", cfg, args=["-dump", dump], timeout=1500, workers=8)
            strs = maximal(script_strings(dump + ".dump"))
            os.remove(dump + ".dump")
        else:
            num, depth = sim
            d = os.path.join(ctx.work, "hsim%d" % (getattr(ctx, "_ntlc", 0) + 1))
            os.makedirs(d)
            ctx.tlc("Proposer", cfg, args=["-simulate", "file=%s/t,num=%d" % (d, num), "-depth", depth, "-seed", ctx.seed],
                    workers=1, timeout=1200, count=False)
            strs = []
            for f in sorted(os.listdir(d), key=lambda x: int(x.rsplit("_", 1)[1]) if x.rsplit("_", 1)[1].isdigit() else 0):
                strs += script_strings(os.path.join(d, f), last_only=True)
            shutil.rmtree(d, ignore_errors=True)
            ctx.states += len(strs)
            ctx.transitions += len(strs)
        scripts = [parse_tla(t) for t in strs]
    except ValueError as e:
        raise core.MachineryError("cannot decode a script printed by TLC: %s" % e)
    for sc in scripts:          # ListingOf(e) of the specification: the members of the suffrage of that height by (i * key) % Mod
        suf = {}
        for e in sc:
            if e["k"] == 0:
                suf[e["g"]] = e["suf"]
            else:
                e["listing"] = sorted(suf[e["h"] - 1], key=lambda i: (i * e["key"]) % k["Mod"])
    return [{"script": sc, "order": order} for sc in scripts if any(e["k"] == 1 for e in sc)]


class Judge:
    """evaluates the statement on what the real code did"""

    def __init__(self, ctx):
        self.ctx = ctx
        self.groups = {}      # (suffrage, h, r, hs) -> {first selected: example}      nfail = 0, any local, any order; history-free calls
        self.fgroups = {}     # (suffrage, h, r, hs, local, nfail) -> {chain: example}  history-free calls
        self.skipped = 0
        self.total = 0
        self.diverge = {}
        self.slowest = 0
        self.other_heights = {}

    def observe(self, c, x, case, who=""):
        """c: listing, h, r, hs, local, nfail (+ chain, winner of the specification); x: what one real Select call did.
        Returns the proposers the real code selected, in order, or None (no verdict from this call)."""
        ctx = self.ctx
        self.total += 1
        self.slowest = max(self.slowest, x.get("ms", 0))
        S = tuple(sorted(c["listing"]))
        sfx = (";" + who) if who else ""
        if x.get("panic"):
            ctx.violation("panic" + sfx, "BaseProposalSelector.Select panicked: %s" % x["panic"][:300], case)
            return None
        if x.get("err"):
            ctx.violation("select-error" + sfx, "BaseProposalSelector.Select failed for point (%d,%d), listing %s: %s" % (
                c["h"], c["r"], c["listing"], x["err"][:200]), case)
            return None
        # what the real code selected, in order: the nodes the real ProposerSelectFunc returned; with one node listed
        # the code does not call it and uses that node
        ev = [tuple(e) for e in x["events"]]
        chain = [n for (k, n) in ev if k == 0]
        if not chain:
            asked = [n for (k, n) in ev if k == 1]
            if asked:
                chain = [asked[0]]
            elif len(c["listing"]) == 1:
                chain = list(c["listing"])
        if not chain:
            ctx.violation("nothing-selected" + sfx, "no proposer was selected for listing %s" % c["listing"], case)
            return None
        # the script did not happen as written when the proposer wait ran out before a selected node was asked (the
        # code then drops it without a request): every selected node other than local that is followed by another
        # selection must have been asked in between; with failures scripted also the last one. Skip, never an alarm.
        stalled = False
        sel_pos = [j for j, (k, n) in enumerate(ev) if k == 0]
        for a, j in enumerate(sel_pos):
            n = ev[j][1]
            end = sel_pos[a + 1] if a + 1 < len(sel_pos) else len(ev)
            if n != c["local"] and (a + 1 < len(sel_pos) or x["winner"] != n) and (1, n) not in ev[j + 1:end]:
                stalled = True
        if len(c["listing"]) == 1 and chain[0] != c["local"] and (1, chain[0]) not in ev:
            stalled = True
        # the same when the call ran into its deadline: without scripted failures it takes some 40 ms of an 8 s wait;
        # with them the first proposer is retried for one wait (1.5 s) and the others get one more
        if x.get("wait_ms") and x["ms"] >= (1 if c["nfail"] == 0 else 2) * x["wait_ms"] - 100:
            stalled = True
        if stalled:
            self.skipped += 1
            return None
        for p in chain:
            if p not in S:
                ctx.violation("non-member" + sfx, "node %s selected for point (%d,%d), suffrage %s (listing %s)" % (
                    p, c["h"], c["r"], list(S), c["listing"]), case)
        if x["winner"] not in S and x["winner"] != c["local"]:
            ctx.violation("non-member" + sfx, "proposal by %s returned for point (%d,%d), suffrage %s" % (
                x["winner"], c["h"], c["r"], list(S)), case)
        if c["nfail"] == 0 and x["winner"] != chain[0]:
            ctx.violation("proposal-not-from-selected-proposer" + sfx, "listing %s: %s selected, proposal of %s returned" % (
                c["listing"], chain[0], x["winner"]), case)
        if not x["valid"]:
            ctx.violation("wrong-proposal" + sfx, "the proposal returned for listing %s is not for the point/previous block asked" % c["listing"], case)
        if len(set(chain)) != len(chain):
            ctx.violation("failed-proposer-selected-again" + sfx, "selected %s for listing %s" % (chain, c["listing"]), case)
        hs = [g for g in x.get("heights", []) if g != max(c["h"] - 1, 0)]
        if hs and "script" in case:
            self.other_heights[hs[0] - c["h"]] = self.other_heights.get(hs[0] - c["h"], 0) + 1
        # evidence: the specification's own choice
        if "chain" in c:
            if chain != c["chain"]:
                self.diverge["chain"] = self.diverge.get("chain", 0) + 1
                ctx.extra.setdefault("spec_divergence_example", {"case": c, "real": x})
            elif x["winner"] != c["winner"]:
                self.diverge["winner"] = self.diverge.get("winner", 0) + 1
                ctx.extra.setdefault("spec_divergence_example", {"case": c, "real": x})
            if x.get("sorted") and "order" in c:
                want = [n for n in c["order"] if n in S]
                if len(S) > 1 and x["sorted"][0] != want:
                    self.diverge["sorted-list"] = self.diverge.get("sorted-list", 0) + 1
        return chain

    def history_free(self, c, x, chain):
        """a call on a selector object that was never asked before: goes into the comparison across listings and nodes"""
        S = tuple(sorted(c["listing"]))
        g = self.groups.setdefault((S, c["h"], c["r"], c["hs"]), {})
        g.setdefault(chain[0], (c, x))
        fg = self.fgroups.setdefault((S, c["h"], c["r"], c["hs"], c["local"], c["nfail"]), {})
        fg.setdefault(tuple(chain), (c, x))

    def compare_groups(self):
        ctx = self.ctx
        for key, g in self.groups.items():
            if len(g) > 1:
                ex = list(g.items())
                (p1, (c1, x1)), (p2, (c2, x2)) = ex[0], ex[1]
                same_order = c1["listing"] == c2["listing"]
                ctx.violation("node-dependent" if same_order else "order-dependent",
                              "suffrage %s, point (%d,%d), byte sum %d: listing %s (local %s) selects %s, listing %s (local %s) selects %s" % (
                                  list(key[0]), key[1], key[2], key[3], c1["listing"], c1["local"], p1, c2["listing"], c2["local"], p2),
                              {"a": {"case": c1, "real": x1}, "b": {"case": c2, "real": x2}})
        for key, g in self.fgroups.items():
            if len(g) > 1 and len(self.groups.get(key[:4], {})) <= 1:
                ex = list(g.items())
                (p1, (c1, x1)), (p2, (c2, x2)) = ex[0], ex[1]
                ctx.violation("fallback-order-dependent",
                              "suffrage %s, point (%d,%d), byte sum %d, %d failing: listing %s selects %s, listing %s selects %s" % (
                                  list(key[0]), key[1], key[2], key[3], key[5], c1["listing"], list(p1), c2["listing"], list(p2)),
                              {"a": {"case": c1, "real": x1}, "b": {"case": c2, "real": x2}})


def judge_script(J, ctx, sc, row, stats):
    """one replayed script: every selection of a long-lived selector object against the statement and against the
    selector object made for that call"""
    script = sc["script"]
    if row.get("panic"):
        raise core.MachineryError("harness failed on a script: %s" % row["panic"][:500])
    sels = [i for i, e in enumerate(script) if e["k"] == 1]
    if [r["ev"] for r in row["sels"]] != sels:
        raise core.MachineryError("harness answered selections %s of script with selections %s" % ([r["ev"] for r in row["sels"]], sels))
    asked_before = {}          # selector object -> number of selections put to it so far
    points = set()             # (selector object, point) it was asked for: its pool holds the proposal it got then
    sufs = {}
    for i, e in enumerate(script):
        if e["k"] == 0:
            sufs[e["g"]] = e["suf"]
            continue
        r = row["sels"][sels.index(i)]
        before = asked_before.get(e["sel"], 0)
        asked_before[e["sel"]] = before + 1
        again = (e["sel"], e["h"], e["r"]) in points
        points.add((e["sel"], e["h"], e["r"]))
        S = tuple(sorted(e["listing"]))
        changed = e["h"] >= 2 and sorted(sufs[e["h"] - 1]) != sorted(sufs[e["h"] - 2])
        ctx.case(["script", [[x["k"], x.get("g"), x.get("suf"), x.get("sel"), x.get("h"), x.get("r"), x.get("hs"), x.get("listing"), x.get("nfail")]
                             for x in script[:i + 1]]], nontrivial=before > 0 and len(S) > 1,
                 sample={"script": script[:i + 1], "long_lived": {k: r["vet"][k] for k in ("selected", "asked", "winner")},
                         "made_for_the_call": {"local": r["twin_local"], "listing": r["twin_listing"],
                                               **{k: r["twin"][k] for k in ("selected", "asked", "winner")}}})
        stats["selections"] += 1
        stats["after_earlier_selections"] += 1 if before else 0
        stats["after_suffrage_change"] += 1 if before and changed else 0
        cv = {"listing": e["listing"], "h": e["h"], "r": e["r"], "hs": e["hs"], "local": e["loc"], "nfail": e["nfail"],
              "chain": e["chain"], "winner": e["winner"], "order": sc["order"]}
        ct = dict(cv, listing=r["twin_listing"], local=r["twin_local"])
        if again and e["nfail"] > 0:      # it finds the proposal it got then in its pool and does not go on to other nodes
            cv.pop("chain"), cv.pop("winner")
        if r["twin_local"] != e["loc"] and e["nfail"] > 0:      # the specification's continuation depends on who is local
            ct.pop("chain"), ct.pop("winner")
        case = {"script": script[:i + 1], "selection": e, "long_lived_selector": r["vet"],
                "selector_made_for_the_call": {"local": r["twin_local"], "listing": r["twin_listing"], "real": r["twin"]}}
        chv = J.observe(cv, r["vet"], case, who="long-lived-selector" if before else "")
        cht = J.observe(ct, r["twin"], case)
        if cht is not None:
            J.history_free(ct, r["twin"], cht)
        if chv is not None and not before:
            J.history_free(cv, r["vet"], chv)
        if chv is None or cht is None or not before:
            continue
        what = "selector object asked %d time(s) before (last: point (%d,%d))" % (
            before, *[(p["h"], p["r"]) for p in script[:i] if p["k"] == 1 and p["sel"] == e["sel"]][-1])
        if chv[0] != cht[0]:
            ctx.violation("history-dependent",
                          "point (%d,%d), byte sum %d, suffrage %s%s: %s selects %s, a selector made for this call selects %s" % (
                              e["h"], e["r"], e["hs"], list(S), " (changed by the last block)" if changed else "", what, chv[0], cht[0]), case)
        elif r["twin_local"] == e["loc"] and chv != cht and not again:
            # (asked for the same point again, the selector finds the proposal in its pool and does not go on to other nodes)
            ctx.violation("history-dependent;fallback",
                          "point (%d,%d), suffrage %s, %d failing: %s continues with %s, a selector made for this call with %s" % (
                              e["h"], e["r"], list(S), e["nfail"], what, chv, cht), case)


def run(ctx):
    quick = ctx.tier == "quick"
    t0 = time.time()
    timing = {}

    def lap(name):
        nonlocal t0
        timing[name] = round(time.time() - t0, 1)
        t0 = time.time()

    cfg = "Proposer_mc_quick.cfg" if quick else "Proposer_mc_thorough.cfg"
    r, steps = ctx.tlc_dump_steps("Proposer", cfg, timeout=1500, workers=8)
    nex = len(steps)
    lap("tlc_cases_exhaustive")
    _, behs = ctx.tlc_simulate("Proposer", "Proposer_sim.cfg", num=150 if quick else 1500, depth=70, timeout=1200)
    lap("tlc_cases_simulate")
    rng = random.Random(ctx.seed)
    for b in behs:
        c = b[-1]
        steps.append(c)
        if len(c["listing"]) > 1:
            for _ in range(2):          # two more listings of the same suffrage: the specification's answer is the same
                c2 = dict(c)
                c2["listing"] = list(c["listing"])
                rng.shuffle(c2["listing"])
                steps.append(c2)
    hcfg = "Proposer_hist_quick.cfg" if quick else "Proposer_hist_thorough.cfg"
    scripts = hist_scripts(ctx, hcfg)
    if not quick:       # selections for older heights and in any order, exhaustive for 3 nodes
        scripts += hist_scripts(ctx, "Proposer_hist_late.cfg")
    nhex = len(scripts)
    lap("tlc_histories_exhaustive")
    scripts += hist_scripts(ctx, "Proposer_hist_sim.cfg", sim=(60 if quick else 600, 30))
    lap("tlc_histories_simulate")
    ctx.exhaustive = True
    kh = cfg_consts(hcfg)
    ctx.rule = ("single cases (listing, point, previous-block byte sum, local node, number of failing proposers): exhaustive = every "
                "permutation of every non-empty subset of %d nodes x the points/sums of %s; seeded = one random case per -simulate "
                "behaviour with 1..64 nodes; non-trivial = at least 2 nodes listed; distinct by the whole case. "
                "histories: one case per selection of a script, distinct by the script up to it (chain of suffrages by block height, "
                "selections before it); exhaustive = every maximal script of %s (%d nodes, %d blocks after genesis, %d long-lived selector "
                "object(s))%s; seeded = one script per -simulate behaviour of Proposer_hist_sim.cfg; non-trivial = put to a selector object "
                "that was asked before, at least 2 nodes listed" % (
                    4 if quick else 5, cfg, hcfg, kh["N"], kh["MaxBlocks"], kh["NSel"],
                    "" if quick else " and of Proposer_hist_late.cfg (3 nodes, selections for any height that has a previous block, in any order)"))
    cin = os.path.join(ctx.work, "cases.ndjson")
    cout = os.path.join(ctx.work, "res.ndjson")
    keep = ("k", "g", "suf", "hs", "sel", "loc", "h", "r", "listing", "nfail")
    core.write_ndjson(cin, [{k: s[k] for k in ("listing", "order", "h", "r", "hs", "local", "nfail")} for s in steps] +
                      [{"order": sc["order"], "script": [{k: e[k] for k in keep if k in e} for e in sc["script"]]} for sc in scripts])
    ctx.vh(["C07", "replay", "--in", cin, "--out", cout], timeout=3000)
    rows = core.read_ndjson(cout)
    lap("harness")
    if len(rows) != len(steps) + len(scripts):
        raise core.MachineryError("harness answered %d of %d cases" % (len(rows), len(steps) + len(scripts)))

    J = Judge(ctx)
    for c, x in zip(steps, rows):
        S = tuple(sorted(c["listing"]))
        ctx.case([c["listing"], c["h"], c["r"], c["hs"], c["local"], c["nfail"]], nontrivial=len(S) > 1,
                 sample={"case": {k: c[k] for k in ("listing", "h", "r", "hs", "local", "nfail")},
                         "real": {k: x[k] for k in ("selected", "asked", "winner")}, "spec": {"chain": c["chain"], "winner": c["winner"]}})
        ctx.traces += 1
        chain = J.observe(c, x, {"case": c, "real": x})
        if chain is not None:
            J.history_free(c, x, chain)
    stats = {"selections": 0, "after_earlier_selections": 0, "after_suffrage_change": 0}
    for sc, row in zip(scripts, rows[len(steps):]):
        ctx.traces += 1
        judge_script(J, ctx, sc, row, stats)
    J.compare_groups()
    lap("judge")
    if J.skipped > max(20, J.total // 20):
        raise core.MachineryError("%d of %d calls skipped because the proposer wait ran out before the first request" % (J.skipped, J.total))
    if stats["after_suffrage_change"] < 20:
        raise core.MachineryError("only %d selections on a long-lived selector after a suffrage change" % stats["after_suffrage_change"])
    ctx.extra["exhaustive_cases"] = nex
    ctx.extra["simulated_cases"] = len(steps) - nex
    ctx.extra["history_scripts_exhaustive"] = nhex
    ctx.extra["history_scripts_simulated"] = len(scripts) - nhex
    ctx.extra["history_selections(each on a long-lived selector and on one made for the call)"] = stats
    ctx.extra["groups_compared(order/node independence)"] = len(J.groups)
    ctx.extra["calls_skipped_wait_ran_out"] = J.skipped
    ctx.extra["slowest_call_ms"] = J.slowest
    ctx.extra["spec_vs_code_differences(evidence, not a verdict)"] = J.diverge
    ctx.extra["GetNodesFunc_asked_for_other_height(offset to the point height: calls; evidence)"] = J.other_heights
    ctx.extra["timing_s"] = timing
    ctx.assumptions = [
        "the previous block enters only through the sum of its hash bytes (model value hs -> a 32-byte hash with that byte sum)",
        "failing proposers fail by answering with an error; the first proposer is retried by the code until MinProposerWait (1.5 s here) runs out",
        "every simulated single case is run in three listings (the generated one and two seeded shuffles)",
        "histories: the suffrage that decides a point of height h is the one in the state of block h-1 (what GetNodesFunc is asked for); "
        "the selector object made for a single call is another node (the same node when proposers fail) with a seeded shuffle of the listing",
    ]
