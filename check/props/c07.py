"""C07 - proposer selection is deterministic and picks a suffrage member.
Spec: Proposer.tla. Binding A: every state of the exhaustive run (all listings = permutations of all
non-empty subsets of N nodes, x points x previous-block byte sums x which node is local x how many
proposers fail) and the final state of every -simulate behaviour (up to 64 nodes) is one case run
through the real isaac.BaseProposalSelector (real getNodes sort, real BlockBasedProposerSelector.Select,
real TempPool, really signed proposals).

Verdicts come from the statement, evaluated on what the real code did:
  non-member            a selected / winning proposer is not in the listed suffrage
  order-dependent       two listings of the same suffrage (same point, previous block) select different proposers
  node-dependent        two nodes (different `local`) select different first proposers for the same input
  fallback-order-dependent  after the same failures, two listings continue with different proposers
  failed-proposer-selected-again
Differences to the specification's own choice (sorted by address, index (sum+height+round) mod n) that keep
the statement are reported as evidence only."""
import os
import random
from vlib import core


def run(ctx):
    quick = ctx.tier == "quick"
    cfg = "Proposer_mc_quick.cfg" if quick else "Proposer_mc_thorough.cfg"
    r, steps = ctx.tlc_dump_steps("Proposer", cfg, timeout=1500, workers=4)
    nex = len(steps)
    _, behs = ctx.tlc_simulate("Proposer", "Proposer_sim.cfg", num=150 if quick else 1500, depth=70, timeout=1200)
    rng = random.Random(ctx.seed)
    for b in behs:
        c = b[-1]
        steps.append(c)
        if len(c["listing"]) > 1:
            for _ in range(2):          # two more listings of the same suffrage: the specification's answer is the same
                c2 = dict(c)
                c2["listing"] = list(c["listing"])
                rng.shuffle(c2["listing"])
                steps.append(c2)
    ctx.exhaustive = True
    ctx.rule = ("cases (listing, point, previous-block byte sum, local node, number of failing proposers): exhaustive = every "
                "permutation of every non-empty subset of %d nodes x the points/sums of %s; seeded = one random case per -simulate "
                "behaviour with 1..64 nodes; non-trivial = at least 2 nodes listed; distinct by the whole case" % (4 if quick else 5, cfg))
    cin = os.path.join(ctx.work, "cases.ndjson")
    cout = os.path.join(ctx.work, "res.ndjson")
    core.write_ndjson(cin, [{k: s[k] for k in ("listing", "order", "h", "r", "hs", "local", "nfail")} for s in steps])
    ctx.vh(["C07", "replay", "--in", cin, "--out", cout], timeout=2400)
    rows = core.read_ndjson(cout)
    if len(rows) != len(steps):
        raise core.MachineryError("harness answered %d of %d cases" % (len(rows), len(steps)))

    groups = {}      # (suffrage, h, r, hs) -> {first selected: example}          nfail = 0, any local, any order
    fgroups = {}     # (suffrage, h, r, hs, local, nfail) -> {chain: example}
    skipped = 0
    diverge = {}
    slowest = 0
    for i, (c, x) in enumerate(zip(steps, rows)):
        S = tuple(sorted(c["listing"]))
        ctx.case([c["listing"], c["h"], c["r"], c["hs"], c["local"], c["nfail"]], nontrivial=len(S) > 1,
                 sample={"case": {k: c[k] for k in ("listing", "h", "r", "hs", "local", "nfail")},
                         "real": {k: x[k] for k in ("selected", "asked", "winner")}, "spec": {"chain": c["chain"], "winner": c["winner"]}})
        ctx.traces += 1
        slowest = max(slowest, x["ms"])
        case = {"case": c, "real": x}
        if x.get("panic"):
            ctx.violation("panic", "BaseProposalSelector.Select panicked: %s" % x["panic"][:300], case)
            continue
        if x.get("err"):
            ctx.violation("select-error", "BaseProposalSelector.Select failed for listing %s: %s" % (c["listing"], x["err"][:200]), case)
            continue
        # what the real code selected, in order: the nodes the real ProposerSelectFunc returned; with one node listed
        # the code does not call it and uses that node
        ev = [tuple(e) for e in x["events"]]
        chain = [n for (k, n) in ev if k == 0]
        if not chain and len(c["listing"]) == 1:
            chain = list(c["listing"])
        if not chain:
            ctx.violation("nothing-selected", "no proposer was selected for listing %s" % c["listing"], case)
            continue
        # the script did not happen as written when the proposer wait ran out before a selected node was asked (the
        # code then drops it without a request): every selected node other than local that is followed by another
        # selection must have been asked in between; with failures scripted also the last one. Skip, never an alarm.
        stalled = False
        sel_pos = [j for j, (k, n) in enumerate(ev) if k == 0]
        for a, j in enumerate(sel_pos):
            n = ev[j][1]
            end = sel_pos[a + 1] if a + 1 < len(sel_pos) else len(ev)
            if n != c["local"] and (a + 1 < len(sel_pos) or x["winner"] != n) and (1, n) not in ev[j + 1:end]:
                stalled = True
        if len(c["listing"]) == 1 and chain[0] != c["local"] and (1, chain[0]) not in ev:
            stalled = True
        if stalled:
            skipped += 1
            continue
        for p in chain:
            if p not in S:
                ctx.violation("non-member", "node %s selected for suffrage %s (listing %s)" % (p, list(S), c["listing"]), case)
        if x["winner"] not in S and x["winner"] != c["local"]:
            ctx.violation("non-member", "proposal by %s returned for suffrage %s" % (x["winner"], list(S)), case)
        if c["nfail"] == 0 and x["winner"] != chain[0]:
            ctx.violation("proposal-not-from-selected-proposer", "listing %s: %s selected, proposal of %s returned" % (
                c["listing"], chain[0], x["winner"]), case)
        if not x["valid"]:
            ctx.violation("wrong-proposal", "the proposal returned for listing %s is not for the point/previous block asked" % c["listing"], case)
        if len(set(chain)) != len(chain):
            ctx.violation("failed-proposer-selected-again", "selected %s for listing %s" % (chain, c["listing"]), case)
        g = groups.setdefault((S, c["h"], c["r"], c["hs"]), {})
        g.setdefault(chain[0], (c, x))
        fg = fgroups.setdefault((S, c["h"], c["r"], c["hs"], c["local"], c["nfail"]), {})
        fg.setdefault(tuple(chain), (c, x))
        # evidence: the specification's own choice
        if chain != c["chain"]:
            diverge["chain"] = diverge.get("chain", 0) + 1
            ctx.extra.setdefault("spec_divergence_example", {"case": c, "real": x})
        elif x["winner"] != c["winner"]:
            diverge["winner"] = diverge.get("winner", 0) + 1
            ctx.extra.setdefault("spec_divergence_example", {"case": c, "real": x})
        if x.get("sorted"):
            want = [n for n in c["order"] if n in S]
            if len(S) > 1 and x["sorted"][0] != want:
                diverge["sorted-list"] = diverge.get("sorted-list", 0) + 1

    for key, g in groups.items():
        if len(g) > 1:
            ex = list(g.items())
            (p1, (c1, x1)), (p2, (c2, x2)) = ex[0], ex[1]
            same_order = c1["listing"] == c2["listing"]
            ctx.violation("node-dependent" if same_order else "order-dependent",
                          "suffrage %s, point (%d,%d), byte sum %d: listing %s (local %s) selects %s, listing %s (local %s) selects %s" % (
                              list(key[0]), key[1], key[2], key[3], c1["listing"], c1["local"], p1, c2["listing"], c2["local"], p2),
                          {"a": {"case": c1, "real": x1}, "b": {"case": c2, "real": x2}})
    for key, g in fgroups.items():
        if len(g) > 1 and len(groups.get(key[:4], {})) <= 1:
            ex = list(g.items())
            (p1, (c1, x1)), (p2, (c2, x2)) = ex[0], ex[1]
            ctx.violation("fallback-order-dependent",
                          "suffrage %s, point (%d,%d), byte sum %d, %d failing: listing %s selects %s, listing %s selects %s" % (
                              list(key[0]), key[1], key[2], key[3], key[5], c1["listing"], list(p1), c2["listing"], list(p2)),
                          {"a": {"case": c1, "real": x1}, "b": {"case": c2, "real": x2}})
    if skipped > max(20, len(steps) // 20):
        raise core.MachineryError("%d of %d cases skipped because the proposer wait ran out before the first request" % (skipped, len(steps)))
    ctx.extra["exhaustive_cases"] = nex
    ctx.extra["simulated_cases"] = len(steps) - nex
    ctx.extra["groups_compared(order/node independence)"] = len(groups)
    ctx.extra["cases_skipped_wait_ran_out"] = skipped
    ctx.extra["slowest_case_ms"] = slowest
    ctx.extra["spec_vs_code_differences(evidence, not a verdict)"] = diverge
    ctx.assumptions = [
        "the previous block enters only through the sum of its hash bytes (model value hs -> a 32-byte hash with that byte sum)",
        "failing proposers fail by answering with an error; the first proposer is retried by the code until MinProposerWait (0.6 s here) runs out",
        "every simulated case is run in three listings (the generated one and two seeded shuffles)",
    ]
