"""WATCHER - isaac.LastConsensusNodesWatcher with the real SuffrageStateBuilder as getFromRemote.
Spec: NodesWatcher.tla. Binding A: TLC prints behaviours (environment steps "local"/"remote", calls
"last"/"check" with the values the contract demands) - exhaustively for a small world, seeded
-simulate for a larger one; harness/internal/watcher performs them on the real watcher over real
suffrage proofs and reports what Last() answered, which state the builder was asked with and what
whenUpdated was given; this file judges.
"""
import json
import os
import re
import time

from vlib import core

MOD = "NodesWatcher"


def tla_json(s):
    s = s.replace("<<", "[").replace(">>", "]").replace("{", "[").replace("}", "]")
    s = re.sub(r"\bTRUE\b", "true", s)
    s = re.sub(r"\bFALSE\b", "false", s)
    return json.loads(s)


def printed(out, tag):
    pre = '"%s ' % tag
    vals = []
    for line in out.splitlines():
        if line.startswith(pre) and line.endswith('"'):
            body = line[len(pre):-1].replace('\\"', '"').replace("\\\\", "\\")
            try:
                vals.append(tla_json(body))
            except ValueError as e:
                raise core.MachineryError("cannot parse %s line %r: %s" % (tag, line[:200], e))
    return vals


def run_model(ctx, cfg, simulate=None):
    args = ["-fpmem", "0.1"]
    kw = {}
    if simulate:
        num, depth = simulate
        args += ["-simulate", "num=%d" % num, "-depth", depth, "-seed", ctx.seed]
        kw["workers"] = 1
    r = ctx.tlc(MOD, cfg, args=args, timeout=1500, count=not simulate, java_opts=["-Xmx6g"], **kw)
    ctx.extra.setdefault("tlc_s", {})[cfg] = round(r.wall, 1)
    w = printed(r.out, "WORLD")
    cases = printed(r.out, "CASE")
    if not w or not cases:
        raise core.MachineryError("TLC %s printed no WORLD/CASE line:\n%s" % (cfg, core._tlc_tail(r.out)))
    if simulate:
        n = sum(len(c) + 1 for c in cases)
        ctx.states += n
        ctx.transitions += n
    k, gap, forkat = w[0]
    ctx.extra.setdefault("scripts", {})[cfg] = len(cases)
    return {"k": k, "gap": gap, "forkat": forkat, "maxb": gap * k + 1, "cfg": cfg}, cases


def P(x):
    return "" if x < 0 else "P%d" % x


def C(x):
    return "" if x < 0 else "C%d" % x


def num(label):
    return -1 if not label else int(label[1:])


def to_steps(c):
    out = []
    for e in c:
        if e[0] == "local":
            out.append({"a": "local", "p": e[1], "c": e[2], "h": e[3]})
        elif e[0] == "remote":
            out.append({"a": "remote", "p": e[1], "c": e[2], "h": e[3], "m": e[4]})
        else:
            out.append({"a": e[0]})
    return out


def judge(ctx, world, c, res, stats):
    seen = set()

    def report(key, what, case):
        if key not in seen:
            seen.add(key)
            ctx.violation(key, what, case)

    if res.get("note"):
        if res["note"].startswith("machinery"):
            raise core.MachineryError("case %d: %s" % (res["i"], res["note"]))
        report("watcher:cannot-start", res["note"], {"world": world, "steps": to_steps(c)})
        return
    if len(res["steps"]) != len(c):
        raise core.MachineryError("case %d: %d of %d steps answered" % (res["i"], len(res["steps"]), len(c)))
    lastp, lastc = -1, -1
    for i, (e, st) in enumerate(zip(c, res["steps"])):
        case = {"world": world, "steps": to_steps(c[:i + 1]), "model": e, "got": st}
        if e[0] in ("local", "remote"):
            continue
        if st.get("panic"):
            report("crash:%s" % e[0], st["panic"][:300], case)
            return
        if st.get("err"):
            report("error:%s" % e[0], st["err"][:300], case)
            return
        wantp, wantc = (e[1], e[2]) if e[0] == "last" else (e[6], e[7])
        gp, gc = st["proof"], st["cand"]
        # the statement, directly: on the main chain, never backwards
        if gp and not gp.startswith("P"):
            report("adopt:proof-not-on-the-proved-chain", "Last() answers %s after %s" % (gp, e[0]), case)
        else:
            if num(gp) < lastp:
                report("monotone:proof-went-back", "Last() answered P%d, now %s" % (lastp, gp or "nil"), case)
            if num(gc) < lastc:
                report("monotone:candidates-went-back", "Last() answered C%d, now %s" % (lastc, gc or "nil"), case)
            lastp, lastc = max(lastp, num(gp)), max(lastc, num(gc))
            if gp != P(wantp):
                report("last:proof-%s" % ("older-than-known" if num(gp) < wantp else "newer-than-known"),
                       "Last() answers %s after %s, the newest adopted is %s" % (gp or "nil", e[0], P(wantp) or "nil"), case)
            if gc != C(wantc):
                report("last:candidates-%s" % ("older-than-known" if num(gc) < wantc else "newer-than-known"),
                       "Last() answers candidates %s after %s, the newest adopted is %s" % (gc or "nil", e[0], C(wantc) or "nil"), case)
        if e[0] == "last":
            stats["last"] += 1
            if st.get("exists") and gp and st["exists"] != "true/false/false":
                report("exists:member-of-the-held-suffrage-not-found", "Exists(member of %s) = %s (found/err/panic)" % (gp, st["exists"]), case)
            continue
        stats["check"] += 1
        _, asked, ok, prev, updp, updc, _, _ = e
        if st["asked"] != P(asked):
            report("check:remote-asked-with-another-state", "the builder was asked with %s, held %s" % (st["asked"] or "nil", P(asked) or "nil"), case)
        if st["buildok"] and not ok:
            report("check:builder-accepted-what-does-not-prove", "Build(%s) served %s" % (st["asked"], st.get("served")), case)
        if not st["buildok"] and ok:
            report("check:builder-refused-the-proving-chain", "Build(%s): %s" % (st["asked"], st.get("builderr")), case)
        want_calls = 1 if st["buildok"] else 0
        if st["called"] != want_calls:
            key = "whenupdated:not-called" if st["called"] == 0 else (
                "whenupdated:called-after-failed-check" if want_calls == 0 else "whenupdated:called-more-than-once")
            report(key, "whenUpdated called %d times for one check (builder ok=%s)" % (st["called"], st["buildok"]), case)
        if st["called"] >= 1 and st["buildok"] == ok:
            stats["whenupdated"] += 1
            if st["upd"]:
                stats["whenupdated_with_value"] += 1
            if st["prev"] != P(prev):
                report("whenupdated:previous", "previous = %s, held before the check %s" % (st["prev"] or "nil", P(prev) or "nil"), case)
            if st["upd"] and (st["upd"] != gp or st["updc"] != gc):
                report("whenupdated:value-is-not-what-last-answers", "whenUpdated(%s, %s) but Last() = (%s, %s)" % (
                    st["upd"], st["updc"] or "nil", gp or "nil", gc or "nil"), case)
            if st["upd"] != P(updp) or st["updc"] != C(updc):
                key = "whenupdated:change-not-announced" if updp >= 0 and not st["upd"] else (
                    "whenupdated:announced-without-change" if updp < 0 and st["upd"] else "whenupdated:value")
                report(key, "whenUpdated(updated=%s, candidates=%s), the contract says (%s, %s)" % (
                    st["upd"] or "nil", st["updc"] or "nil", P(updp) or "nil", C(updc) or "nil"), case)


def judge_readers(ctx, world, c, res, stats):
    """concurrent Last() readers: every pair they saw was the held pair at some moment (never the proof of
    one update with the candidates of another that were never held together), and never goes back"""
    legit = set([(-1, -1)])
    hp = hc = lp = lc = -1
    for e in c:
        if e[0] == "local":
            lp, lc = e[1], e[2]
        elif e[0] == "last":
            hp, hc = e[1], e[2]
        elif e[0] == "check":
            # inside a check: local adopted first, then the remote
            legit.add((max(hp, lp), max(hc, lc)))
            hp, hc = e[6], e[7]
        legit.add((hp, hc))
        legit.add((max(hp, lp), max(hc, lc)))
    for r, obs in enumerate(res.get("readers") or []):
        obs = obs or []
        stats["reader_observations"] += len(obs)
        bp = bc = -1
        for gp, gc in obs:
            case = {"world": world, "steps": to_steps(c), "reader": r, "observed": obs}
            if gp and not gp.startswith("P"):
                ctx.violation("adopt:proof-not-on-the-proved-chain", "a reader's Last() answered %s" % gp, case)
                break
            if (num(gp), num(gc)) not in legit:
                ctx.violation("readers:mixed-pair", "a reader's Last() answered (%s, %s), never held together: %s" % (
                    gp or "nil", gc or "nil", sorted(legit)), case)
                break
            if num(gp) < bp or num(gc) < bc:
                ctx.violation("readers:went-back", "a reader's Last() answered (%s, %s) after (P%d, C%d)" % (gp, gc, bp, bc), case)
                break
            bp, bc = max(bp, num(gp)), max(bc, num(gc))


def replay_world(ctx, world, cases, tag, readers=0):
    inp = os.path.join(ctx.work, "wcases-%s.ndjson" % tag)
    res = os.path.join(ctx.work, "wres-%s.ndjson" % tag)
    rows = [{"world": {"k": world["k"], "gap": world["gap"], "forkat": world["forkat"], "maxb": world["maxb"]}}]
    rows += [dict({"i": i, "steps": to_steps(c)}, **({"readers": readers} if readers else {})) for i, c in enumerate(cases)]
    core.write_ndjson(inp, rows)
    t0 = time.time()
    ctx.vh(["WATCHER", "replay", "--in", inp, "--out", res], timeout=3000)
    out = core.read_ndjson(res)
    if len(out) != len(cases):
        raise core.MachineryError("harness answered %d of %d cases" % (len(out), len(cases)))
    stats = {"last": 0, "check": 0, "whenupdated": 0, "whenupdated_with_value": 0, "reader_observations": 0}
    for c, r in zip(cases, out):
        judge(ctx, world, c, r, stats)
        if readers:
            judge_readers(ctx, world, c, r, stats)
        ctx.case([tag, c], nontrivial=any(e[0] == "check" for e in c),
                 sample={"world": tag, "steps": to_steps(c)} if any(e[0] == "check" and e[4] >= 0 for e in c) else None)
        ctx.traces += 1
    stats["replay_s"] = round(time.time() - t0, 1)
    ctx.extra.setdefault("replay", {})[tag] = stats
    os.remove(inp)
    os.remove(res)


def run(ctx):
    quick = ctx.tier == "quick"
    ctx.exhaustive = True
    ctx.rule = ("every behaviour of MaxSteps steps of the small world (K=1) plus seeded -simulate behaviours of the K=3 "
                "world (fork at 2, candidates states at 4 heights); non-trivial = the behaviour contains a check; distinct "
                "by (world, step sequence)")
    world, cases = run_model(ctx, "NodesWatcher_mc_quick.cfg" if quick else "NodesWatcher_mc_thorough.cfg")
    replay_world(ctx, world, cases, "k1")
    if not quick:
        world, cases = run_model(ctx, "NodesWatcher_mc_quick.cfg")
        replay_world(ctx, world, cases, "k1c")
    world, cases = run_model(ctx, "NodesWatcher_sim.cfg", simulate=(300 if quick else 4000, 14))
    replay_world(ctx, world, cases, "sim3")
    # the same behaviours with two goroutines reading Last() all the time
    replay_world(ctx, world, cases, "sim3-readers", readers=2)
    ctx.assumptions = [
        "the local database is on the main chain; a node that holds nothing adopts what the first remote serves (out of scope)",
        "one check at a time (the daemon's own serialisation); readers run free (no forced schedule)",
        "whenUpdated: adoption from the local database inside Last() is not announced (weak reading); the l3 history "
        "(GetSuffrage) is not modelled",
    ]
