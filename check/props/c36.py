"""C36 - rate limiting (launch/ratelimit.go). Specs: RateLimit.tla, RateLimitTrace.tla.

Choice (binding A): every history of the exhaustive config (all sequences of MaxSteps actions from
every initial rule-set configuration) and seeded -simulate walks are replayed on a real
RateLimitHandler with real rule sets; after every request the RateLimiterResult in the context
(ruleset type, description, burst of the limiter) must be the rule Choose picks from the
statement's precedence, evaluated for that request on the current rule sets.
Enforcement (binding B): bursts recorded from the real limiter under one fixed rule, harness clock
read around every call, judged by RateLimit!WindowOK (allowed <= burst + rate x window for every
window, the window measured from before its first call to after its last one)."""
import os
from vlib import core

CACHED = {"cached-clientid": "cached-clientid-limiter", "cached-net": "cached-net-limiter",
          "cached-node": "cached-node-limiter", "cached-suffrage": "cached-suffrage-limiter",
          "suffrage-rehash": "cached-suffrage-limiter"}


def run(ctx):
    quick = ctx.tier == "quick"
    cfg = "RateLimit_mc_quick.cfg" if quick else "RateLimit_mc_thorough.cfg"
    r, steps = ctx.tlc_dump_steps("RateLimit", cfg, timeout=2400)
    maxlen = max(len(s) for s in steps)
    hists = [s for s in steps if len(s) == maxlen]      # the leaves: complete histories
    nexh = len(hists)
    ctx.exhaustive = True
    rc = ctx.tlc("RateLimit", "RateLimit_mc_candidate.cfg", allow_violation=True, timeout=900, count=False)
    ctx.extra["model_candidate_ImplMatchesChoose"] = ("violated on the transcription (see DeviationOnlyViaCache)"
                                                      if rc.safety_violation else "holds on the transcription")
    _, behs = ctx.tlc_simulate("RateLimit", "RateLimit_sim.cfg", num=80 if quick else 500, depth=31)
    for b in behs:
        hists.append(b[-1])      # step of the last state = the whole walk
    ctx.rule = ("every history of %d actions of %s (%d) + %d -simulate walks of RateLimit_sim.cfg (30 actions, 3 addresses, "
                "2 handlers); one real RateLimitHandler per history; non-trivial = the history has a request; distinct by "
                "the action sequence" % (maxlen - 1, cfg, nexh, len(behs)))
    cases = os.path.join(ctx.work, "cases.ndjson")
    core.write_ndjson(cases, hists)
    res = os.path.join(ctx.work, "res.ndjson")
    ctx.vh(["C36", "replay", "--in", cases, "--out", res], timeout=2400)
    rows = core.read_ndjson(res)
    if len(rows) != len(hists):
        raise core.MachineryError("harness answered %d of %d histories" % (len(rows), len(hists)))
    calls = nreq = ndev_model = 0
    model_only = []
    paths = {}
    for hist, row in zip(hists, rows):
        calls += row["calls"]
        ctx.traces += 1
        canon = [[a.get(k) for k in ("a", "addr", "h", "c", "set", "members", "cid", "nets", "nodes", "suf", "def")] for a in hist]
        nontriv = any(a["a"] == "Request" for a in hist)
        ctx.case(canon, nontrivial=nontriv, sample={"history": [{k: v for k, v in a.items() if k not in ("impl",)} for a in hist][:6],
                                                    "observed": row["obs"][:6]})
        if row.get("panic"):
            ctx.violation("panic", "history %s: %s" % ([a["a"] for a in hist], row["panic"][:300]), {"history": hist, "result": row})
            continue
        byi = {o["step"]: o for o in row["obs"]}
        for i, a in enumerate(hist):
            if a["a"] != "Request":
                continue
            nreq += 1
            o = byi.get(i)
            if o is None or o.get("err"):
                raise core.MachineryError("no observation for request %d of %s: %s" % (i, hist, o))
            got = [o["type"], o["burst"], o["desc"]]
            want, impl, path = a["want"], a["impl"], a["path"]
            paths[path] = paths.get(path, 0) + 1
            if impl != want:
                ndev_model += 1
            if got != want:
                if got == impl and path in CACHED:
                    key = CACHED[path]
                else:
                    key = "choice(path=%s;got=%s;want=%s)" % (path, got[0], want[0])
                ctx.violation(key, "request %d (addr %s, handler %s, client id %r, node %r) was limited by the %s rule %s%s, "
                              "the precedence of the statement gives the %s rule %s%s; history: %s" % (
                                  i, a["addr"], a["h"], a["c"], a["node"], got[0], o["limiter"], " (%s)" % got[2] if got[2] else "",
                                  want[0], want[1], " (%s)" % want[2] if want[2] else "",
                                  [(x["a"], x.get("addr"), x.get("h"), x.get("c")) for x in hist[:i + 1]]),
                              {"history": hist[:i + 1], "observed": row["obs"], "request": i})
                break      # the rest of this history runs on a limiter the statement would not have
            elif got != impl:
                model_only.append({"history": [x["a"] for x in hist[:i + 1]], "impl": impl, "got": got})
    ctx.extra["requests"] = nreq
    ctx.extra["requests_by_code_path(model)"] = paths
    ctx.extra["model_deviations_from_statement"] = ndev_model
    ctx.extra["model_only_counterexamples"] = model_only[:20]
    # ---------------------------------------------------------------- enforcement
    bursts = os.path.join(ctx.work, "bursts.ndjson")
    nb = 12 if quick else 60
    ctx.vh(["C36", "bursts", "--n", nb, "--out", bursts], timeout=1200)
    lines = core.read_ndjson(bursts)
    accepted, rr, hw = ctx.tlc_validate_trace("RateLimitTrace", "RateLimitTrace.cfg", bursts, timeout=1800)
    if hw is not None or (not accepted and not rr.mismatches()):
        raise core.MachineryError("burst validation did not consume the trace (hw=%s):\n%s" % (hw, rr.out[-3000:]))
    ctx.traces += len(lines)
    ncalls = nallowed = 0
    for ln in lines:
        ncalls += len(ln["obs"])
        nallowed += sum(o["ok"] for o in ln["obs"])
        ctx.case(["burst", ln["rule"], ln["src"], len(ln["obs"])], nontrivial=True)
    for (cls, line, rest) in rr.mismatches():
        ln = lines[line - 1]
        ctx.violation("enforcement(%s)" % cls, "rule %s (%s rule set): %d of %d calls allowed within %.1f ms, more than burst + rate x "
                      "window for some window" % (ln["rule"], ln["src"], sum(o["ok"] for o in ln["obs"]), len(ln["obs"]),
                                                  ln["obs"][-1]["ta"] / 1e3), {"burst": ln})
    ctx.extra["bursts"] = {"n": len(lines), "calls": ncalls, "allowed": nallowed}
    ctx.extra["real_calls"] = calls + ncalls
    ctx.assumptions = [
        "every rule has its own burst (x / 3s), so the burst printed in RateLimiterResult.Limiter names the rule",
        "network rule maps have a rule for every handler: the two readings of 'first matching network rule' (first network "
        "containing the address vs first network containing it that has a rule for the handler) coincide",
        "the node of an address is the one given to AddNode; 30 microseconds pass between two actions so that "
        "time.Now().UnixNano() differs (the code compares UpdatedAt with >=)",
        "enforcement: the harness clock is read before and after each call; the limiter reads its clock in between, so "
        "allowed(i..j) <= burst + rate x (after_j - before_i) is implied by the statement for every window; no statement is "
        "made about a minimum of allowed requests",
        "the daemon (shrink of idle addresses) is not started",
    ]


def replay(ctx, path):
    """re-run the history of a replay file on a fresh RateLimitHandler and judge its last request"""
    import json
    case = json.load(open(path))["case"]
    if "history" not in case:
        raise core.MachineryError("replay of enforcement bursts: re-run the tier (bursts are timing dependent)")
    hist = case["history"]
    cases, res = os.path.join(ctx.work, "cases.ndjson"), os.path.join(ctx.work, "res.ndjson")
    core.write_ndjson(cases, [hist])
    ctx.vh(["C36", "replay", "--in", cases, "--out", res])
    row = core.read_ndjson(res)[0]
    ctx.traces += 1
    ctx.case(["replay", [x["a"] for x in hist]], nontrivial=True, sample={"history": hist[-3:], "observed": row["obs"][-3:]})
    i = len(hist) - 1
    a = hist[i]
    o = {x["step"]: x for x in row["obs"]}.get(i)
    if a["a"] != "Request" or o is None or o.get("err"):
        raise core.MachineryError("nothing to judge in %s" % path)
    got = [o["type"], o["burst"], o["desc"]]
    if got != a["want"]:
        key = CACHED[a["path"]] if (got == a["impl"] and a["path"] in CACHED) else "choice(path=%s;got=%s;want=%s)" % (a["path"], got[0], a["want"][0])
        ctx.violation(key, "request %d (addr %s, handler %s, client id %r) was limited by the %s rule %s, the statement gives the %s rule %s" % (
            i, a["addr"], a["h"], a["c"], got[0], o["limiter"], a["want"][0], a["want"][1]), {"history": hist, "observed": row["obs"], "request": i})
