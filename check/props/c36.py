"""C36 - rate limiting (launch/ratelimit.go). Specs: RateLimit.tla, RateLimitTrace.tla.

Choice (binding A): every history of the exhaustive configs (all sequences of MaxSteps actions from
every initial rule-set configuration; wide catalogues = every rule has its own burst, tight
catalogues = rules of burst 1 and 2, the same rule in several rule sets, zero and no-limit rules)
and seeded -simulate walks are replayed on a real RateLimitHandler with real rule sets; after every
request the RateLimiterResult in the context (ruleset type, description, burst and period of the
limiter) must be the rule Choose picks from the statement's precedence, evaluated for that request
on the current rule sets. What the consensus-nodes function answers is two independent values:
exists(node) and the suffrage state hash (SetMembers changes both, SetStateHash the hash only,
SetCandidates exists only); a request judged by the suffrage rule while the node of its address is
NOT a consensus node gets its own class of key whatever the cache did.
Enforcement (binding B): the same replays are recorded with the harness clock read around every
request, together with bursts under one rule during which the harness changes everything but the
rule; RateLimitTrace.tla judges every limiter instance of every recorded execution by
RateLimit!WindowOK: in every window of its requests during which the rule in force keeps its limit
and burst, allowed <= burst + rate x window (the window measured from before its first call to
after its last one)."""
import concurrent.futures
import copy
import os
import time
from vlib import core

CACHED = {"cached-clientid": "cached-clientid-limiter", "cached-net": "cached-net-limiter",
          "cached-node": "cached-node-limiter", "cached-suffrage": "cached-suffrage-limiter",
          "suffrage-rehash": "cached-suffrage-limiter"}
PER_NS = 3_000_000_000      # every rule of the catalogues is "<burst> / 3s"
UNIT = 10_000               # replays: clock and period in units of 10 microseconds (TLC integers are 32 bit)
CONSENSUS = ("SetMembers", "SetStateHash", "SetCandidates")      # actions that change what IsInConsensusNodesFunc answers
SETS = {"SetClientID": "cid", "SetNet": "nets", "SetNode": "nodes", "SetSuffrage": "suf", "SetDefault": "def"}


def trace_line(hist, row):
    """the recorded replay of one history in the format of RateLimitTrace.tla (None: no request)"""
    insts = {}
    for o in row["obs"]:
        a = hist[o["step"]]
        if a["a"] != "Request" or o.get("err"):
            continue
        insts.setdefault("%s/%s" % (a["addr"], a["h"]), []).append(
            [o["burst"], o.get("per_ns", 0) // UNIT, o["tb"] // UNIT, -(-o["ta"] // UNIT), 1 if o["allowed"] else 0, o["step"]])
    if not insts:
        return None
    names = sorted(insts)
    return {"src": "history", "names": names, "insts": [insts[k] for k in names]}


def across(hist, row, name, si, sj):
    """names the class of a bad window si..sj of the instance `name`: what happened between the two consecutive requests
    of the instance across which the bucket gained more than its rate allows (located with RateLimiterResult.Tokens; the
    whole window if no such pair is seen). Naming only: the verdict is TLC's."""
    obs = {o["step"]: o for o in row["obs"]}
    mine = [i for i in range(si, sj + 1) if hist[i]["a"] == "Request" and "%s/%s" % (hist[i]["addr"], hist[i]["h"]) == name]
    lo, hi = si, sj
    for p, q in zip(mine, mine[1:]):
        op, oq = obs[p], obs[q]
        if op["burst"] <= 0 or not op.get("per_ns"):
            continue
        gained = oq["tokens"] + (1 if oq["allowed"] else 0) - op["tokens"]
        if gained > op["burst"] * (oq["ta"] - op["tb"]) / op["per_ns"] + 0.5:
            lo, hi = p, q
            break
    cur = {k: hist[0].get(k) for k in ("cid", "nets", "nodes", "suf", "def", "members")}
    labels = set()
    for i, a in enumerate(hist[:hi]):
        inside = lo < i < hi
        if a["a"] in SETS:
            if inside:
                labels.add("equal-rule-set" if a["set"] == cur[SETS[a["a"]]] else "other-rule-set")
            cur[SETS[a["a"]]] = a["set"]
        elif a["a"] in CONSENSUS:
            if inside:
                labels.add("suffrage-state-hash" if sorted(a["members"]) == sorted(cur["members"]) else
                           "membership" if a["a"] == "SetMembers" else "membership-same-state-hash")
            cur["members"] = a["members"]
        elif a["a"] == "AddNode" and inside:
            labels.add("AddNode")
        elif a["a"] == "Request" and inside:
            labels.add("other-instance")
    if obs[lo].get("type") != obs[hi].get("type"):
        labels.add("type-flip")
    if obs[lo].get("type") != "suffrage":
        labels -= {"suffrage-state-hash", "membership", "membership-same-state-hash"}      # the consensus nodes mean nothing to other limiters
    # the key names one class: the first of these that happened (the text of the violation lists them all)
    for k in ("type-flip", "suffrage-state-hash", "membership", "membership-same-state-hash", "equal-rule-set", "other-rule-set", "AddNode", "other-instance"):
        if k in labels:
            return k, "+".join(sorted(labels))
    return "nothing", "nothing"


def stronger_reading(line):
    """the bound over all requests of an instance that were judged by one rule, whether or not another rule was in
    force in between (the stronger reading of 'the rule'): the bad windows (reported, not an alarm)"""
    bad = []
    for name, s in zip(line["names"], line["insts"]):
        for i in range(len(s)):
            b, per = s[i][0], s[i][1]
            if b <= 0:
                continue
            c = 0
            for j in range(i, len(s)):
                if s[j][0] != b or s[j][1] != per:
                    continue
                c += s[j][4]
                if (c - b) * per > b * (s[j][3] - s[i][2]):
                    bad.append([name, s[i][5], s[j][5]])
                    break
            if bad:
                break
    return bad


def validate(ctx, lines, timeout):
    """RateLimitTrace.tla on the recorded executions (by chunks side by side when there are many):
    [(class, line index, instance index, first step, last step)] of the executions that break the bound"""
    chunk = max(4000, -(-len(lines) // 4))
    chunks = [lines[i:i + chunk] for i in range(0, len(lines), chunk)]

    def one(c, k):
        path = os.path.join(c.work, "trace.ndjson")
        core.write_ndjson(path, [{"src": ln["src"], "insts": ln["insts"]} for ln in chunks[k]])
        accepted, rr, hw = c.tlc_validate_trace("RateLimitTrace", "RateLimitTrace.cfg", path, timeout=timeout)
        if hw is not None or (not accepted and not rr.mismatches()):
            raise core.MachineryError("validation of the recorded executions did not consume the trace (hw=%s):\n%s" % (hw, rr.out[-3000:]))
        out = []
        for (cls, line, rest) in rr.mismatches():
            x, si, sj = [int(v) for v in rest.split(",")]
            out.append((cls, k * chunk + line - 1, x - 1, si, sj))
        return out

    ctx._nval = getattr(ctx, "_nval", 0) + 1
    subs = [subctx(ctx, "v%d_%d" % (ctx._nval, k)) for k in range(len(chunks))]
    with concurrent.futures.ThreadPoolExecutor(max_workers=4) as ex:
        outs = list(ex.map(one, subs, range(len(chunks))))
    for c in subs:
        ctx.states += c.states
        ctx.transitions += c.transitions
        ctx.tlc_cmds += c.tlc_cmds
    return sorted(v for o in outs for v in o)


def subctx(ctx, k):
    """a view of ctx for one TLC run that goes on at the same time as others: own work directory and counters"""
    c = copy.copy(ctx)
    c.work = os.path.join(ctx.work, "p%s" % k)
    os.makedirs(c.work)
    c.states = c.transitions = 0
    c.tlc_cmds = []
    c._ntlc = 0
    return c


def outside_consensus(hist, i):
    """request i of the history comes from an address whose node is NOT a consensus node at that time (exists(node) is
    false or no node is known for the address): None, or how the suffrage state hash stands to what it was at the
    previous request of the same limiter instance ("unchanged" / "changed" / "first-request")"""
    a = hist[i]
    members, hsh, at_prev = hist[0].get("members") or [], hist[0].get("hash"), None
    for j, x in enumerate(hist[:i]):
        if x["a"] in CONSENSUS:
            members, hsh = x["members"], x["hash"]
        elif x["a"] == "Request" and x["addr"] == a["addr"] and x["h"] == a["h"]:
            at_prev = hsh
    if a["node"] and a["node"] in members:
        return None
    return "first-request" if at_prev is None else "unchanged" if at_prev == hsh else "changed"


def prev_suffrage(hist, i):
    """the previous request of the limiter instance of request i was one the statement gives to the suffrage rule"""
    a = hist[i]
    for x in reversed(hist[:i]):
        if x["a"] == "Request" and x["addr"] == a["addr"] and x["h"] == a["h"]:
            return x["want"][0] == "suffrage"
    return False


def choice_key(hist, i, got):
    a = hist[i]
    if got[0] == "suffrage" and a["want"][0] != "suffrage":
        # a class of its own, never a cached-*-limiter finding: the suffrage rule is for consensus nodes only
        out = outside_consensus(hist, i)
        if out is not None:
            return "choice(suffrage-rule-outside-consensus-nodes;state-hash=%s)" % out
    if got == a["impl"] and a["path"] in CACHED:
        return CACHED[a["path"]]
    return "choice(path=%s;got=%s;want=%s)" % (a["path"], got[0], a["want"][0])


def judge_choice(ctx, hist, row, stats):
    byi = {o["step"]: o for o in row["obs"]}
    for i, a in enumerate(hist):
        if a["a"] in CONSENSUS:
            stats["consensus"][a["a"]] = stats["consensus"].get(a["a"], 0) + 1
        if a["a"] != "Request":
            continue
        stats["requests"] += 1
        o = byi.get(i)
        if o is None or o.get("err"):
            raise core.MachineryError("no observation for request %d of %s: %s" % (i, hist, o))
        got = [o["type"], o["burst"], o["desc"]]
        want, impl, path = a["want"], a["impl"], a["path"]
        stats["paths"][path] = stats["paths"].get(path, 0) + 1
        stats["model_allowed" if a.get("ok") else "model_refused"] += 1
        if impl != want:
            stats["model_deviations"] += 1
        where = "request %d (addr %s, handler %s, client id %r, node %r)" % (i, a["addr"], a["h"], a["c"], a["node"])
        if a["node"] and outside_consensus(hist, i) == "unchanged" and prev_suffrage(hist, i):
            stats["dropped_same_hash"] += 1
        if got != want:
            key = choice_key(hist, i, got)
            ctx.violation(key, "%s was limited by the %s rule %s%s, the precedence of the statement gives the %s rule %s%s; history: %s" % (
                where, got[0], o["limiter"], " (%s)" % got[2] if got[2] else "",
                want[0], want[1], " (%s)" % want[2] if want[2] else "",
                [(x["a"], x.get("addr"), x.get("h"), x.get("c")) for x in hist[:i + 1]]),
                {"history": hist[:i + 1], "observed": row["obs"], "request": i})
            return      # the rest of this history runs on a limiter the statement would not have
        if got != impl:
            stats["model_only"].append({"history": [x["a"] for x in hist[:i + 1]], "impl": impl, "got": got})
        if got[1] > 0 and abs(o.get("per_ns", 0) - PER_NS) > 3000:
            ctx.violation("choice(rate;path=%s;type=%s)" % (path, got[0]),
                          "%s: the limiter has the burst of the %s rule %s/3s but refills it in %s ns (limiter %s); history: %s" % (
                              where, got[0], got[1], o.get("per_ns"), o["limiter"], [x["a"] for x in hist[:i + 1]]),
                          {"history": hist[:i + 1], "observed": row["obs"], "request": i})
            return


def run(ctx):
    quick = ctx.tier == "quick"
    stats = {"requests": 0, "paths": {}, "model_deviations": 0, "model_only": [], "model_allowed": 0, "model_refused": 0,
             "consensus": {}, "dropped_same_hash": 0}
    # ---------------------------------------------------------------- histories of the model
    # the TLC runs are independent: they run side by side, each in its own sub-directory of the work directory
    t0 = time.time()
    dumps = (["RateLimit_mc_quick.cfg", "RateLimit_mc_tight_quick.cfg"] if quick else
             ["RateLimit_mc_thorough.cfg", "RateLimit_mc_tight_thorough.cfg", "RateLimit_mc_tight_deep.cfg"])
    sims = (("RateLimit_sim.cfg", 31, 80 if quick else 500), ("RateLimit_sim_tight.cfg", 41, 120 if quick else 1500))

    def dump(c, cfg):
        r, steps = c.tlc_dump_steps("RateLimit", cfg, timeout=3000)
        maxlen = max(len(s) for s in steps)
        return (cfg, maxlen - 1, [s for s in steps if len(s) == maxlen])      # complete histories

    def walk(c, cfg, depth, num):
        _, behs = c.tlc_simulate("RateLimit", cfg, num=num, depth=depth, timeout=1800)
        return (cfg, depth - 1, [b[-1] for b in behs])      # step of the last state = the whole walk

    def candidate(c, cfg):
        return c.tlc("RateLimit", cfg, allow_violation=True, timeout=900, count=False)

    jobs = ([(dump, (cfg,)) for cfg in dumps] + [(walk, sm) for sm in sims] +
            [(candidate, ("RateLimit_mc_sufcheck_candidate.cfg",)),
             (candidate, ("RateLimit_mc_candidate.cfg",)), (candidate, ("RateLimit_mc_bucket_candidate.cfg",))])
    subs = [subctx(ctx, k) for k in range(len(jobs))]
    with concurrent.futures.ThreadPoolExecutor(max_workers=7 if quick else 2) as ex:
        futs = [ex.submit(f, c, *args) for (f, args), c in zip(jobs, subs)]
        done = [f.result() for f in futs]      # a MachineryError of a run is raised here
    for c in subs:
        ctx.states += c.states
        ctx.transitions += c.transitions
        ctx.tlc_cmds += c.tlc_cmds
    parts, walks, (rs, rc, rb) = done[:len(dumps)], done[len(dumps):len(dumps) + len(sims)], done[-3:]
    if rs.violated != "SuffrageOnlyInConsensus":
        raise core.MachineryError("SuffrageOnlyInConsensus is not violated when a cached suffrage limiter is returned on an unchanged "
                                  "state hash without asking exists(node) (RateLimit_mc_sufcheck_candidate.cfg): membership and state "
                                  "hash are not independent in the model any more\n" + rs.out[-2000:])
    ctx.extra["model_candidate_hash_before_exists"] = "SuffrageOnlyInConsensus violated (as it must be)"
    ctx.exhaustive = True
    ctx.extra["model_candidate_ImplMatchesChoose"] = ("violated on the transcription (see DeviationOnlyViaCache)"
                                                      if rc.safety_violation else "holds on the transcription")
    if rb.violated != "BoundOK":
        raise core.MachineryError("BoundOK is not violated when Update rebuilds the bucket on a type/checksum change "
                                  "(RateLimit_mc_bucket_candidate.cfg): the model lost its sensitivity\n" + rb.out[-2000:])
    ctx.extra["model_candidate_rebuild_on_type_or_checksum"] = "BoundOK violated (as it must be)"
    phase = {"tlc": round(time.time() - t0, 1)}
    t0 = time.time()
    hists = [h for (_, _, hs) in parts + walks for h in hs]
    ctx.rule = ("every history of " + ", ".join("%d actions of %s (%d)" % (n, c, len(hs)) for (c, n, hs) in parts) + " + " +
                ", ".join("%d -simulate walks of %s (%d actions)" % (len(hs), c, n) for (c, n, hs) in walks) +
                "; one real RateLimitHandler per history; non-trivial = the history has a request; distinct by the action sequence")
    cases = os.path.join(ctx.work, "cases.ndjson")
    core.write_ndjson(cases, hists)
    res = os.path.join(ctx.work, "res.ndjson")
    ctx.vh(["C36", "replay", "--in", cases, "--out", res], timeout=3000)
    rows = core.read_ndjson(res)
    phase["replay"] = round(time.time() - t0, 1)
    t0 = time.time()
    if len(rows) != len(hists):
        raise core.MachineryError("harness answered %d of %d histories" % (len(rows), len(hists)))
    calls = 0
    lines, origin = [], []
    for hist, row in zip(hists, rows):
        calls += row["calls"]
        ctx.traces += 1
        canon = [[a.get(k) for k in ("a", "addr", "h", "c", "set", "members", "cid", "nets", "nodes", "suf", "def")] for a in hist]
        nontriv = any(a["a"] == "Request" for a in hist)
        ctx.case(canon, nontrivial=nontriv, sample={"history": [{k: v for k, v in a.items() if k not in ("impl",)} for a in hist][:6],
                                                    "observed": row["obs"][:6]})
        if row.get("panic"):
            ctx.violation("panic", "history %s: %s" % ([a["a"] for a in hist], row["panic"][:300]), {"history": hist, "result": row})
            continue
        judge_choice(ctx, hist, row, stats)
        ln = trace_line(hist, row)
        if ln is not None:
            lines.append(ln)
            origin.append((hist, row))
    if not stats["model_refused"]:
        raise core.MachineryError("no history of the model empties a bucket: the enforcement half would be vacuous")
    ctx.extra["requests"] = stats["requests"]
    ctx.extra["requests_by_code_path(model)"] = stats["paths"]
    ctx.extra["consensus_actions_replayed"] = stats["consensus"]
    ctx.extra["requests_after_node_left_consensus_under_unchanged_state_hash"] = stats["dropped_same_hash"]
    if not stats["dropped_same_hash"]:
        raise core.MachineryError("no history has a request of a limiter instance whose node left the consensus nodes under an "
                                  "unchanged suffrage state hash after a suffrage-rule request: that dimension would be vacuous")
    ctx.extra["model_deviations_from_statement"] = stats["model_deviations"]
    ctx.extra["model_only_counterexamples"] = stats["model_only"][:20]
    ctx.extra["model_requests_allowed/refused"] = [stats["model_allowed"], stats["model_refused"]]
    # ---------------------------------------------------------------- enforcement
    bursts = os.path.join(ctx.work, "bursts.ndjson")
    nb = 16 if quick else 92
    ctx.vh(["C36", "bursts", "--n", nb, "--out", bursts], timeout=1200)
    blines = core.read_ndjson(bursts)
    nh = len(lines)
    for ln in blines:
        ctx.traces += 1
        ctx.case(["burst", ln["rule"], ln["where"], ln["perturb"], ln["calls"]], nontrivial=True)
    phase["judge+bursts"] = round(time.time() - t0, 1)
    t0 = time.time()
    real_refused = sum(1 for ln in lines for s in ln["insts"] for r in s if r[0] > 0 and not r[4])
    for (cls, li, x, si, sj) in validate(ctx, lines + blines, 3000):
        if li >= nh:
            ln = blines[li - nh]
            key = "enforcement(%s;burst;where=%s;perturb=%s)" % (cls, ln["where"], ln["perturb"])
            s = ln["insts"][x]
            ctx.violation(key, "burst under the rule %s (in the %s rule set and the default map; between the calls: %s, %d times): %d of %d calls "
                          "of %s allowed within %.1f ms, more than burst + rate x window for the window of its calls %d..%d" % (
                              ln["rule"], ln["where"], ln["perturb"], ln["perturbations"], sum(r[4] for r in s), len(s), ln["names"][x],
                              s[-1][3] / 1e3, si, sj), {"burst": ln})
            continue
        hist, row = origin[li]
        ln = lines[li]
        name, s = ln["names"][x], ln["insts"][x]
        if cls != "window-bound":
            ctx.violation("enforcement(%s)" % cls, "a request of %s was allowed by a limiter that reports the rule 0 (limit 0); history: %s" % (
                name, [a["a"] for a in hist]), {"kind": "enforcement-history", "history": hist, "observed": row["obs"]})
            continue
        win = [r for r in s if si <= r[5] <= sj]
        cls, happened = across(hist, row, name, si, sj)
        ctx.violation("enforcement(window-bound;refill-across=%s)" % cls,
                      "%s: %d requests allowed from step %d to step %d within %d us while the limiter reported the rule %d/%.6fs all "
                      "the time (burst + rate x window = %.4f); between the two requests across which the bucket was refilled: %s; history: %s" % (
                          name, sum(r[4] for r in win), si, sj, (win[-1][3] - win[0][2]) * UNIT // 1000, win[0][0], win[0][1] * UNIT / 1e9,
                          win[0][0] + win[0][0] * (win[-1][3] - win[0][2]) / win[0][1], happened,
                          [(a["a"], a.get("addr"), a.get("c"), a.get("members")) for a in hist[:sj + 1]]),
                      {"kind": "enforcement-history", "history": hist, "observed": row["obs"], "instance": name, "window": [si, sj]})
    phase["validate"] = round(time.time() - t0, 1)
    ctx.extra["phase_s"] = phase
    strong = [(ln, stronger_reading(ln)) for ln in lines]
    strong = [(ln, b) for (ln, b) in strong if b]
    ctx.extra["stronger_reading(not an alarm)"] = {
        "what": "allowed requests judged by ONE rule counted over windows in which another rule was in force in between "
                "(e.g. alternating requests with and without a client id: every change of rule gives a full bucket)",
        "histories_breaking_it": len(strong),
        "sample": [{"instance": b[0][0], "steps": b[0][1:], "insts": ln["insts"]} for (ln, b) in strong[:2]]}
    ctx.extra["recorded_executions"] = {"histories": nh, "real_requests_refused_under_a_limit": real_refused,
                                        "bursts": len(blines), "burst_calls": sum(ln["calls"] for ln in blines),
                                        "burst_allowed": sum(ln["allowed"] for ln in blines),
                                        "burst_perturbations": sum(ln["perturbations"] for ln in blines)}
    ctx.extra["real_calls"] = calls + sum(ln["calls"] for ln in blines)
    ctx.assumptions = [
        "wide catalogues: every rule has its own burst (x / 3s), so the burst printed in RateLimiterResult.Limiter names the rule; "
        "tight catalogues: the same rule (1/3s, 2/3s) stands in several rule sets, type and description name it",
        "network rule maps have a rule for every handler: the two readings of 'first matching network rule' (first network "
        "containing the address vs first network containing it that has a rule for the handler) coincide",
        "IsInConsensusNodesFunc is the harness': exists(node) and the suffrage state hash are set independently (in production "
        "the hash is the suffrage state's, exists also covers the candidates); it never returns an error",
        "the node of an address is the one given to AddNode; 30 microseconds pass between two actions so that "
        "time.Now().UnixNano() differs (the code compares UpdatedAt with >=)",
        "enforcement: 'the rule' of a window is the rule in force (limit, burst as the limiter reports them after each call); only "
        "windows of consecutive requests of one limiter instance (addr, handler) during which it does not change are bounded "
        "(weaker reading; the stronger one is counted in stronger_reading). The harness clock is read before and after each call; "
        "the limiter reads its clock in between, so allowed(i..j) <= burst + rate x (after_j - before_i) is implied by the statement "
        "for every window; no statement is made about a minimum of allowed requests",
        "the daemon (shrink of idle addresses, MaxAddrs) is not started: a limiter instance lives as long as its handler",
    ]


def replay(ctx, path):
    """re-run the history of a replay file on a fresh RateLimitHandler and judge its last request (choice) or its
    recorded clocks (enforcement)"""
    import json
    doc = json.load(open(path))
    case = doc["case"]
    if "history" not in case:
        raise core.MachineryError("replay of enforcement bursts: re-run the tier (bursts are timing dependent)")
    hist = case["history"]
    cases, res = os.path.join(ctx.work, "cases.ndjson"), os.path.join(ctx.work, "res.ndjson")
    core.write_ndjson(cases, [hist])
    ctx.vh(["C36", "replay", "--in", cases, "--out", res])
    row = core.read_ndjson(res)[0]
    ctx.traces += 1
    ctx.case(["replay", [x["a"] for x in hist]], nontrivial=True, sample={"history": hist[-3:], "observed": row["obs"][-3:]})
    if case.get("kind") == "enforcement-history":
        ln = trace_line(hist, row)
        for (cls, li, x, si, sj) in validate(ctx, [ln], 600):
            key = "enforcement(%s)" % cls if cls != "window-bound" else "enforcement(window-bound;refill-across=%s)" % across(hist, row, ln["names"][x], si, sj)[0]
            ctx.violation(key, "%s: more requests allowed from step %d to step %d than burst + rate x window of the rule in force; calls %s" % (
                ln["names"][x], si, sj, ln["insts"][x]), {"kind": "enforcement-history", "history": hist, "observed": row["obs"]})
        return
    i = len(hist) - 1
    a = hist[i]
    o = {x["step"]: x for x in row["obs"]}.get(i)
    if a["a"] != "Request" or o is None or o.get("err"):
        raise core.MachineryError("nothing to judge in %s" % path)
    got = [o["type"], o["burst"], o["desc"]]
    if got != a["want"]:
        key = choice_key(hist, i, got)
        ctx.violation(key, "request %d (addr %s, handler %s, client id %r) was limited by the %s rule %s, the statement gives the %s rule %s" % (
            i, a["addr"], a["h"], a["c"], got[0], o["limiter"], a["want"][0], a["want"][1]), {"history": hist, "observed": row["obs"], "request": i})
    elif got[1] > 0 and abs(o.get("per_ns", 0) - PER_NS) > 3000:
        ctx.violation("choice(rate;path=%s;type=%s)" % (a["path"], got[0]), "request %d: limiter %s, rule %s/3s" % (i, o["limiter"], got[1]),
                      {"history": hist, "observed": row["obs"], "request": i})
