"""C22 - operation pool hands out a valid, de-duplicated set. Spec: PoolOps.tla (statement-level
relations R0..R6 + transcription of the OperationHashes loop, compared by TLC; one caller with atomic
calls, and several callers whose calls are Begin (snapshot) / End (removal, return) steps interleaved
with each other and with SetOperation), PoolOpsTrace.tla.
Inputs from A: every input sequence of small instances (PoolOps_enum_*.cfg, PoolOps_conc_enum_*.cfg,
-dump), seeded -simulate walks of larger ones, and TLC's counterexamples on the candidate
transcriptions (pinned-tree loop; removal step that gives up on a record that is already gone).
Binding B: harness c22 runs them on a real TempPool (real signed operations, same fact re-signed
by other nodes; Begin / End forced through the filter callback, which parks the caller) and
PoolOpsTrace.tla judges every logged result against R0..R6."""
import concurrent.futures
import copy
import json
import os
import re
import time
from vlib import core

OBSERVER = {"a": "Call", "l": 100, "rej": []}   # every behaviour ends with one unfiltered call: what is left


def opid(o):
    return "%s.%s" % (o["f"], o["s"])


def inputs_of(hist):
    return [{k: v for k, v in s.items() if k in ("a", "op", "l", "rej", "c")} for s in hist]


def subctx(ctx, k):
    """a view of ctx for one TLC run that goes on at the same time as others: own work directory and counters"""
    c = copy.copy(ctx)
    c.work = os.path.join(ctx.work, "p%s" % k)
    os.makedirs(c.work)
    c.states = c.transitions = 0
    c.tlc_cmds = []
    c._ntlc = 0
    return c


def maximal(hists):
    pref = set()
    for h in hists:
        for k in range(len(h)):
            pref.add(json.dumps(h[:k], sort_keys=True))
    return [h for h in hists if json.dumps(h, sort_keys=True) not in pref]


def history_before(events, line):
    """events of the behaviour that contains 1-based trace line `line`, up to and including it"""
    j = line - 1
    while j >= 0 and events[j]["a"] != "Reset":
        j -= 1
    return events[j + 1:line]


def statement_state(hist):
    """(added order, banned) before the last event of hist"""
    added, banned = [], set()
    for e in hist[:-1]:
        if e["a"] in ("Set", "SetE"):
            i = opid(e["op"])
            if i not in added:
                added.append(i)
        elif e["a"] in ("Call", "CallE"):
            banned |= {opid(o) for o in e["rejected"]}
    return added, banned


def intervals(hist):
    """the calls of a behaviour as [first event index, last event index, caller, rejected ids]
    (a one-caller Call is an interval of one event; a call still in flight ends at len(hist))"""
    out, open_ = [], {}
    for k, e in enumerate(hist):
        if e["a"] == "Call":
            out.append([k, k, 0, {opid(o) for o in e["rejected"]}])
        elif e["a"] == "CallB":
            open_[e["c"]] = k
        elif e["a"] == "CallE":
            out.append([open_.pop(e["c"], k), k, e["c"], {opid(o) for o in e["rejected"]}])
    for c, b in open_.items():
        out.append([b, len(hist), c, set()])
    return out


def shape(hist):
    """how the judged call (last event of hist) relates to the other calls of its behaviour: the suffix of the key"""
    ev = hist[-1]
    if ev["a"] != "CallE":
        # one caller here; but earlier calls of the behaviour may have overlapped each other
        ivs = intervals(hist[:-1])
    else:
        ivs = intervals(hist)
    mine = ivs[-1] if ev["a"] == "CallE" else [len(hist) - 1, len(hist) - 1, 0, set()]
    if ev["a"] == "CallE":
        mine = [iv for iv in ivs if iv[1] == len(hist) - 1 and iv[2] == ev["c"]][0]
    others = [iv for iv in ivs if iv is not mine]

    def overlap(a, b):
        return a[0] <= b[1] and b[0] <= a[1]
    tags = []
    if any(overlap(mine, o) for o in others):
        tags.append("call-overlaps-another-call")
    if any(e["a"] in ("Set", "SetB", "SetE") for e in hist[mine[0]:mine[1]]):
        tags.append("store-during-call")
    return tags, mine, others, overlap


def classify_r6(hist):
    """an entry that the filter of a call rejected which had returned before this call started"""
    ev = hist[-1]
    tags, mine, others, overlap = shape(hist)
    ret = {opid(o) for o in ev["ret"]}
    before = [o for o in others if o[1] < mine[0]]
    culprits = [o for o in before if o[3] & ret]
    why = []
    for cu in culprits:
        ov = [o for o in others if o is not cu and overlap(cu, o)]
        if any(o[3] & cu[3] for o in ov):
            why.append("rejecting-call-overlapped-a-call-that-rejected-a-common-operation")
        elif ov:
            why.append("rejecting-call-overlapped-another-call")
        elif any(e["a"] in ("Set", "SetB", "SetE") for e in hist[cu[0]:cu[1]]):
            why.append("store-during-rejecting-call")
    for w in ("rejecting-call-overlapped-a-call-that-rejected-a-common-operation", "rejecting-call-overlapped-another-call",
              "store-during-rejecting-call"):
        if w in why:
            return "R6-filtered-out-again;" + w
    return ";".join(["R6-filtered-out-again"] + tags)


def classify(cls, hist):
    ev = hist[-1]
    if cls == "R6-filtered-out-again":
        return classify_r6(hist)
    if ev["a"] == "CallE" and cls not in ("R0-returns",):
        return ";".join([cls] + shape(hist)[0])
    if cls in ("R0-returns", "R0-set-returns"):
        msg = ev.get("msg", "")
        m = re.search(r"index out of range \[(\d+)\] with length (\d+)", msg)
        if ev.get("panic") and m and m.group(1) == m.group(2) and ev["a"] == "Call" and int(m.group(2)) == ev["l"]:
            return "reject-count>limit;panic"
        return ("panic(%s)" if ev.get("panic") else "error(%s)") % msg[:80]
    if cls == "R2-facts-distinct":
        # stale position map: fact X is returned twice and another fact Y was de-duplicated in
        # between (Y_i before X_old, Y_j between X_old and X_new in the scanned order)
        rej = {opid(o) for o in ev["rej"]}
        scan = [o for o in ev["index"] if opid(o) not in rej]
        ret = [opid(o) for o in ev["ret"]]
        pos = {opid(o): k for k, o in enumerate(scan)}
        byfact = {}
        for o in ev["ret"]:
            byfact.setdefault(o["f"], []).append(opid(o))
        for f, xs in byfact.items():
            if len(xs) < 2 or any(x not in pos for x in xs):
                continue
            lo, hi = min(pos[x] for x in xs), max(pos[x] for x in xs)
            for y in set(o["f"] for o in scan) - {f}:
                ys = [pos[opid(o)] for o in scan if o["f"] == y]
                if any(a < lo for a in ys) and any(lo < b < hi for b in ys):
                    return "stale-fact-index"
        return "duplicate-fact-returned"
    if cls == "R4-most-recent":
        added, banned = statement_state(hist)
        rej = {opid(o) for o in ev["rej"]}
        index = {opid(o) for o in ev["index"]}
        for o in ev["ret"]:
            el = [i for i in added if i.rsplit(".", 1)[0] == o["f"] and i not in banned and i not in rej]
            if el and el[-1] != opid(o):
                # the most recently added eligible operation is no longer in the pool's ordered
                # index although no filter ever rejected it: the pool dropped the newer one
                return "newer-op-banned" if el[-1] not in index else "older-op-chosen"
        return "older-op-chosen"
    return cls


def run(ctx):
    quick = ctx.tier == "quick"
    # 1. the model: transcription of the repaired loop satisfies R0..R6 (exhaustive)
    ctx.tlc("PoolOps", "PoolOps_mc_quick.cfg" if quick else "PoolOps_mc_thorough.cfg", timeout=2400)
    ctx.exhaustive = True
    # 2. candidates: counterexamples of the pinned-tree transcription
    hists = []
    tags = []
    cands = {}
    for inv in ("r0", "r2", "r4"):
        rp = ctx.tlc("PoolOps", "PoolOps_pinned_%s.cfg" % inv, allow_violation=True, count=False, timeout=900)
        if rp.safety_violation:
            p = os.path.join(ctx.work, "cex_%s.txt" % inv)
            open(p, "w").write(rp.out)
            st = list(core._parse_steps(p, "step"))
            if st:
                cands[len(hists)] = {"config": "PoolOps_pinned_%s.cfg" % inv, "invariant": rp.violated, "inputs": inputs_of(st[-1])}
                hists.append(st[-1])
                tags.append("candidate")
    # 3. every input sequence of the small instance
    _, steps = ctx.tlc_dump_steps("PoolOps", "PoolOps_enum_quick.cfg" if quick else "PoolOps_enum_thorough.cfg", timeout=2400)
    mx = maximal(steps)
    for h in mx:
        hists.append(h)
        tags.append("enum")
    # 4. seeded random walks of the larger instance
    _, behs = ctx.tlc_simulate("PoolOps", "PoolOps_sim.cfg", num=300 if quick else 3000, depth=16)
    for b in behs:
        hists.append(b[-1])
        tags.append("sim")
    ctx.rule = ("input sequences of SetOperation(fact re-signed by several signers) / OperationHashes(limit, filter): every maximal "
                "sequence of the small PoolOps instance (%d), seeded -simulate walks (%d), TLC counterexamples of the pinned "
                "transcription (%d); non-trivial = at least one call after at least one store; distinct by input sequence"
                % (len(mx), len(behs), len(cands)))
    inp = os.path.join(ctx.work, "behs.ndjson")
    core.write_ndjson(inp, [{"i": i, "steps": inputs_of(h)} for i, h in enumerate(hists)])
    trace = os.path.join(ctx.work, "trace.ndjson")
    ctx.vh(["C22", "run", "--in", inp, "--out", trace], timeout=2400)
    events = core.read_ndjson(trace)
    nreset = sum(1 for e in events if e["a"] == "Reset")
    if nreset != len(hists):
        raise core.MachineryError("harness ran %d of %d behaviours" % (nreset, len(hists)))
    for h in hists:
        ins = inputs_of(h)
        ctx.case(ins, nontrivial=any(s["a"] == "Call" for s in ins) and ins[0]["a"] == "Set" if ins else False,
                 sample=[[s["a"], s.get("op") or [s.get("l"), s.get("rej")]] for s in ins])
    ctx.traces += len(hists)
    # validate in chunks (cut at Reset events)
    chunk = 25000
    parts, cur = [], []
    for e in events:
        if e["a"] == "Reset" and len(cur) >= chunk:
            parts.append(cur)
            cur = []
        cur.append(e)
    if cur:
        parts.append(cur)
    calls = sum(1 for e in events if e["a"] == "Call")
    r7 = 0
    reproduced = set()
    for k, part in enumerate(parts):
        tp = os.path.join(ctx.work, "trace_part%d.ndjson" % k)
        # fields the trace spec does not read are dropped to keep the lines small
        core.write_ndjson(tp, [{kk: v for kk, v in e.items() if kk not in ("index", "examined", "msg", "i")} for e in part])
        ok, res, hw = ctx.tlc_validate_trace("PoolOpsTrace", "PoolOpsTrace.cfg", tp, timeout=2400)
        if not ok:
            ev = part[hw - 1] if hw and hw <= len(part) else None
            ctx.violation("trace-rejected", "event %s not explained by PoolOps.tla: %s" % (hw, ev),
                          {"line": hw, "event": ev, "tlc_tail": res.out[-1500:]})
            continue
        seen = set()
        byline = {}
        for (cls, line, rest) in res.mismatches():
            byline.setdefault(line, []).append(cls)
        for line in sorted(byline):
            classes = byline[line]
            hist = history_before(part, line)
            bi = None
            j = line - 1
            while j >= 0 and part[j]["a"] != "Reset":
                j -= 1
            if j >= 0:
                bi = part[j].get("i")
            keys = []
            for cls in classes:
                if cls == "R7-eligible-fact-missing":
                    r7 += 1
                    continue
                key = classify(cls, hist)
                if cls == "R4-most-recent" and "stale-fact-index" in keys:
                    continue   # the duplicate entry of the same call: one defect, reported once
                if key not in keys:
                    keys.append(key)
            for key in keys:
                if bi in cands:
                    reproduced.add(bi)
                if (key, line) in seen:
                    continue
                seen.add((key, line))
                ev = hist[-1]
                brief = [[e["a"], opid(e["op"]) if e["a"] == "Set" else
                          {"l": e["l"], "rej": [opid(o) for o in e["rej"]], "ret": [opid(o) for o in e["ret"]],
                           "panic": e.get("panic", False)}] for e in hist]
                what = "%s: %s" % ("/".join(c for c in classes if not c.startswith("R7")), json.dumps(brief[-7:]))
                if ev.get("msg"):
                    what += " " + ev["msg"][:120]
                ctx.violation(key, what, {"classes": classes, "history": hist, "behaviour": bi, "source": tags[bi] if bi is not None else None})
    mo = [c for i, c in cands.items() if i not in reproduced]
    if mo:
        for c in mo:
            c["note"] = "transcription of the pinned-tree loop; the real pool's answers to these inputs satisfy R0..R6"
        ctx.extra["model_only_counterexamples"] = mo
    ctx.extra["candidates_from_pinned_transcription"] = len(cands)
    ctx.extra["real_calls_OperationHashes"] = calls
    ctx.extra["events"] = len(events)
    ctx.extra["stronger_reading_R7_eligible_fact_missing"] = r7
    ctx.assumptions = ["filters are functions of the operation (sets of rejected operations); the rejections the filter really made are logged",
                       "insertion order = order of SetOperation calls (the ordered key is the insertion time in ns; the driver lets 2us pass between stores)",
                       "R7 (with room left every eligible fact is handed out) is the stronger reading: counted, never an alarm",
                       "clean-up passes and corrupt records are not explored"]
