"""C22 - operation pool hands out a valid, de-duplicated set. Spec: PoolOps.tla (statement-level
relations R0..R6 + transcription of the OperationHashes loop, compared by TLC; one caller with atomic
calls, and several callers whose calls are Begin (snapshot) / End (removal, return) steps interleaved
with each other and with SetOperation), PoolOpsTrace.tla.
Inputs from A: every input sequence of small instances (PoolOps_enum_*.cfg, PoolOps_conc_enum_*.cfg,
-dump), seeded -simulate walks of larger ones, and TLC's counterexamples on the candidate
transcriptions (pinned-tree loop; removal step that gives up on a record that is already gone).
Binding B: harness c22 runs them on a real TempPool (real signed operations, same fact re-signed
by other nodes; Begin / End forced through the filter callback, which parks the caller) and
PoolOpsTrace.tla judges every logged result against R0..R6."""
import concurrent.futures
import copy
import json
import os
import re
import time
from vlib import core

OBSERVER = {"a": "Call", "l": 100, "rej": []}   # every behaviour ends with one unfiltered call: what is left


def opid(o):
    return "%s.%s" % (o["f"], o["s"])


def inputs_of(hist):
    return [{k: v for k, v in s.items() if k in ("a", "op", "l", "rej", "c", "w")} for s in hist]


def subctx(ctx, k):
    """a view of ctx for one TLC run that goes on at the same time as others: own work directory and counters"""
    c = copy.copy(ctx)
    c.work = os.path.join(ctx.work, "p%s" % k)
    os.makedirs(c.work)
    c.states = c.transitions = 0
    c.tlc_cmds = []
    c._ntlc = 0
    return c


def maximal(hists):
    pref = set()
    for h in hists:
        for k in range(len(h)):
            pref.add(json.dumps(h[:k], sort_keys=True))
    return [h for h in hists if json.dumps(h, sort_keys=True) not in pref]


def history_before(events, line):
    """events of the behaviour that contains 1-based trace line `line`, up to and including it"""
    j = line - 1
    while j >= 0 and events[j]["a"] != "Reset":
        j -= 1
    return events[j + 1:line]


def statement_state(hist):
    """(added order, banned) before the last event of hist"""
    added, banned = [], set()
    for e in hist[:-1]:
        if e["a"] in ("Set", "SetE"):
            i = opid(e["op"])
            if i not in added:
                added.append(i)
        elif e["a"] in ("Call", "CallE"):
            banned |= {opid(o) for o in e["rejected"]}
    return added, banned


def intervals(hist):
    """the calls of a behaviour as [first event index, last event index, caller, rejected ids]
    (a one-caller Call is an interval of one event; a call still in flight ends at len(hist))"""
    out, open_ = [], {}
    for k, e in enumerate(hist):
        if e["a"] == "Call":
            out.append([k, k, 0, {opid(o) for o in e["rejected"]}])
        elif e["a"] == "CallB":
            open_[e["c"]] = k
        elif e["a"] == "CallE":
            out.append([open_.pop(e["c"], k), k, e["c"], {opid(o) for o in e["rejected"]}])
    for c, b in open_.items():
        out.append([b, len(hist), c, set()])
    return out


def overlap(a, b):
    return a[0] <= b[1] and b[0] <= a[1]


def stores_in(hist, iv):
    return any(e["a"] in ("Set", "SetB", "SetE") for e in hist[iv[0]:iv[1]])


def shape(hist):
    """how the judged call (last event of hist) lies among the other calls of its behaviour:
    (tags for the key, its interval, the other calls' intervals)"""
    ivs = intervals(hist)
    mine = [iv for iv in ivs if iv[1] == len(hist) - 1][0]
    others = [iv for iv in ivs if iv is not mine]
    tags = []
    if any(overlap(mine, o) for o in others):
        tags.append("call-overlaps-another-call")
    if stores_in(hist, mine):
        tags.append("store-during-call")
    return tags, mine, others


TWICE = "operation-stored-by-two-overlapping-stores"


def stored_twice(hist):
    """operations that two overlapping SetOperation calls both stored (both returned true)"""
    n = {}
    for e in hist:
        if e["a"] == "SetE" and e.get("ret"):
            n[opid(e["op"])] = n.get(opid(e["op"]), 0) + 1
    return {x for x, k in n.items() if k > 1}


def classify_r6(hist):
    """an entry that the filter of a call rejected which had returned before this call started"""
    ev = hist[-1]
    tags, mine, others = shape(hist)
    ret = {opid(o) for o in ev["ret"]}
    _, banned = statement_state(hist)
    if ret & banned & stored_twice(hist):
        return "R6-filtered-out-again;" + TWICE
    before = [o for o in others if o[1] < mine[0]]
    culprits = [o for o in before if o[3] & ret]
    why = []
    for cu in culprits:
        ov = [o for o in others if o is not cu and overlap(cu, o)]
        if any(o[3] & cu[3] for o in ov):
            why.append("rejecting-call-overlapped-a-call-that-rejected-a-common-operation")
        elif ov:
            why.append("rejecting-call-overlapped-another-call")
        elif stores_in(hist, cu):
            why.append("store-during-rejecting-call")
    for w in ("rejecting-call-overlapped-a-call-that-rejected-a-common-operation", "rejecting-call-overlapped-another-call",
              "store-during-rejecting-call"):
        if w in why:
            return "R6-filtered-out-again;" + w
    return ";".join(["R6-filtered-out-again"] + tags)


def classify(cls, hist):
    ev = hist[-1]
    if cls == "R6-filtered-out-again":
        return classify_r6(hist)
    if cls == "R4-most-recent" and {opid(o) for o in ev["ret"]} & stored_twice(hist):
        # an older operation is handed out from the record the pool can no longer take out
        return "R4-most-recent;" + TWICE
    if ev["a"] == "CallE":
        # the call's CallB event holds the index the pool showed when the call started
        mine = shape(hist)[1]
        ev = dict(ev, index=hist[mine[0]].get("index", []))
        return ";".join([classify1(cls, hist, ev)] + shape(hist)[0])
    return classify1(cls, hist, ev)


def classify1(cls, hist, ev):
    if cls in ("R0-returns", "R0-set-returns"):
        msg = ev.get("msg", "")
        m = re.search(r"index out of range \[(\d+)\] with length (\d+)", msg)
        if ev.get("panic") and m and m.group(1) == m.group(2) and ev["a"] in ("Call", "CallE") and int(m.group(2)) == ev["l"]:
            return "reject-count>limit;panic"
        return ("panic(%s)" if ev.get("panic") else "error(%s)") % msg[:80]
    if cls == "R2-facts-distinct":
        # stale position map: fact X is returned twice and another fact Y was de-duplicated in
        # between (Y_i before X_old, Y_j between X_old and X_new in the scanned order)
        rej = {opid(o) for o in ev["rej"]}
        scan = [o for o in ev["index"] if opid(o) not in rej]
        ret = [opid(o) for o in ev["ret"]]
        pos = {opid(o): k for k, o in enumerate(scan)}
        byfact = {}
        for o in ev["ret"]:
            byfact.setdefault(o["f"], []).append(opid(o))
        for f, xs in byfact.items():
            if len(xs) < 2 or any(x not in pos for x in xs):
                continue
            lo, hi = min(pos[x] for x in xs), max(pos[x] for x in xs)
            for y in set(o["f"] for o in scan) - {f}:
                ys = [pos[opid(o)] for o in scan if o["f"] == y]
                if any(a < lo for a in ys) and any(lo < b < hi for b in ys):
                    return "stale-fact-index"
        return "duplicate-fact-returned"
    if cls == "R4-most-recent":
        added, banned = statement_state(hist)
        rej = {opid(o) for o in ev["rej"]}
        index = {opid(o) for o in ev["index"]}
        for o in ev["ret"]:
            el = [i for i in added if i.rsplit(".", 1)[0] == o["f"] and i not in banned and i not in rej]
            if el and el[-1] != opid(o):
                # the most recently added eligible operation is no longer in the pool's ordered
                # index although no filter ever rejected it: the pool dropped the newer one
                return "newer-op-banned" if el[-1] not in index else "older-op-chosen"
        return "older-op-chosen"
    return cls


def brief_of(hist):
    out = []
    for e in hist:
        if e["a"] in ("Set", "SetB", "SetE"):
            out.append([e["a"], opid(e["op"])] + ([e["ret"]] if "ret" in e and e["a"] == "SetE" else []))
        elif e["a"] == "CallB":
            out.append(["CallB", e["c"], {"l": e["l"], "rej": [opid(o) for o in e["rej"]]}])
        elif e["a"] in ("Call", "CallE"):
            d = {"ret": [opid(o) for o in e["ret"]], "rejected": [opid(o) for o in e["rejected"]]}
            if e["a"] == "Call":
                d.update({"l": e["l"], "rej": [opid(o) for o in e["rej"]]})
            if e.get("panic"):
                d["panic"] = True
            out.append([e["a"], d] if e["a"] == "Call" else [e["a"], e["c"], d])
        else:
            out.append([e["a"]])
    return out


def run(ctx):
    quick = ctx.tier == "quick"
    t0 = time.time()

    # ---------------------------------------------------------------- TLC: model runs and inputs, side by side
    # the quick instances are small: two workers finish sooner (and with a third of the CPU) than eight
    wk = 2 if quick else None

    def mc(c, cfg):
        return c.tlc("PoolOps", cfg, timeout=3000, workers=wk)

    def cand(c, cfg):
        rp = c.tlc("PoolOps", cfg, allow_violation=True, count=False, timeout=900, workers=2)
        hist = None
        if rp.safety_violation:
            p = os.path.join(c.work, "cex.txt")
            open(p, "w").write(rp.out)
            st = list(core._parse_steps(p, "step"))
            if st:
                hist = st[-1]
        return (cfg, rp.violated, hist)

    def dump(c, cfg):
        _, steps = c.tlc_dump_steps("PoolOps", cfg, timeout=3000, workers=wk)
        return sorted(maximal(steps), key=lambda h: json.dumps(h, sort_keys=True))   # the order of a dump is not stable

    def walk(c, cfg, num, depth):
        _, behs = c.tlc_simulate("PoolOps", cfg, num=num, depth=depth, timeout=1800)
        return [b[-1] for b in behs]

    t = "quick" if quick else "thorough"
    jobs = [
        # 1. the model: the transcription of the repaired loop satisfies R0..R6 (exhaustive), one caller and
        #    overlapping calls (Begin / End steps of several callers, stores in between)
        (mc, ("PoolOps_mc_%s.cfg" % t,)),
        (mc, ("PoolOps_conc_mc_%s.cfg" % t,)),
        # 2. candidates: counterexamples of the pinned-tree transcription and of a removal step that gives up
        #    when a record of its list is already gone
        (cand, ("PoolOps_pinned_r0.cfg",)), (cand, ("PoolOps_pinned_r2.cfg",)), (cand, ("PoolOps_pinned_r4.cfg",)),
        (cand, ("PoolOps_conc_abort.cfg",)), (cand, ("PoolOps_conc_set2.cfg",)),
        # 3. every input sequence of the small instances
        (dump, ("PoolOps_enum_%s.cfg" % t,)),
        (dump, ("PoolOps_conc_enum_%s.cfg" % t,)),
        (dump, ("PoolOps_set2_enum_%s.cfg" % t,)),
        # 4. seeded random walks of the larger instances (complete walks: only the last state carries its input
        #    sequence, the depth bound is beyond the longest walk)
        (walk, ("PoolOps_sim.cfg", 300 if quick else 3000, 40)),
        (walk, ("PoolOps_conc_sim.cfg", 300 if quick else 3000, 40)),
    ]
    subs = [subctx(ctx, k) for k in range(len(jobs))]
    with concurrent.futures.ThreadPoolExecutor(max_workers=5 if quick else 3) as ex:
        def timed(f, c, *args):
            t1 = time.time()
            r = f(c, *args)
            return r, round(time.time() - t1, 1)
        futs = [ex.submit(timed, f, c, *args) for (f, args), c in zip(jobs, subs)]
        done = [f.result() for f in futs]      # a MachineryError of a run is raised here
    ctx.extra["tlc_job_s"] = {"%s:%s" % (f.__name__, args[0]): w for (f, args), (_, w) in zip(jobs, done)}
    done = [r for (r, _) in done]
    for c in subs:
        ctx.states += c.states
        ctx.transitions += c.transitions
        ctx.tlc_cmds += c.tlc_cmds
    ctx.exhaustive = True
    cres, (mx, cmx, smx, sim, csim) = done[2:7], done[7:12]
    smx = [h for h in smx if any(s_["a"] == "Set2" for s_ in h)]
    abort, set2 = cres[3], cres[4]
    if set2[1] != "R6ok" or set2[2] is None:
        raise core.MachineryError("R6ok is not violated when two overlapping stores of one operation both write "
                                  "(PoolOps_conc_set2.cfg): the model lost its sensitivity")
    ctx.extra["model_candidate_two_overlapping_stores_both_write"] = "R6ok violated (as it must be)"
    if abort[1] != "R6ok" or abort[2] is None:
        raise core.MachineryError("R6ok is not violated when the removal step gives up on a record that is already gone "
                                  "(PoolOps_conc_abort.cfg): the model lost its sensitivity")
    ctx.extra["model_candidate_removal_gives_up"] = "R6ok violated (as it must be)"
    phase = {"tlc": round(time.time() - t0, 1)}
    t0 = time.time()

    behs, tags, cands = [], [], {}

    def add(hist, tag, **kw):
        b = {"i": len(behs), "steps": inputs_of(hist) + [OBSERVER]}
        for s_ in b["steps"]:
            if s_["a"] == "Set2":       # which of the two stores writes first
                s_["w"] = (len(behs) + ctx.seed) % 2
        b.update(kw)
        behs.append(b)
        tags.append(tag)
        return b["i"]

    for (cfg, violated, hist) in cres:
        if hist is not None:
            cands[add(hist, "candidate")] = {"config": cfg, "invariant": violated, "inputs": inputs_of(hist)}
    for h in mx:
        add(h, "enum")
    for k, h in enumerate(cmx):
        add(h, "forced-enum") if quick or (k + ctx.seed) % 2 == 0 else add(h, "forced-enum", park="last")
    for h in smx:
        add(h, "set2-enum")
    for h in sim:
        add(h, "sim")
    for k, h in enumerate(csim):
        add(h, "forced-sim") if (k + ctx.seed) % 2 == 0 else add(h, "forced-sim", park="last")
    nfree = 0
    for k, h in enumerate(csim + (cmx[::7] if quick else cmx[::3])):
        add(h, "free", mode="free")
        nfree += 1
    ctx.rule = ("input sequences of SetOperation(fact re-signed by several signers) / OperationHashes(limit, filter), each followed by one "
                "unfiltered call: one caller - every maximal sequence of the small PoolOps instance (%d), seeded -simulate walks (%d); "
                "overlapping calls of 2-3 callers as forced Begin/End schedules - every maximal sequence of the small concurrent instance (%d), "
                "seeded complete walks of the larger one (%d); the same walks unforced (%d); two overlapping stores of one operation (both parked "
                "between check and write) among stores and calls - every maximal sequence of a small instance (%d) and in the walks; TLC "
                "counterexamples of the candidate transcriptions (%d); non-trivial = at least one call after at least one store; distinct by "
                "input sequence, park position and mode"
                % (len(mx), len(sim), len(cmx), len(csim), nfree, len(smx), len(cands)))
    inp = os.path.join(ctx.work, "behs.ndjson")
    core.write_ndjson(inp, behs)
    trace = os.path.join(ctx.work, "trace.ndjson")
    ctx.vh(["C22", "run", "--in", inp, "--out", trace], timeout=3000)
    events = core.read_ndjson(trace)
    phase["harness"] = round(time.time() - t0, 1)
    t0 = time.time()
    nreset = sum(1 for e in events if e["a"] == "Reset")
    if nreset != len(behs):
        raise core.MachineryError("harness ran %d of %d behaviours" % (nreset, len(behs)))
    hangs = [e for e in events if e["a"] == "Hang"]
    if hangs:
        raise core.MachineryError("%d forced calls neither parked nor returned (first: %s)" % (len(hangs), hangs[0]))
    for b in behs:
        ins = b["steps"][:-1]
        ctx.case([ins, b.get("park"), b.get("mode")],
                 nontrivial=any(s["a"] in ("Call", "Begin") for s in ins) and ins[0]["a"] in ("Set", "Set2") if ins else False,
                 sample=[[s["a"], s.get("op") or ([s.get("c")] if s.get("c") else []) + ([s["l"], s.get("rej")] if "l" in s else [])]
                         for s in ins])
    ctx.traces += len(behs)
    # validate in chunks (cut at Reset events), side by side
    chunk = 20000
    parts, cur = [], []
    for e in events:
        if e["a"] == "Reset" and len(cur) >= chunk:
            parts.append(cur)
            cur = []
        cur.append(e)
    if cur:
        parts.append(cur)

    def validate(c, k):
        tp = os.path.join(c.work, "trace_part%d.ndjson" % k)
        # fields the trace spec does not read are dropped to keep the lines small
        drop = ("index", "examined", "msg", "i", "park", "unparked")
        core.write_ndjson(tp, [{kk: v for kk, v in e.items() if kk not in drop} for e in parts[k]])
        return c.tlc_validate_trace("PoolOpsTrace", "PoolOpsTrace.cfg", tp, timeout=3000)

    vsubs = [subctx(ctx, "v%d" % k) for k in range(len(parts))]
    with concurrent.futures.ThreadPoolExecutor(max_workers=4) as ex:
        vres = list(ex.map(validate, vsubs, range(len(parts))))
    for c in vsubs:
        ctx.states += c.states
        ctx.transitions += c.transitions
        ctx.tlc_cmds += c.tlc_cmds
    calls = sum(1 for e in events if e["a"] in ("Call", "CallE"))
    overlapped = 0
    r7 = r5x = 0
    reproduced = set()
    for k, part in enumerate(parts):
        ok, res, hw = vres[k]
        if not ok:
            ev = part[hw - 1] if hw and hw <= len(part) else None
            ctx.violation("trace-rejected", "event %s not explained by PoolOps.tla: %s" % (hw, ev),
                          {"line": hw, "event": ev, "tlc_tail": res.out[-1500:]})
            continue
        seen = set()
        byline = {}
        for (cls, line, rest) in res.mismatches():
            byline.setdefault(line, []).append(cls)
        for line in sorted(byline):
            classes = byline[line]
            hist = history_before(part, line)
            bi = None
            j = line - 1
            while j >= 0 and part[j]["a"] != "Reset":
                j -= 1
            if j >= 0:
                bi = part[j].get("i")
            keys = []
            for cls in classes:
                if cls == "R7-eligible-fact-missing":
                    r7 += 1
                    continue
                key = classify(cls, hist)
                if cls == "R4-most-recent" and (any(kk.startswith("stale-fact-index") for kk in keys)
                                                or "R6-filtered-out-again" in classes):
                    continue   # the duplicate entry / the filtered-out entry of the same call: one defect, reported once
                if key not in keys:
                    keys.append(key)
            for key in keys:
                if bi in cands:
                    reproduced.add(bi)
                if (key, line) in seen:
                    continue
                seen.add((key, line))
                ev = hist[-1]
                what = "%s: %s" % ("/".join(c for c in classes if not c.startswith("R7")), json.dumps(brief_of(hist)[-9:]))
                if ev.get("msg"):
                    what += " " + ev["msg"][:120]
                ctx.violation(key, what, {"classes": classes, "history": hist, "behaviour": bi,
                                          "source": tags[bi] if bi is not None else None,
                                          "input": behs[bi] if bi is not None else None})
    # how much the recorded calls really overlapped; stores of one operation that both returned true
    j = 0
    while j < len(events):
        k = j + 1
        while k < len(events) and events[k]["a"] != "Reset":
            k += 1
        r5x += len(stored_twice(events[j + 1:k]))
        ivs = intervals(events[j + 1:k])
        overlapped += sum(1 for a in ivs if any(a is not b and overlap(a, b) for b in ivs))
        j = k
    mo = [c for i, c in cands.items() if i not in reproduced]
    if mo:
        for c in mo:
            c["note"] = ("candidate transcription (pinned-tree loop / removal step that gives up on a gone record); "
                         "the real pool's answers to these inputs satisfy R0..R6")
        ctx.extra["model_only_counterexamples"] = mo
    phase["validate"] = round(time.time() - t0, 1)
    ctx.extra["phase_s"] = phase
    ctx.extra["candidates_from_candidate_transcriptions"] = len(cands)
    ctx.extra["real_calls_OperationHashes"] = calls
    ctx.extra["real_calls_that_overlapped_another_call"] = overlapped
    ctx.extra["forced_schedules"] = sum(1 for t_ in tags if t_.startswith("forced"))
    ctx.extra["unforced_races"] = nfree
    ctx.extra["events"] = len(events)
    ctx.extra["stronger_reading_R7_eligible_fact_missing"] = r7
    ctx.extra["stronger_reading_R5x_two_overlapping_stores_of_one_operation_both_returned_true"] = r5x
    ctx.assumptions = ["filters are functions of the operation (sets of rejected operations); the rejections the filter really made are logged",
                       "insertion order = order of SetOperation calls (the ordered key is the insertion time in ns; the driver lets 2us pass between stores; "
                       "stores are made by one goroutine at a time)",
                       "overlapping calls are judged by facts that need no linearization order: R1, R2, R3 per call; R6 against the calls that had returned "
                       "when the call started; R4 against the operations stored before the call started that neither a call that returned before nor an "
                       "overlapping call's filter may have rejected",
                       "a forced call is parked in ONE filter callback (first or last record of its snapshot): the scan reads a leveldb snapshot, so the "
                       "position of the park inside the scan changes nothing; the removal step (reads + one batch) is not split",
                       "R7 (with room left every eligible fact is handed out) is the stronger reading: counted, never an alarm",
                       "overlapping SetOperation calls: only two calls of the SAME new operation (Set2: both parked between the pool's check and its "
                       "write, inside the encoder handed to the pool); stores of different operations never overlap",
                       "clean-up passes and corrupt records are not explored"]
