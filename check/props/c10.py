"""C10 - block production is deterministic. Spec: BlockProcess.tla.

TLC enumerates proposals over a catalogue of valid and defective suffrage / policy
operations on top of a world (a chain of four real blocks), explores every interleaving of
the Process jobs the bounded worker admits and checks Confluent (every terminal state equals
the sequential reference run). Binding A: every terminal state - proposal, the order in which
the jobs first merged, expected per-operation outcome, expected states - is replayed on the
real DefaultProposalProcessor + launch-wired processors + isaacblock.Writer + LocalFSWriter
over a real database: once per distinct model order with that order forced, unforced with
worker sizes 1, 2, 7, 64 under scheduling noise, and once more with Save; all runs must give
the same manifest hash / operations-tree root / states-tree root / suffrage hash, and the
database after Save must hold the states the specification computes.

The helpers (TLA+ value parser, case generation, comparison) are shared with C17."""
import json
import os
import re
import time

from vlib import core

JAVA_OPTS = ["-Xmx6g"]
TLC_ARGS = ["-fpmem", "0.1"]
# world B in the quick tier: two joins at once, the member registered with its other key
QUICK_B = '{"j12", "jx2", "j1", "j13", "cx1", "cc2", "d4", "d4a", "d2", "e1", "e2", "p2", "pkey", "w2a"}'


# ---------------------------------------------------------------- TLA+ values -> python
class _P:
    def __init__(self, s):
        self.s = s
        self.i = 0

    def ws(self):
        while self.i < len(self.s) and self.s[self.i] in " \t\r\n":
            self.i += 1

    def eat(self, tok):
        self.ws()
        if not self.s.startswith(tok, self.i):
            raise ValueError("expected %r at %d: %r" % (tok, self.i, self.s[self.i:self.i + 40]))
        self.i += len(tok)

    def peek(self, tok):
        self.ws()
        return self.s.startswith(tok, self.i)

    def value(self):
        self.ws()
        s = self.s
        if self.peek("<<"):
            self.eat("<<")
            out = []
            if self.peek(">>"):
                self.eat(">>")
                return out
            while True:
                out.append(self.value())
                if self.peek(","):
                    self.eat(",")
                    continue
                self.eat(">>")
                return out
        if self.peek("["):
            self.eat("[")
            out = {}
            while True:
                self.ws()
                m = re.compile(r"[A-Za-z_][A-Za-z0-9_]*").match(s, self.i)
                if not m:
                    raise ValueError("field name expected at %d" % self.i)
                self.i = m.end()
                self.eat("|->")
                out[m.group(0)] = self.value()
                if self.peek(","):
                    self.eat(",")
                    continue
                self.eat("]")
                return out
        if self.peek("{"):
            self.eat("{")
            out = []
            if self.peek("}"):
                self.eat("}")
                return out
            while True:
                out.append(self.value())
                if self.peek(","):
                    self.eat(",")
                    continue
                self.eat("}")
                return out
        if self.peek('"'):
            j = self.i + 1
            buf = []
            while s[j] != '"':
                if s[j] == "\\":
                    j += 1
                buf.append(s[j])
                j += 1
            self.i = j + 1
            return "".join(buf)
        m = re.compile(r"-?\d+").match(s, self.i)
        if m:
            self.i = m.end()
            return int(m.group(0))
        m = re.compile(r"[A-Za-z_][A-Za-z0-9_]*").match(s, self.i)
        if m:
            self.i = m.end()
            w = m.group(0)
            return True if w == "TRUE" else False if w == "FALSE" else w
        raise ValueError("cannot parse TLA+ value at %d: %r" % (self.i, s[self.i:self.i + 40]))


def parse_tla(s):
    p = _P(s)
    v = p.value()
    p.ws()
    if p.i != len(s):
        raise ValueError("trailing text after TLA+ value: %r" % s[p.i:p.i + 40])
    return v


def printed(out, tag):
    """values printed by PrintT("<tag> " \\o ToString(v)) in TLC's output"""
    vals = []
    pre = '"%s ' % tag
    for line in out.splitlines():
        if line.startswith(pre) and line.endswith('"'):
            body = line[len(pre):-1].replace('\\"', '"').replace("\\\\", "\\")
            try:
                vals.append(parse_tla(body))
            except ValueError as e:
                raise core.MachineryError("cannot parse %s line: %s" % (tag, e))
    return vals


# ---------------------------------------------------------------- running the model
def stage_cfg(ctx, base, name, subst):
    """derive a cfg from spec/<base> in the run's staged spec dir (constants replaced)"""
    d = ctx._stage_spec()
    s = open(os.path.join(d, base)).read()
    for k, v in subst.items():
        s, n = re.subn(r"(?m)^(\s*%s\s*=\s*).*$" % re.escape(k), lambda m: m.group(1) + v, s)
        if n != 1:
            raise core.MachineryError("constant %s not found in %s" % (k, base))
    open(os.path.join(d, name), "w").write(s)
    return name


def run_model(ctx, module, cfg, simulate=None, timeout=900, workers=None):
    """-> (world, cases): the WORLD record and the CASE records TLC printed. A violated
    invariant of the model is a candidate only: it is noted and the cases printed so far are
    still replayed."""
    args = list(TLC_ARGS)
    kw = {}
    if simulate:
        num, depth = simulate
        args += ["-simulate", "num=%d" % num, "-depth", depth, "-seed", ctx.seed]
        kw["workers"] = 1
    elif workers:
        kw["workers"] = workers
    r = ctx.tlc(module, cfg, args=args, timeout=timeout, allow_violation=True, java_opts=JAVA_OPTS,
                count=not simulate, **kw)
    if r.violated:
        ctx.extra.setdefault("model_only_counterexamples", []).append(
            {"cfg": cfg, "violated": r.violated, "tail": core._tlc_tail(r.out)[-1500:]})
    ctx.extra.setdefault("tlc_s", {})[cfg] = round(r.wall, 1)
    worlds = printed(r.out, "WORLD")
    cases = printed(r.out, "CASE")
    if not worlds:
        raise core.MachineryError("TLC %s/%s printed no WORLD record:\n%s" % (module, cfg, core._tlc_tail(r.out)))
    if simulate:
        n = sum(len(c["ops"]) * 4 + 3 for c in cases)
        ctx.states += n
        ctx.transitions += n
    return worlds[0], cases, r


def group_cases(world, cases):
    """terminal states -> replay cases: one per (proposal), with every distinct model order.
    Returns list of dicts {ops, scheds, res, want, ws}. If the model itself is not confluent
    the variants are kept (wants)."""
    g = {}
    for c in cases:
        k = tuple(c["ops"])
        e = g.setdefault(k, {"ops": list(k), "scheds": [], "wants": [], "ws": set()})
        if c["sched"] not in e["scheds"]:
            e["scheds"].append(c["sched"])
        w = {"res": c["res"], "want": c["want"]}
        if w not in e["wants"]:
            e["wants"].append(w)
        e["ws"].add(c["w"])
    return list(g.values())


def case_input(world, ops_ids, scheds, free, reps, catalogue=None):
    cat = catalogue if catalogue is not None else {o["id"]: o for o in world["catalogue"]}
    blocks = [{"ops": b["ops"]} for b in world["script"]] + [{"ops": [cat[i] for i in ops_ids]}]
    return {"chain": {"genesis": world["genesis"], "t10": world["t10"], "blocks": blocks},
            "scheds": scheds, "free": free, "reps": reps}


# ---------------------------------------------------------------- comparison
PROJ_FIELDS = ["members", "sufh", "suf_at", "suf_ops", "cands", "cand_at", "cand_ops", "policy", "pol_at", "pol_ops"]


def proj_diff(got, want):
    """fields of the database projection that differ from the specification's"""
    return [f for f in PROJ_FIELDS if got.get(f) != want.get(f)]


def kinds(world, ops_ids, cat):
    return "+".join(sorted(cat[i]["k"] for i in ops_ids))


def outcome(spec_res):
    return "in" if spec_res == "in" else "skip" if spec_res == "skip" else "out"


def real_outcomes(run, n):
    got = ["skip"] * n
    reasons = [""] * n
    for r in run.get("results") or []:
        if 0 <= r["i"] < n:
            got[r["i"]] = "in" if r["in"] else "out"
            reasons[r["i"]] = r.get("reason", "")
    return got, reasons


def check_world(ctx, pid, world, out, seen):
    """the chain below the block under test was produced by the real pipeline as well: its
    states must be the specification's"""
    key = (world["world"],)
    if key in seen or not out.get("script"):
        return
    seen.add(key)
    wants = [world["genesis_want"]] + list(world["script_want"])
    for k, (got, want) in enumerate(zip(out["script"], wants)):
        d = proj_diff(got, want)
        if d:
            ctx.violation("world-block(%s;%d;%s)" % (world["world"], k, ",".join(d)),
                          "block %d of world %s: database holds %s, specification says %s" % (
                              k, world["world"], {f: got.get(f) for f in d}, {f: want.get(f) for f in d}),
                          {"world": world["world"], "block": k, "got": got, "want": want})


def judge_case(ctx, world, cat, g, out, determinism=True, binding=True, label=""):
    """g: grouped case (ops, scheds, wants); out: harness answer. Returns dict of counters."""
    ids = g["ops"]
    kk = kinds(world, ids, cat)
    stats = {"runs": 0, "forced": 0, "forced_followed": 0, "infeasible": 0, "reason_mismatch": 0}
    if out.get("err"):
        raise core.MachineryError("harness could not run case %s: %s" % (ids, out["err"][:600]))
    runs = list(out.get("runs") or []) + [out["saved"]]
    stats["runs"] = len(runs)
    spec_expels = [i for i in ids if cat[i]["k"] == "expel"]
    if (out.get("expels") or []) != spec_expels:
        raise core.MachineryError("the voteproof orders the expels %s, the specification's ExpelOrder gives %s: "
                                  "update ExpelOrder in the spec" % (out.get("expels"), spec_expels))
    sample = {"world": world["world"], "ops": ids, "scheds": g["scheds"],
              "spec": g["wants"][0], "manifest": out["saved"].get("hash"), "runs": len(runs)}

    def runkey(r):
        if r.get("err") or r.get("panic"):
            return "ERR:" + (r.get("err") or "") + (r.get("panic") or "")[:200]
        return "/".join([r.get("hash", ""), r.get("ops_root", ""), r.get("sts_root", ""), r.get("suffrage", "")])

    for r in runs:
        if r.get("forced"):
            stats["forced"] += 1
            if r.get("infeasible"):
                stats["infeasible"] += 1
    # forced runs: did the real merge order follow the model's order?
    for r, s in zip(out.get("runs") or [], g["scheds"]):
        if r.get("forced") and not r.get("infeasible") and [x for x in r.get("merge_order", [])] == s:
            stats["forced_followed"] += 1

    keys = sorted(set(runkey(r) for r in runs))
    panics = [r for r in runs if r.get("panic")]
    if panics:
        ctx.violation("panic(%s)" % kk, "Process panicked for proposal %s: %s" % (ids, panics[0]["panic"][:300]),
                      {"case": sample, "run": panics[0]})
    if determinism and len(keys) > 1:
        diff = []
        a = runs[-1]
        for r in runs:
            if runkey(r) != runkey(a):
                for f in ("hash", "ops_root", "sts_root", "suffrage", "err"):
                    if r.get(f) != a.get(f) and f not in diff:
                        diff.append(f)
        ctx.violation("nondeterministic(%s)" % ",".join(sorted(diff)),
                      "the same proposal %s over the same prior state gave %d different results (%s differ) "
                      "across worker sizes / schedules" % (ids, len(keys), ",".join(sorted(diff))),
                      {"case": sample, "runs": [{k: r.get(k) for k in (
                          "w", "forced", "hash", "ops_root", "sts_root", "suffrage", "err", "merge_order")} for r in runs]})
    errs = [r for r in runs if r.get("err")]
    if errs and len(keys) == 1:
        # the same failure in every run: deterministic, not this property's business; reported
        ctx.extra.setdefault("deterministic_process_errors", {})
        e = errs[0]["err"][:120]
        ctx.extra["deterministic_process_errors"][e] = ctx.extra["deterministic_process_errors"].get(e, 0) + 1
        return stats
    if not binding or errs:
        return stats
    # the model must agree with itself before it can judge
    if len(g["wants"]) != 1:
        return stats
    spec = g["wants"][0]
    n = len(ids)
    got, reasons = real_outcomes(out["saved"], n)
    want = [outcome(x) for x in spec["res"]]
    for i in range(n):
        if got[i] != want[i]:
            ctx.violation("outcome(%s:%s->%s)" % (cat[ids[i]]["k"], spec["res"][i], got[i] + ("/" + reasons[i] if reasons[i] else "")),
                          "operation %s (%s) of proposal %s: specification says %r, real processors: %s %s" % (
                              ids[i], cat[ids[i]]["k"], ids, spec["res"][i], got[i], reasons[i]),
                          {"case": sample, "op": cat[ids[i]], "got": got, "want": spec["res"]})
        elif want[i] == "out" and reasons[i] != spec["res"][i]:
            stats["reason_mismatch"] += 1
            ctx.extra.setdefault("reason_mismatches", {})
            k = "%s: spec %r real %r" % (cat[ids[i]]["k"], spec["res"][i], reasons[i])
            ctx.extra["reason_mismatches"][k] = ctx.extra["reason_mismatches"].get(k, 0) + 1
    if out.get("after") is not None:
        d = proj_diff(out["after"], spec["want"])
        if d:
            ctx.violation("projection(%s)" % ",".join(d),
                          "after proposal %s the database holds %s, the specification says %s" % (
                              ids, {f: out["after"].get(f) for f in d}, {f: spec["want"].get(f) for f in d}),
                          {"case": sample, "got": out["after"], "want": spec["want"]})
    return stats


def replay(ctx, pid, tag, world, groups, free, reps, par=None, timeout=2400):
    """run the grouped cases on the real pipeline; returns harness outputs (same order)"""
    cat = {o["id"]: o for o in world["catalogue"]}
    for g in groups:  # an order of fewer than two jobs needs no forcing
        g["scheds"] = [x for x in g["scheds"] if len(x) >= 2]
    cases = [case_input(world, g["ops"], g["scheds"], free, reps, cat) for g in groups]
    inp = os.path.join(ctx.work, "cases-%s.ndjson" % tag)
    res = os.path.join(ctx.work, "res-%s.ndjson" % tag)
    core.write_ndjson(inp, cases)
    args = [pid, "replay", "--in", inp, "--out", res, "--work", os.path.join(ctx.work, "go-" + tag)]
    if par:
        args += ["--par", par]
    t = time.time()
    ctx.vh(args, timeout=timeout)
    ctx.extra.setdefault("replay_s", {})[tag] = round(time.time() - t, 1)
    outs = core.read_ndjson(res)
    if len(outs) != len(cases):
        raise core.MachineryError("harness answered %d of %d cases" % (len(outs), len(cases)))
    return cat, outs


def add_stats(total, s):
    for k, v in s.items():
        total[k] = total.get(k, 0) + v


def run(ctx):
    quick = ctx.tier == "quick"
    total = {}
    seen_worlds = set()
    free = [1, 2, 7, 64]
    plans = []
    if quick:
        plans.append(("A-mc", "BlockProcess_mc_quick.cfg", {}, None))
        plans.append(("B-mc", "BlockProcess_mc_quick.cfg", {"World": '"B"', "CatIds": QUICK_B}, None))
        plans.append(("A-sim", "BlockProcess_sim.cfg", {}, (30, 60)))
        plans.append(("B-sim", "BlockProcess_sim.cfg", {"World": '"B"'}, (30, 60)))
    else:
        plans.append(("A-mc", "BlockProcess_mc_thorough.cfg", {}, None))
        plans.append(("B-mc", "BlockProcess_mc_thorough.cfg", {"World": '"B"'}, None))
        plans.append(("A-sim", "BlockProcess_sim.cfg", {}, (1500, 60)))
        plans.append(("B-sim", "BlockProcess_sim.cfg", {"World": '"B"'}, (1500, 60)))
    exhaustive_cfgs = []
    for tag, cfg, subst, sim in plans:
        c = stage_cfg(ctx, cfg, "c10-%s.cfg" % tag, subst) if subst else cfg
        world, cases, r = run_model(ctx, "BlockProcess", c, simulate=sim, timeout=1500)
        if not sim:
            exhaustive_cfgs.append(cfg)
        groups = group_cases(world, cases)
        if not groups:
            raise core.MachineryError("TLC %s produced no terminal state" % c)
        cat, outs = replay(ctx, "C10", tag, world, groups, free, 1 if quick else 2)
        for g, out in zip(groups, outs):
            check_world(ctx, "C10", world, out, seen_worlds)
            s = judge_case(ctx, world, cat, g, out)
            add_stats(total, s)
            ctx.traces += s["runs"]
            spec = g["wants"][0]
            ctx.case([world["world"], g["ops"]], nontrivial=any(x == "in" for x in spec["res"]),
                     sample={"world": world["world"], "proposal": g["ops"], "model_orders": g["scheds"],
                             "spec_outcome": spec["res"], "manifest": out["saved"].get("hash"),
                             "runs": s["runs"]})
        ctx.extra.setdefault("cases_per_plan", {})[tag] = len(groups)
    if quick:
        # the larger exhaustive instance is checked on the model only (no replay) in the thorough tier
        pass
    else:
        c = "BlockProcess_mc3.cfg"
        world, cases, r = run_model(ctx, "BlockProcess", c, timeout=1500)
        ctx.extra["mc3_terminal_states"] = len(cases)
        ctx.extra["mc3_states"] = r.distinct
        groups = group_cases(world, cases)
        # replay a seeded sample of the three-operation proposals
        import random
        rnd = random.Random(ctx.seed)
        rnd.shuffle(groups)
        groups = groups[:600]
        cat, outs = replay(ctx, "C10", "A-mc3", world, groups, free, 1)
        for g, out in zip(groups, outs):
            s = judge_case(ctx, world, cat, g, out)
            add_stats(total, s)
            ctx.traces += s["runs"]
            ctx.case([world["world"], g["ops"]], nontrivial=any(x == "in" for x in g["wants"][0]["res"]))
    ctx.exhaustive = True
    ctx.rule = ("TLC explores every proposal of up to MaxOps distinct catalogue operations (valid and defective join / "
                "candidate / disjoin / expel / network-policy operations, unknown and already-processed ones) over the "
                "world's prior state and every interleaving of the Process jobs (%s); each proposal is replayed on the "
                "real pipeline once per distinct model order (forced) and with worker sizes 1,2,7,64 under noise, plus "
                "seeded -simulate proposals of up to 5 operations; distinct by (world, proposal); non-trivial = at least "
                "one operation changes a state" % ", ".join(exhaustive_cfgs))
    ctx.extra.update({"run_stats": total})
    ctx.assumptions = [
        "operations reach the processor through a GetOperationFunc that validates them (IsValid) as the pool does",
        "forced schedules serialise whole Process jobs (per-key merge orders are covered, cross-key interleavings of "
        "two jobs are left to the unforced noisy runs)",
        "reason texts of rejected operations are compared for information only (run_stats.reason_mismatch)",
        "a proposal that fails identically in every run is not counted against determinism (deterministic_process_errors)",
    ]
