"""C14 - block-map chain validation in batches. Spec: BlockMapChain.tla.

1. TLC checks the implementation-level transcription of BatchIsValidMaps/IsValidMaps (every
   arrival order inside a batch, every scenario of the catalogue, every limit) against the
   statement (ChainOK); variant "fixed" must hold, variant "pinned" is expected to violate
   AcceptOnlyLinked (candidates), ExactlyWhen (stronger reading) is only reported.
2. Binding A: every terminal state of the case configs (with the arrival order as history)
   plus seeded -simulate walks on long chains is replayed into the real
   base.BatchIsValidMaps with the arrival order forced. Verdict from the real run only:
   success although the answers do not form a complete linked chain / failure although every
   answer is the valid map of the requested height / panic.
"""
import os
import re
import random
from vlib import core

NOMAP, ERR = -100, -101



def final_coverage_zero(r):
    """actions with count 0 in the *final* coverage report only: with -coverage 1 TLC also prints interim
    reports every minute, in which actions the breadth-first search has not reached yet show 0:0."""
    mark = "The coverage statistics at"
    at = r.out.rfind(mark)
    if at < 0:
        raise core.MachineryError("no coverage report in the TLC output")
    z = []
    for m in re.finditer(r"^<(\w+) line .*?>: (\d+):(\d+)$", r.out[at:], re.M):
        if int(m.group(2)) == 0 and int(m.group(3)) == 0:
            z.append(m.group(1))
    taken = {m.group(1) for m in re.finditer(r"^<(\w+) line .*?>: (\d+):(\d+)$", r.out[at:], re.M)
             if int(m.group(2)) > 0 or int(m.group(3)) > 0}
    return [a for a in z if a not in taken]      # an action split into several disjuncts counts as taken if one is


def replay_isolating_crashes(ctx, prop, nrows, inp, out, timeout=900):
    try:
        p = ctx.vh([prop, "replay", "--in", inp, "--out", out], timeout=timeout, check=False)
    except core.MachineryError:          # one retry: seen once on a heavily overloaded machine
        ctx.extra["harness_retry_after_timeout"] = 1
        p = ctx.vh([prop, "replay", "--in", inp, "--out", out], timeout=timeout, check=False)
    if p.returncode == 0:
        return {r["i"]: r for r in core.read_ndjson(out)}, {}
    if "panic" not in p.stderr and "fatal error" not in p.stderr:
        raise core.MachineryError("vh %s exited %d:\n%s" % (prop, p.returncode, p.stderr[-3000:]))
    res, crashes, start = {}, {}, 0
    while start < nrows and len(crashes) < 5:
        part = out + ".seq"
        if os.path.exists(part):
            os.remove(part)
        p = ctx.vh([prop, "replay", "--in", inp, "--out", part, "--seq", "1", "--start", start], timeout=timeout, check=False)
        got = core.read_ndjson(part) if os.path.exists(part) else []
        for r in got:
            res[r["i"]] = r
        if p.returncode == 0:
            break
        if "panic" not in p.stderr and "fatal error" not in p.stderr:
            raise core.MachineryError("vh %s exited %d:\n%s" % (prop, p.returncode, p.stderr[-3000:]))
        k = start + len(got)
        crashes[k] = p.stderr[:1500]
        start = k + 1
    return res, crashes


CFG_TMPL = """%s
CONSTANTS
  Lens = {%s}
  Limits = {%s}
  PrevKinds = {"nil", "map"}
  PrevH = 4
  ScenKinds = {"valid", "wrongprev", "altered", "wrongheight", "swap", "error"}
  ScenPos = {%s}
  Variants = {%s}
  Interleave = TRUE
  Emit = "%s"
CHECK_DEADLOCK FALSE
"""


def _long_cfgs(ctx, rng, quick):
    """seeded larger instances: BlockMapChain_long.cfg enumerates cases only (initial states, NEXT Halt);
    BlockMapChain_sim.cfg is walked by -simulate (arrival orders chosen by TLC, with the transcription's prediction)."""
    lens = sorted(rng.sample(range(7, 201), 2 if quick else 4))
    limits = sorted(set([rng.randint(1, 50) for _ in range(2 if quick else 3)] +
                        [rng.choice([d for d in range(2, 51) if lens[-1] % d == 0] or [1])]))
    pos = {0, 1}
    for n in lens:
        pos |= {n, n + 1, rng.randint(1, n)}
    for lim in limits:
        pos |= {lim, lim + 1}            # batch boundaries
    pos = sorted(pos)
    j = lambda xs: ", ".join(map(str, xs))
    d = ctx._stage_spec()
    with open(os.path.join(d, "BlockMapChain_long.cfg"), "w") as f:
        f.write(CFG_TMPL % ("INIT Init\nNEXT Halt", j(lens), j(limits), j(pos), '"fixed"', "init"))
    slen = [rng.randint(7, 60)]
    slim = sorted({rng.randint(1, 12), rng.choice([d for d in range(2, 30) if slen[0] % d == 0] or [3])})
    spos = sorted({0, 1, slen[0], slen[0] + 1, rng.randint(1, slen[0]), slim[0], slim[0] + 1})
    with open(os.path.join(d, "BlockMapChain_sim.cfg"), "w") as f:
        f.write(CFG_TMPL % ("SPECIFICATION Spec", j(slen), j(slim), j(spos), '"pinned", "fixed"', "done"))
    return {"long": {"lens": lens, "limits": limits, "positions": pos},
            "sim": {"lens": slen, "limits": slim, "positions": spos}}


def _shuffled_order(rng, n, limit):
    order = []
    for b in range(0, n, limit):
        batch = list(range(b + 1, min(b + limit, n) + 1))
        rng.shuffle(batch)
        order.extend(batch)
    return order


def answers_of(s):
    """the answer to every request: Valid(i) = [h = prevh+i, id = h, prev = h-1 (none at genesis)] unless the
    scenario deviates there (the spec exports only the deviating answers: ToJson of long arrays is slow)."""
    prevh = s["prevh"]
    ans = []
    for i in range(1, s["n"] + 1):
        h = prevh + i
        ans.append({"h": h, "id": h, "prev": -98 if h == 0 else h - 1})
    for d in s["dev"]:
        ans[d["i"] - 1] = d["m"]
    return ans


def statement_verdict(c):
    """ChainOK / WellFormed recomputed from the answers (cross-check of the spec's want) and
    the class of the defect of the answers."""
    ans = c["answers"]
    prevh = c["prevh"]
    n = c["n"]
    well = all(a["h"] == prevh + i + 1 for i, a in enumerate(ans) if a["h"] != ERR)
    if any(a["h"] == ERR for a in ans):
        return False, well, "fetch-error"
    slots = {}
    for a in ans:
        slots.setdefault(a["h"], set()).add((a["id"], a["prev"]))
    heights = range(prevh + 1, prevh + n + 1)
    for h in heights:
        if h not in slots:
            return False, well, "unfilled-slot"
        if len(slots[h]) != 1:
            return False, well, "two-maps-for-one-height"
    for h in heights:
        (_, prev), = slots[h]
        if h == 0:
            continue
        below = prevh if h - 1 == prevh else list(slots[h - 1])[0][0]
        if h - 1 == prevh and c["pk"] == "nil":
            return False, well, "no-previous"
        if prev != below:
            return False, well, "broken-link"
    return True, well, "linked"


def run(ctx):
    quick = ctx.tier == "quick"
    cfg = "BlockMapChain_mc_quick.cfg" if quick else "BlockMapChain_mc_thorough.cfg"
    r = ctx.tlc("BlockMapChain", cfg, args=[] if quick else ["-coverage", "1"], timeout=1500)
    ctx.extra["mc_fixed"] = {"cfg": cfg, "distinct": r.distinct, "generated": r.generated, "wall_s": round(r.wall, 1)}
    if not quick:
        zero = [z for z in final_coverage_zero(r) if z in ("Pref", "Arrive", "EndBatch", "Init")]
        ctx.extra["coverage_zero_actions"] = zero
        if zero:
            raise core.MachineryError("actions never taken in %s: %s" % (cfg, zero))
    rp = ctx.tlc("BlockMapChain", "BlockMapChain_mc_pinned.cfg", timeout=600, allow_violation=True)
    ctx.extra["mc_pinned"] = {"violated": rp.violated}
    rs = ctx.tlc("BlockMapChain", "BlockMapChain_mc_stronger.cfg", timeout=600, allow_violation=True)
    ctx.extra["stronger_reading_ExactlyWhen_on_fixed_transcription"] = {"violated": rs.violated}

    ccfg = "BlockMapChain_cases_quick.cfg" if quick else "BlockMapChain_cases_thorough.cfg"
    rr, steps = ctx.tlc_dump_steps("BlockMapChain", ccfg, timeout=1500, workers=4)
    ctx.extra["cases_cfg"] = {"cfg": ccfg, "distinct": rr.distinct, "terminal": len(steps), "wall_s": round(rr.wall, 1)}
    rng = random.Random(ctx.seed)
    ctx.extra["seeded_instances"] = _long_cfgs(ctx, rng, quick)
    _, behs = ctx.tlc_simulate("BlockMapChain", "BlockMapChain_sim.cfg", num=40 if quick else 400, depth=250)
    nsim = 0
    for b in behs:
        if b:
            steps.append(b[-1])
            nsim += 1
    ctx.extra["sim_behaviours"] = nsim
    rl, longs = ctx.tlc_dump_steps("BlockMapChain", "BlockMapChain_long.cfg", timeout=1500, workers=4)
    nlong = 0
    for s in longs:                      # case and demanded verdict from TLC, arrival orders seeded here
        for _ in range(1 if quick else 3):
            s2 = dict(s, order=_shuffled_order(rng, s["n"], s["limit"]), variant=None)
            steps.append(s2)
            nlong += 1
    ctx.extra["long_cases"] = {"cases": len(longs), "orders": nlong, "wall_s": round(rl.wall, 1)}

    # one real call per (case, order); the two variants only differ in the prediction
    cases = {}
    for s in steps:
        s["answers"] = answers_of(s)
        k = (s["n"], s["limit"], s["pk"], s["scen"]["kind"], s["scen"]["i"], s["scen"]["j"], tuple(s["order"]))
        c = cases.setdefault(k, dict(s, impl={}))
        if s["variant"]:
            c["impl"][s["variant"]] = s["impl"]
    order = sorted(cases)
    rows = [{"i": i, "n": cases[k]["n"], "limit": cases[k]["limit"], "pk": cases[k]["pk"], "prevh": cases[k]["prevh"],
             "order": cases[k]["order"], "answers": cases[k]["answers"]} for i, k in enumerate(order)]
    inp = os.path.join(ctx.work, "cases.ndjson")
    out = os.path.join(ctx.work, "res.ndjson")
    core.write_ndjson(inp, rows)
    resd, crashes = replay_isolating_crashes(ctx, "C14", len(rows), inp, out)
    for k, tail in crashes.items():
        resd[k] = {"i": k, "ret": "panic", "panic": tail, "called": [], "arrived": [], "crashed_process": True}
    ctx.extra["process_crashes"] = len(crashes)
    if not crashes and len(resd) != len(rows):
        raise core.MachineryError("harness answered %d of %d cases" % (len(resd), len(rows)))

    ctx.exhaustive = True
    ctx.rule = ("every terminal state (n, limit, previous map, scenario, arrival order) of %s plus the last state of "
                "seeded instances with chains of 7..200 (cases from TLC, shuffled arrival orders; -simulate walks); one forced-order call of the real BatchIsValidMaps per "
                "distinct (case, order); non-trivial = at least 2 requests or a non-valid scenario" % ccfg)
    follow = {"pinned_predictions": 0, "pinned_matched": 0, "fixed_predictions": 0, "fixed_matched": 0}
    neither, infeasible, stronger = [], 0, 0
    cands = repro = 0
    model_only = []
    for i, k in enumerate(order):
        c, row = cases[k], resd.get(i)
        if row is None:
            ctx.extra["not_replayed_after_crashes"] = ctx.extra.get("not_replayed_after_crashes", 0) + 1
            continue
        if row.get("infeasible"):
            infeasible += 1
            continue
        chainok, well, why = statement_verdict(c)
        if chainok != c["want"]["chainok"] or well != c["want"]["wellformed"]:
            raise core.MachineryError("spec and driver disagree on ChainOK for %s" % (rows[i],))
        sc = c["scen"]
        ctx.case([c["n"], c["limit"], c["pk"], sc["kind"], sc["i"], sc["j"], c["order"]],
                 nontrivial=c["n"] > 1 or sc["kind"] != "valid",
                 sample={"case": rows[i], "scenario": sc, "real": row["ret"], "chain_ok": chainok})
        ctx.traces += 1
        key = None
        if row["ret"] == "panic":
            key = "panic(%s)" % sc["kind"]
        elif row["ret"] == "ok" and not chainok:
            key = why if why == "unfilled-slot" else "%s-accepted(%s)" % (why, sc["kind"])
        elif row["ret"] == "err" and chainok and well:
            key = "valid-chain-rejected"
        elif row["ret"] == "err" and chainok:
            stronger += 1
        if key:
            what = ("BatchIsValidMaps(prev=%s, to=%d, batchlimit=%d) with scenario %s(i=%d,j=%d), arrival order %s "
                    "returned %s; answers %s" % (
                        "nil" if c["pk"] == "nil" else "map@%d" % c["prevh"], c["prevh"] + c["n"], c["limit"],
                        sc["kind"], sc["i"], sc["j"], _brief(c["order"]),
                        {"ok": "nil", "err": "an error", "panic": "a panic"}[row["ret"]],
                        {"unfilled-slot": "leave a height of (prev, to] without any map"}.get(why, why)))
            ctx.violation(key, what, {"case": rows[i], "scenario": sc, "want": c["want"], "real": row,
                                      "transcription": c["impl"]})
        real = (row["ret"], row["called"])
        for v, p in c["impl"].items():
            follow[v + "_predictions"] += 1
            if (p["ret"], p["called"]) == real:
                follow[v + "_matched"] += 1
            elif v == "fixed" and len(neither) < 5:
                neither.append({"case": rows[i], "real": real, "transcription": c["impl"]})
        p = c["impl"].get("pinned")
        if p and p["ret"] == "ok" and not chainok:
            cands += 1
            if key:
                repro += 1
            elif len(model_only) < 5:
                model_only.append({"n": c["n"], "limit": c["limit"], "pk": c["pk"], "scen": sc, "order": c["order"]})
    ctx.extra["real_calls"] = len(rows)
    ctx.extra["infeasible_schedules_skipped"] = infeasible
    ctx.extra["code_follows_transcription"] = follow
    if neither:
        ctx.extra["fixed_transcription_mismatch_samples"] = neither
    ctx.extra["pinned_model_candidates"] = {"total": cands, "reproduced_on_real_code": repro}
    ctx.extra["model_only_counterexamples"] = model_only
    ctx.extra["stronger_reading_linked_but_misdelivered_chain_rejected"] = stronger
    ctx.assumptions = [
        "block maps are the repository's DummyBlockMap/DummyManifest fixtures (only height, hash and previous are consulted by the code); hashes are SHA-256 of the model identity",
        "slot[h] = the answers whose own height is h; a linked chain whose answers came back under swapped requests may be accepted or rejected (weaker reading)",
        "arrival order = order in which answers enter the validation critical section, forced by releasing one blocked fetch at a time",
    ]


def _brief(xs):
    return str(xs) if len(xs) <= 12 else "%s...(%d)" % (xs[:10], len(xs))
