"""C37 - memberlist member table. Spec: Members.tla (sequential table + the table used by several
goroutines: call / internal linearization step / return), MembersPool.tla (the two-table update
protocol of the repository against that layer; enumerates the schedules to force).
Binding B: the real membersPool is driven
  - sequentially (every operation sequence of a given length over a reduced alphabet + seeded
    random sequences), every reply compared by MembersTrace.tla,
  - from 2-4 goroutines at once on a fresh table per history: schedules enumerated by TLC from
    MembersPool.tla (Discipline "free") are forced through the node address objects the harness
    hands to the table, and seeded random histories run freely with delays at the same points;
    MembersTrace.tla searches a linearization of every recorded history, whose last event is the
    observation of every read after all goroutines returned."""
import concurrent.futures
import copy
import json
import os
import re
from vlib import core


# ------------------------------------------------------------------------------------------ sequential part
def classify(cls, line, events):
    """name the defect class from the history that precedes the mismatching observation"""
    if cls in ("MembersLen", "MembersLenOthers-len", "MembersLenOthers-others", "MembersLenOthers-found"):
        # walk back to the Reset: a re-join of a present address duplicates, a leave drops siblings
        i = line - 1
        present = {}
        dup = drop = readdr = False
        j = i
        while j >= 0 and events[j]["a"] != "Reset":
            j -= 1
        for e in events[j + 1:i + 1]:
            if e["a"] == "Join":
                if e["addr"] in present and present[e["addr"]] != e["node"]:
                    readdr = True
                elif e["addr"] in present:
                    dup = True
                present[e["addr"]] = e["node"]
            elif e["a"] == "Leave":
                n = present.pop(e["addr"], None)
                if n is not None and any(v == n for v in present.values()):
                    drop = True
            elif e["a"] == "Empty":
                present = {}
        if readdr and not dup and not drop:
            return "readdress-stale"
        if dup and not drop:
            return "rejoin-duplicate"
        if drop and not dup:
            return "remove-drops-siblings"
        if dup and drop:
            return "rejoin-duplicate+remove-drops-siblings"
        return "per-node-list(" + cls + ")"
    return cls


def sequential(c, k, args):
    """record one sequential file and validate it; returns what the main thread turns into cases / verdicts"""
    t = os.path.join(c.work, "trace%d.ndjson" % k)
    c.vh(["C37", "record"] + args + ["--out", t])
    events = core.read_ndjson(t)
    ok, res, hw = c.tlc_validate_trace("MembersTrace", "MembersTrace.cfg", t, timeout=1500)
    return events, ok, res, hw


def judge_sequential(ctx, events, ok, res, hw):
    if not ok:
        # structurally unexplained event: report the line
        ctx.violation("trace-rejected", "event %s not explained by Members.tla: %s" % (hw, events[hw - 1] if hw else "?"),
                      {"line": hw, "event": events[hw - 1] if hw else None, "tlc_tail": res.out[-1500:]})
    seqs = []
    cur = None
    for e in events:
        if e["a"] == "Reset":
            cur = []
            seqs.append(cur)
        elif e["a"] != "Obs":
            cur.append([e["a"], e.get("addr"), e.get("node")])
    for sq in seqs:
        ctx.case(sq, nontrivial=any(o[0] == "Join" for o in sq), sample=sq)
    ctx.traces += len(seqs)
    seen = set()
    for (cls, line, rest) in res.mismatches():
        key = classify(cls, line, events)
        if (key, line) in seen:
            continue
        seen.add((key, line))
        j = line - 1
        while j >= 0 and events[j]["a"] != "Reset":
            j -= 1
        hist = [e for e in events[j:line] if e["a"] != "Obs"]
        ctx.violation(key, "%s: got/want %s after %s" % (cls, rest, [(e["a"], e.get("addr"), e.get("node")) for e in hist][-6:]),
                      {"class": cls, "history": hist, "observation": events[line - 1]})
    return len(seqs)


# ------------------------------------------------------------------------------------------ concurrent part
def subctx(ctx, k):
    """a view of ctx for one job that goes on at the same time as others: own work directory and counters"""
    c = copy.copy(ctx)
    c.work = os.path.join(ctx.work, "p%s" % k)
    os.makedirs(c.work)
    c.states = c.transitions = 0
    c.tlc_cmds = []
    c._ntlc = 0
    return c


def side_by_side(ctx, jobs, workers):
    """jobs: [(label, f, args)]; f(subctx, *args). Results in order; a MachineryError of a job is raised."""
    import time
    ctx._nside = getattr(ctx, "_nside", 0) + 1
    subs = [subctx(ctx, "%d_%s" % (ctx._nside, lb)) for (lb, _, _) in jobs]
    took = ctx.extra.setdefault("job_s", {})

    def timed(lb, f, c, args):
        t = time.time()
        try:
            return f(c, *args)
        finally:
            took[lb] = round(time.time() - t, 1)
    with concurrent.futures.ThreadPoolExecutor(max_workers=workers) as ex:
        futs = [ex.submit(timed, lb, f, c, args) for (lb, f, args), c in zip(jobs, subs)]
        done = [f.result() for f in futs]
    for c in subs:
        ctx.states += c.states
        ctx.transitions += c.transitions
        ctx.tlc_cmds += c.tlc_cmds
    return done


SCHED = re.compile(r'^"SCHED (.*) ; (.*) ;((?: \d+)*)"$', re.M)
FIELD = re.compile(r'(\w+) \|-> "(\w+)"')


def parse_schedules(out):
    """SCHED lines of MembersPool.tla (Forced) -> [(init, ops, toks)]"""
    res = []
    for (i, o, t) in SCHED.findall(out.replace('\\"', '"')):
        init = dict(FIELD.findall(i))
        ops = []
        for rec in re.findall(r"\[([^\]]*)\]", o):
            d = dict(FIELD.findall(rec))
            ops.append({"op": d["op"], "addr": d["addr"], "node": d["node"]})
        res.append((init, ops, [int(x) for x in t.split()]))
    return res


def canonical(s, addrs=("a1", "a2"), nodes=("n1", "n2")):
    """the smallest of the renamings of a schedule (a1<->a2, n1<->n2, goroutine numbers): the table treats
    addresses, nodes and goroutines alike"""
    init, ops, toks = s
    best = None
    for am in ({}, {addrs[0]: addrs[1], addrs[1]: addrs[0]}):
        for nm in ({}, {nodes[0]: nodes[1], nodes[1]: nodes[0]}):
            i2 = {am.get(a, a): nm.get(n, n) for a, n in init.items()}
            o2 = [(o["op"], am.get(o["addr"], o["addr"]), nm.get(o["node"], o["node"])) for o in ops]
            # renumber the goroutines by the order of their calls; equal calls: by first appearance in toks
            first = {g: (toks.index(g + 1) if g + 1 in toks else 99) for g in range(len(o2))}
            order = sorted(range(len(o2)), key=lambda k: (o2[k], first[k]))
            ren = {old + 1: new + 1 for new, old in enumerate(order)}
            c = (tuple(sorted(i2.items())), tuple(o2[k] for k in order), tuple(ren[t] for t in toks))
            if best is None or c < best:
                best = c
    return best


def schedules(c, cfg, addrs):
    r = c.tlc("MembersPool", cfg, timeout=3000, workers=4)
    raw = parse_schedules(r.out)
    if len(raw) < 100:
        raise core.MachineryError("MembersPool/%s printed %d schedules: %s" % (cfg, len(raw), r.out[-1500:]))
    canon = sorted(set(canonical(s, addrs=addrs) for s in raw))
    return len(raw), canon


def model(c, module, cfg):
    r = c.tlc(module, cfg, timeout=3000, workers=4)
    return r.distinct


def candidate(c, cfg, inv):
    r = c.tlc("MembersPool", cfg, allow_violation=True, timeout=900, count=False, workers=2)
    if r.violated != inv:
        raise core.MachineryError("%s is not violated by the candidate discipline of %s (violated: %s): the model lost its "
                                  "sensitivity\n%s" % (inv, cfg, r.violated, r.out[-2000:]))
    return inv + " violated (as it must be)"


def split_histories(events):
    hs, cur = [], None
    for e in events:
        if e["a"] == "HReset":
            cur = [e]
            hs.append(cur)
        elif e["a"] == "End":
            cur = None
        elif cur is not None:
            cur.append(e)
    return hs


def validate_chunk(c, hs, cfg):
    """one TLC search over a chunk of histories -> [(history, first unexplained event)] of those without a linearization"""
    path = os.path.join(c.work, "chunk.ndjson")
    rows = [e for h in hs for e in h] + [{"a": "End"}]
    core.write_ndjson(path, rows)
    ok, res, hw = c.tlc_validate_trace("MembersTrace", cfg, path, timeout=3000)
    seen = re.findall(r'<<"SEEN", (\d+)>>', res.out)
    m = re.findall(r'<<\s*"NOTLIN",\s*\{([^}]*)\}\s*>>', res.out)
    if not ok or not m or not seen or int(seen[-1]) != len(hs) or hw != len(rows) + 1:
        raise core.MachineryError("MembersTrace/%s did not go through the %d histories (ok=%s hw=%s of %d seen=%s): %s" % (
            cfg, len(hs), ok, hw, len(rows), seen, res.out[-3000:]))
    notlin = set(int(x) for x in re.sub(r"\s", "", m[-1]).split(",") if x)
    hwt = {int(i): int(l) for (i, l) in re.findall(r'<<\s*"HWT",\s*(\d+),\s*(\d+)\s*>>', res.out)}
    out = []
    for h in hs:
        i = h[0]["i"]
        if i in notlin:
            if i not in hwt or not (1 <= hwt[i] <= len(rows)):
                raise core.MachineryError("MembersTrace/%s printed no HWT line for history %d: %s" % (cfg, i, res.out[-1500:]))
            out.append((h, rows[hwt[i] - 1]))
    return out


def validate(ctx, parts, cfg="MembersTrace_conc.cfg"):
    """parts: [(label, histories, chunks)] -> {label: [(history, first unexplained event)]}; all chunks side by side"""
    jobs, owner = [], []
    for (label, hs, chunks) in parts:
        n = max(1, min(chunks, len(hs) // 300))
        size = (len(hs) + n - 1) // n
        for k in range(n):
            jobs.append(("%s%d" % (label, k), validate_chunk, (hs[k * size:(k + 1) * size], cfg)))
            owner.append(label)
    out = {label: [] for (label, _, _) in parts}
    for label, part in zip(owner, side_by_side(ctx, jobs, workers=min(4, len(jobs)))):
        out[label] += part
    return out


def overlaps(h, addr):
    """which kinds of joins / leaves of the address (of any address if None) and Empty calls were in progress at the same time"""
    open_, kinds = {}, set()
    for e in h:
        if e["a"] == "Call":
            if (e["op"] in ("Join", "Leave") and addr in (None, e["addr"])) or e["op"] == "Empty":
                for o in open_.values():
                    if (o, e["op"]) != ("Empty", "Empty"):
                        kinds.add("||".join(sorted([o.lower(), e["op"].lower()], key=lambda x: ("empty", "leave", "join").index(x))))
                open_[e["g"]] = e["op"]
        elif e["a"] == "Ret":
            open_.pop(e["g"], None)
    return sorted(kinds)


def final_class(fin):
    """what the observation after all calls returned shows, by itself: (class, address)"""
    for a in sorted(fin["exists"]):
        listed = [n for n in sorted(fin["others"]) if fin["others"][n][a][2] == 1]
        if fin["exists"][a] != fin["getfound"][a]:
            return "Exists!=Get-found", a
        if fin["exists"][a] and fin["getnode"][a] not in listed:
            return "present-but-not-in-the-list-of-its-node", a
        if not fin["exists"][a] and listed:
            return "absent-but-in-a-node-list", a
        if fin["exists"][a] and len(listed) > 1:
            return "in-the-lists-of-two-nodes", a
    for n in sorted(fin["mlen"]):
        if fin["mlen"][n] != sum(1 for a in fin["exists"] if fin["others"][n][a][2] == 1):
            return "node-list-duplicate", None
    if fin["len"] != sum(1 for a in fin["exists"] if fin["exists"][a]) or len(fin["trav"]) != fin["len"]:
        return "Len/Traverse!=present-members", None
    return "no-order-of-the-calls-gives-this-table", None


def judge_concurrent(ctx, fam, notlin):
    for (h, ev) in notlin:
        calls = [e for e in h if e["a"] == "Call"]
        if ev["a"] == "Final":
            cls, addr = final_class(ev)
            what = "after-all-returned:" + cls
        elif ev["a"] == "Ret":
            c = {"op": "?", "addr": None}
            for e in h:                                     # the call this Ret belongs to: the last Call of g before it
                if e is ev:
                    break
                if e["a"] == "Call" and e["g"] == ev["g"]:
                    c = e
            addr = c["addr"] if c.get("addr") not in (None, "none") else None
            what = "answer-of-%s" % c["op"]
        else:
            addr, what = None, "event-" + ev["a"]
        ov = overlaps(h, addr)
        shape = ("empty-overlapping-joins/leaves" if any(k.startswith("empty") for k in ov)
                 else ov[0] if len(ov) == 1
                 else "several-overlapping-joins/leaves-of-the-address" if ov else "no-overlapping-join/leave-of-the-address")
        key = "not-linearizable(%s;%s)" % (shape, what)
        ctx.violation(key, "history %d (%s): no order of the calls explains %s%s; overlapping on it: %s; calls in the order they "
                      "started: %s" % (h[0]["i"], fam, what, " of " + addr if addr else "", ",".join(ov) or "-",
                                       " ".join(show(e) for e in calls[:10]) + (" ..." if len(calls) > 10 else "")),
                      {"family": fam, "history": h, "first_unexplained": ev})


def show(e):
    arg = ",".join(x for x in (e["addr"], e["node"]) if x != "none")
    r = e.get("r") or {}
    ans = {"Join": "b", "Leave": "b", "Exists": "b", "Len": "l", "MembersLen": "l"}.get(e["op"])
    val = r.get(ans) if ans else ([r.get("b"), r.get("n")] if e["op"] == "Get" else [r.get("l"), r.get("o"), r.get("b")])
    return "g%d:%s(%s)=%s" % (e["g"], e["op"], arg, json.dumps(val, separators=(",", ":")))


def free_family(c, num, strict, empty=0):
    """seeded random histories of 2-4 goroutines with delays at the boundaries (empty: percentage of Empty() among the calls),
    and the search for their linearizations"""
    t = os.path.join(c.work, "free.ndjson")
    p = c.vh(["C37", "free", "--num", num, "--base", 400000 if empty else 200000, "--empty", empty, "--out", t], timeout=1800)
    hs = split_histories(core.read_ndjson(t))
    if len(hs) != num:
        raise core.MachineryError("%d of %d free-running histories were recorded" % (len(hs), num))
    nl = validate(c, [("vr", hs, max(1, num // 1500))])["vr"]
    more = validate(c, [("vrs", hs, max(1, num // 1500))], cfg="MembersTrace_conc_strict.cfg")["vrs"] if strict else []
    return hs, json.loads(p.stdout.strip().splitlines()[-1]), nl, more


def forced_family(c, cfg, addrs, base, sample, strict, planned):
    """the schedules of MembersPool.tla (Discipline "free"), up to renaming (a seeded sample of them if there are more than
    `sample`), forced on fresh tables, and the search for the linearizations of what was recorded"""
    nraw, canon = schedules(c, cfg, addrs)
    scheds = canon
    if sample and len(canon) > sample:
        import random
        scheds = sorted(random.Random(c.seed).sample(canon, sample))
    spath = os.path.join(c.work, "schedules.ndjson")
    core.write_ndjson(spath, [{"i": base + i, "init": dict(s[0]), "ops": [{"op": o[0], "addr": o[1], "node": o[2]} for o in s[1]],
                               "toks": list(s[2])} for i, s in enumerate(scheds)])
    fpath = os.path.join(c.work, "forced.ndjson")
    p = c.vh(["C37", "forced", "--in", spath, "--out", fpath], timeout=3000)
    stat = json.loads(p.stdout.strip().splitlines()[-1])
    hs = split_histories(core.read_ndjson(fpath))
    if len(hs) != len(scheds):
        raise core.MachineryError("%d of %d schedules were run: %s" % (len(hs), len(scheds), stat))
    if stat["as_planned"] < len(scheds) * planned:
        # (calls on one address exclude each other: most schedules of the no-lock model degrade; calls on different addresses do not)
        raise core.MachineryError("only %d of %d schedules went as planned (expected at least %d): the boundaries of MembersPool.tla "
                                  "are not those of the code any more: %s" % (stat["as_planned"], len(scheds), len(scheds) * planned, stat))
    stat.update({"enumerated": nraw, "up_to_renaming": len(canon)})
    nl = validate(c, [("vf", hs, max(1, len(hs) // 1500))])["vf"]
    more = validate(c, [("vfs", hs, max(1, len(hs) // 1500))], cfg="MembersTrace_conc_strict.cfg")["vfs"] if strict else []
    return scheds, hs, stat, nl, more


def run(ctx):
    quick = ctx.tier == "quick"
    ctx.rule = ("operation sequences on the member table (Join(addr,node)/Leave(addr)/Empty) each followed by an observation of "
                "every read; exhaustive: all sequences of length D over 7 operations; random: seeded; concurrent: one fresh table "
                "per history, 2-4 goroutines calling Join/Leave/reads, forced schedules (TLC-enumerated) and free-running ones, "
                "observation of every read after all returned; non-trivial = at least one Join (sequential) / one Join or Leave "
                "by a goroutine (concurrent); distinct by operation sequence / by table content + calls + schedule")
    depth = 4 if quick else 5
    seqruns = [["--mode", "exhaustive", "--depth", depth], ["--mode", "random", "--num", 300 if quick else 3000, "--len", 14]]
    # everything side by side: the models, the sequential recordings, the free-running histories, the forced schedules
    # (2 goroutines on 2 addresses: every schedule up to renaming; thorough also 3 goroutines on one address: seeded sample)
    jobs = [("seq_exhaustive", sequential, (0, seqruns[0])),
            ("forced2", forced_family, ("MembersPool_sched_quick.cfg" if quick else "MembersPool_sched_thorough2.cfg",
                                        ("a1", "a2"), 1, 0, not quick, 0.25)),
            ("seq_random", sequential, (1, seqruns[1])),
            ("free", free_family, (1000 if quick else 8000, not quick)),
            ("Members_mc", model, ("Members", "Members_mc.cfg")),
            ("Members_mc_conc", model, ("Members", "Members_mc_conc.cfg" if quick else "Members_mc_conc_thorough.cfg")),
            ("MembersPool_mc", model, ("MembersPool", "MembersPool_mc_quick.cfg" if quick else "MembersPool_mc_thorough.cfg")),
            ("cand_leave", candidate, ("MembersPool_cand_leave.cfg", "AtRestConsistent"))]
    if not quick:
        jobs.insert(0, ("forced3", forced_family, ("MembersPool_sched_thorough.cfg", ("a1", "a1"), 100001, 8000, False, 0.01)))
        jobs.append(("cand_join", candidate, ("MembersPool_cand_join.cfg", "AtRestConsistent")))
        # Empty() among the calls (it clears the two tables one after the other and has no boundary it could be held at)
        jobs.append(("cand_empty", candidate, ("MembersPool_cand_empty.cfg", "AtRestConsistent")))
        jobs.append(("free_empty", free_family, (6000, False, 20)))
    done = side_by_side(ctx, jobs, workers=8 if quick else 5)
    by = {lb: d for (lb, _, _), d in zip(jobs, done)}
    ctx.extra["model_candidate_leave_updates_node_list_after_the_address_critical_section"] = by["cand_leave"]
    if "cand_join" in by:
        ctx.extra["model_candidate_join_updates_node_lists_after_the_address_critical_section"] = by["cand_join"]
        ctx.extra["model_repo_discipline_with_Empty_among_the_calls"] = by["cand_empty"]
    for lb in ("seq_exhaustive", "seq_random"):
        judge_sequential(ctx, *by[lb])

    fam, weak, strict = {}, set(), []
    for lb in ("forced2", "forced3"):
        if lb in by:
            scheds, hs, stat, nl, more = by[lb]
            fam[lb] = stat
            judge_concurrent(ctx, "forced schedule", nl)
            for s in scheds:
                ctx.case(["forced", s], nontrivial=True, sample=None)
            ctx.traces += len(hs)
            weak |= set(h[0]["i"] for (h, _) in nl)
            strict += more
    freehs, freestat, nl, more = by["free"]
    fam["free_running"] = freestat
    judge_concurrent(ctx, "free-running", nl)
    weak |= set(h[0]["i"] for (h, _) in nl)
    strict += more
    for h in freehs:
        calls = [[e["g"], e["op"], e["addr"], e["node"]] for e in h if e["a"] == "Call"]
        ctx.case(["free", calls], nontrivial=any(c[0] != 0 and c[1] in ("Join", "Leave") for c in calls),
                 sample={"concurrent": calls} if len(ctx.samples) < 5 else None)
    ctx.traces += len(freehs)
    if "free_empty" in by:
        ehs, estat, nl, _ = by["free_empty"]
        fam["free_running_with_Empty"] = estat
        judge_concurrent(ctx, "free-running, Empty among the calls", nl)
        for h in ehs:
            calls = [[e["g"], e["op"], e["addr"], e["node"]] for e in h if e["a"] == "Call"]
            ctx.case(["free", calls], nontrivial=any(c[0] != 0 and c[1] in ("Join", "Leave", "Empty") for c in calls))
        ctx.traces += len(ehs)
    ctx.extra["concurrent_histories"] = fam
    if not quick:
        # the stronger reading, reported only: also the reads of the per-node lists / of the length made WHILE other calls are
        # in progress are answers of the sequential table at one instant
        only = [(h, ev) for (h, ev) in strict if h[0]["i"] not in weak]
        ctx.extra["stronger_reading_reads_during_calls_constrained"] = {
            "histories_not_linearizable_only_under_it": len(only),
            "samples": [" ".join(show(e) for e in h if e["a"] == "Call") for (h, _) in only[:3]]}
    ctx.exhaustive = True
    ctx.assumptions = ["the answers of MembersLen / MembersLenOthers / Len given WHILE other calls are in progress are not "
                       "constrained (a re-join under another node moves the address between two lists in two steps; the length "
                       "is a counter updated after the shard); Exists / Get, the answers of Join / Leave and everything after "
                       "all calls returned are",
                       "Empty() is driven sequentially in the quick tier; from goroutines (free-running only: it has no boundary "
                       "it could be held at) in the thorough tier",
                       "a schedule the table's locks forbid is not forced (it degrades into one they allow)"]
