"""C37 - memberlist member table. Spec: Members.tla; binding B: the real membersPool is driven
(every operation sequence of a given length over a reduced alphabet + seeded random sequences)
and the recorded call/observation events are validated by MembersTrace.tla."""
import os
from vlib import core

KEYS = {
    "Get-found": "Get-found",
    "Get-node": "Get-node",
    "MembersLen": None, "MembersLenOthers-len": None, "MembersLenOthers-others": None, "MembersLenOthers-found": None,
}


def classify(cls, line, events):
    """name the defect class from the history that precedes the mismatching observation"""
    if cls in ("MembersLen", "MembersLenOthers-len", "MembersLenOthers-others", "MembersLenOthers-found"):
        # walk back to the Reset: a re-join of a present address duplicates, a leave drops siblings
        i = line - 1
        present = {}
        dup = drop = readdr = False
        j = i
        while j >= 0 and events[j]["a"] != "Reset":
            j -= 1
        for e in events[j + 1:i + 1]:
            if e["a"] == "Join":
                if e["addr"] in present and present[e["addr"]] != e["node"]:
                    readdr = True
                elif e["addr"] in present:
                    dup = True
                present[e["addr"]] = e["node"]
            elif e["a"] == "Leave":
                n = present.pop(e["addr"], None)
                if n is not None and any(v == n for v in present.values()):
                    drop = True
            elif e["a"] == "Empty":
                present = {}
        if readdr and not dup and not drop:
            return "readdress-stale"
        if dup and not drop:
            return "rejoin-duplicate"
        if drop and not dup:
            return "remove-drops-siblings"
        if dup and drop:
            return "rejoin-duplicate+remove-drops-siblings"
        return "per-node-list(" + cls + ")"
    return cls


def run(ctx):
    r = ctx.tlc("Members", "Members_mc.cfg")           # the abstract table itself: invariants, state count
    ctx.rule = ("operation sequences on the member table (Join(addr,node)/Leave(addr)/Empty) each followed by an observation of "
                "every read; exhaustive: all sequences of length D over 7 operations; random: seeded; non-trivial = sequence "
                "with at least one Join; distinct by operation sequence")
    depth = 4 if ctx.tier == "quick" else 5
    runs = [["--mode", "exhaustive", "--depth", depth], ["--mode", "random", "--num", 300 if ctx.tier == "quick" else 3000, "--len", 14]]
    for k, a in enumerate(runs):
        t = os.path.join(ctx.work, "trace%d.ndjson" % k)
        ctx.vh(["C37", "record"] + a + ["--out", t])
        events = core.read_ndjson(t)
        ok, res, hw = ctx.tlc_validate_trace("MembersTrace", "MembersTrace.cfg", t, timeout=1500)
        if not ok:
            # structurally unexplained event: report the line
            ctx.violation("trace-rejected", "event %s not explained by Members.tla: %s" % (hw, events[hw - 1] if hw else "?"),
                          {"line": hw, "event": events[hw - 1] if hw else None, "tlc_tail": res.out[-1500:]})
        seqs = []
        cur = None
        for e in events:
            if e["a"] == "Reset":
                cur = []
                seqs.append(cur)
            elif e["a"] != "Obs":
                cur.append([e["a"], e.get("addr"), e.get("node")])
        for sq in seqs:
            ctx.case(sq, nontrivial=any(o[0] == "Join" for o in sq), sample=sq)
        ctx.traces += len(seqs)
        seen = set()
        for (cls, line, rest) in res.mismatches():
            key = classify(cls, line, events)
            if (key, line) in seen:
                continue
            seen.add((key, line))
            j = line - 1
            while j >= 0 and events[j]["a"] != "Reset":
                j -= 1
            hist = [e for e in events[j:line] if e["a"] != "Obs"]
            ctx.violation(key, "%s: got/want %s after %s" % (cls, rest, [(e["a"], e.get("addr"), e.get("node")) for e in hist][-6:]),
                          {"class": cls, "history": hist, "observation": events[line - 1]})
    ctx.exhaustive = True
    ctx.assumptions = ["sequential use of the table (the memberlist delegate serialises join/leave events)"]
