"""C25 - prefix storage isolates prefixes (storage/leveldb/prefix.go, db.go). Spec: PrefixStorage.tla.
Binding A.

Exhaustive part: every initial store (few keys, possibly one prefix storage closed) x every
operation of the exhaustive config is one depth-1 state of TLC; its `step` holds the store before,
the operation, the reply and the store after, as the map model of the statement gives them.
Walk part: seeded -simulate walks of 40 operations on one store. Every step is performed on real
leveldbstorage.PrefixStorage objects sharing one leveldbstorage.Storage (goleveldb memory
storage); the raw store is read back with goleveldb's iterator after every step."""
import os
from vlib import core

ON_STORE = {"Put", "Get", "Exists", "Delete", "Iter", "Batch", "Remove", "Close"}


def norm_kv(pairs):
    return sorted([list(k), v] for k, v in pairs)


def starts(k, p):
    return len(k) >= len(p) and list(k[:len(p)]) == list(p)


def kv_diff(want, got):
    w = {tuple(k): v for k, v in want}
    g = {tuple(k): v for k, v in got}
    return sorted(k for k in set(w) | set(g) if w.get(k) != g.get(k)), w, g


def judge(st, row):
    """-> (verdict, key, what); verdict in ok | soft | viol"""
    op = st["op"]
    a = op["a"]
    want_kv, got_kv = norm_kv(st["kv"]), norm_kv(row["kv"])
    pre = {tuple(k): v for k, v in st["pre"]}
    if row.get("panic"):
        return "viol", "panic(%s)" % a, "%s panicked: %s" % (a, row["panic"][:300])
    diff, w, g = kv_diff(want_kv, got_kv)
    want_res, got_res = st["res"], row["res"]
    if a in ON_STORE:
        p = op["p"]
        closed = p in st["closed"]
        foreign = [k for k in diff if not starts(k, p)]
        if closed:
            if foreign:
                return "viol", "closed-storage-changes-foreign-keys(%s)" % a, \
                    "%s on the closed prefix storage %s changed keys outside the prefix: %s (store before %s, after %s)" % (
                        a, p, [list(k) for k in foreign], st["pre"], got_kv)
            if a == "Iter" and isinstance(got_res, list):
                seen_foreign = [e for e in got_res if not starts(e[0], p)]
                if seen_foreign:
                    return "viol", "closed-storage-observes-foreign-keys(Iter)", \
                        "Iter(%s..%s) on the closed prefix storage %s visited %s" % (op["s"], op["l"], p, seen_foreign)
            if diff or got_res != want_res:
                return "soft", "closed-storage-soft(%s)" % a, ""
            return "ok", "", ""
        if foreign:
            return "viol", "foreign-key-changed(%s)" % a, \
                "%s through prefix %s changed keys outside it: %s (before %s, after %s, model %s)" % (
                    a, p, [list(k) for k in foreign], st["pre"], got_kv, want_kv)
        if a == "Iter":
            if not isinstance(got_res, list):
                return "viol", "reply(Iter)", "Iter through %s answered %r (%s), model %s" % (p, got_res, row.get("err"), want_res)
            for e in got_res:
                full = tuple(p + e[0])
                if pre.get(full) != e[1]:
                    return "viol", "foreign-key-observed(Iter)", \
                        "Iter(%s..%s,asc=%s) through %s handed the callback %s which is no entry under the prefix (store %s)" % (
                            op["s"], op["l"], op["asc"], p, e, st["pre"])
            if got_res != want_res:
                ws, gs = set(map(lambda e: tuple(e[0]), want_res)), set(map(lambda e: tuple(e[0]), got_res))
                kind = "extra" if gs - ws else "missing" if ws - gs else "order"
                return "viol", "iter-range(%s)" % kind, \
                    "Iter(%s..%s,asc=%s,stop=%s) through %s visited %s, model %s (store %s)" % (
                        op["s"], op["l"], op["asc"], op["stop"], p, got_res, want_res, st["pre"])
        if diff:
            kind = "not-deleted" if a == "Remove" and all(k in g for k in diff) else "own-key-wrong"
            return "viol", "%s(%s)" % (kind, a), "%s through %s: store after %s, model %s (before %s)" % (a, p, got_kv, want_kv, st["pre"])
        if got_res != want_res:
            return "viol", "reply(%s)" % a, "%s %s through %s answered %r (%s), model %r (store %s)" % (
                a, op.get("k"), p, got_res, row.get("err"), want_res, st["pre"])
        return "ok", "", ""
    # package-level operations on the shared store
    if a == "BatchRemove" and op["lim"] == 0:
        if diff or got_res != want_res:
            return "soft", "batch-remove-limit-0", ""
        return "ok", "", ""
    if diff:
        extra = [list(k) for k in diff if k in w and k not in g]
        left = [list(k) for k in diff if k in g and k not in w]
        kind = "deleted-outside" if extra else "not-deleted" if left else "value"
        arg = "prefix %s" % op.get("p") if a == "RemoveByPrefix" else "range %s..%s limit %s" % (op.get("s"), op.get("l"), op.get("lim"))
        return "viol", "%s(%s)" % (a, kind), "%s %s: deleted although outside %s, kept although inside %s (before %s)" % (
            a, arg, extra, left, st["pre"])
    if got_res != want_res:
        return "viol", "reply(%s)" % a, "%s answered %r (%s), model %r (before %s)" % (a, got_res, row.get("err"), want_res, st["pre"])
    return "ok", "", ""


def run(ctx):
    quick = ctx.tier == "quick"
    cfg = "PrefixStorage_mc_quick.cfg" if quick else "PrefixStorage_mc_thorough.cfg"
    r, steps = ctx.tlc_dump_steps("PrefixStorage", cfg, timeout=2400)
    if not steps:
        raise core.MachineryError("no depth-1 states dumped")
    for s in steps:
        s["single"] = 1
    # cases that can only give soft differences go last: a runaway call there must not hide the others
    steps.sort(key=lambda s: 1 if (s["op"]["a"] == "BatchRemove" and s["op"]["lim"] == 0) else 0)
    nexh = len(steps)
    ctx.exhaustive = True
    # the implementation-level transcription including closed storages: a violation is a candidate only
    rc = ctx.tlc("PrefixStorage", "PrefixStorage_mc_closed.cfg", allow_violation=True, timeout=900, count=False)
    ctx.extra["model_candidate_ImplAgrees(closed storages)"] = (
        "violated: " + (rc.violated or "?") if rc.safety_violation else "holds")
    _, behs = ctx.tlc_simulate("PrefixStorage", "PrefixStorage_sim.cfg", num=60 if quick else 800, depth=41)
    walks = []
    for b in behs:
        b[0]["new"] = 1
        walks.append((len(steps), len(b)))
        steps.extend(b)
    ctx.rule = ("every (initial store, closed set, operation) of %s as one case + %d -simulate walks of PrefixStorage_sim.cfg "
                "(one store per walk, judged up to the first difference); non-trivial = the store before or after the "
                "operation is not empty; distinct by (store before, closed, operation)" % (cfg, len(behs)))
    cases = os.path.join(ctx.work, "cases.ndjson")
    core.write_ndjson(cases, steps)
    res = os.path.join(ctx.work, "res.ndjson")
    ctx.vh(["C25", "replay", "--in", cases, "--out", res], timeout=2400)
    rows = core.read_ndjson(res)
    hang = None
    if rows and rows[-1].get("hang"):
        # a call that did not return within the watchdog time: judge what was answered, then no verdict (exit 2)
        hang = steps[len(rows) - 1]
        rows = rows[:-1]
    elif len(rows) != len(steps):
        raise core.MachineryError("harness answered %d of %d steps" % (len(rows), len(steps)))
    soft = {}
    kinds = {}
    calls = 0

    def one(st, row, ctxinfo):
        nonlocal calls
        calls += 1
        kinds[st["op"]["a"]] = kinds.get(st["op"]["a"], 0) + 1
        ctx.case([st["pre"], st["closed"], st["op"]], nontrivial=bool(st["pre"]) or bool(st["kv"]),
                 sample={"op": st["op"], "pre": st["pre"], "closed": st["closed"], "reply": row["res"], "kv": row["kv"]})
        v, key, what = judge(st, row)
        if v == "soft":
            soft[key] = soft.get(key, 0) + 1
        elif v == "viol":
            ctx.violation(key, what, {"step": st, "result": row, "context": ctxinfo})
        return v

    for i in range(min(nexh, len(rows))):
        one(steps[i], rows[i], "independent case")
    ctx.traces += min(nexh, len(rows))
    cut = 0
    for (off, ln) in walks:
        if off + ln > len(rows):
            break
        ctx.traces += 1
        for j in range(ln):
            v = one(steps[off + j], rows[off + j], {"walk_prefix": [s["op"] for s in steps[off:off + j]]})
            if v != "ok":
                cut += 1
                break   # the real store and the model have parted: the rest of the walk says nothing
    if hang is not None and not ctx.viol:
        raise core.MachineryError("the call %s (store before %s) did not return within the watchdog time; %d of %d steps answered"
                                  % (hang["op"], hang["pre"], len(rows), len(steps)))
    ctx.extra["real_calls"] = calls
    ctx.extra["independent_cases"] = nexh
    ctx.extra["walks"] = len(walks)
    ctx.extra["walks_cut_at_first_difference"] = cut
    ctx.extra["operations_by_kind"] = kinds
    ctx.extra["soft_differences_not_alarmed"] = soft
    ctx.assumptions = [
        "keys over the bytes {00,01,ff}; prefixes 01, 01 00, 01 ff, ff, ff ff (+ 00, 00 01 in walks): nested, sibling, all-0xff",
        "a key equal to a prefix counts as under it (it starts with it)",
        "empty user keys and empty non-nil range bounds are not generated (the code answers ErrClosed for them)",
        "Batch applies a batch made by NewBatch() of the same prefix storage",
        "on a closed prefix storage only observing / changing keys outside the former prefix is alarmed; other deviations "
        "from 'answers closed, does nothing' are counted in soft_differences_not_alarmed",
        "BatchRemove with limit 0 (removes nothing, returns 0) is counted in soft_differences_not_alarmed: the statement is "
        "read for limits >= 1",
        "goleveldb's own Get/Put/iterator are trusted (they read the store back)",
    ]


def replay(ctx, path):
    """re-run the failing step of a replay file (with the operations that led to it, if it came from a walk)"""
    import json
    case = json.load(open(path))["case"]
    st = case["step"]
    steps = []
    c = case.get("context")
    if isinstance(c, dict) and not st.get("single"):
        for op in c.get("walk_prefix", []):
            steps.append({"op": op, "pre": [], "closed": [], "res": None, "kv": []})
    steps.append(st)
    steps[0]["new"] = 1
    cases, res = os.path.join(ctx.work, "cases.ndjson"), os.path.join(ctx.work, "res.ndjson")
    core.write_ndjson(cases, steps)
    ctx.vh(["C25", "replay", "--in", cases, "--out", res])
    rows = core.read_ndjson(res)
    if len(rows) != len(steps) or rows[-1].get("hang"):
        raise core.MachineryError("harness answered %d of %d steps" % (len(rows), len(steps)))
    ctx.traces += 1
    ctx.case(["replay", st["pre"], st["closed"], st["op"]], nontrivial=True, sample={"step": st, "result": rows[-1]})
    v, key, what = judge(st, rows[-1])
    if v == "viol":
        ctx.violation(key, what, {"step": st, "result": rows[-1], "context": c})
