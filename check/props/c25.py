"""C25 - prefix storage isolates prefixes (storage/leveldb/prefix.go, db.go). Spec: PrefixStorage.tla.
Binding A.

Exhaustive part: every initial store (few keys, possibly one prefix storage closed) x every
operation of the exhaustive config is one depth-1 state of TLC; its `step` holds the store before,
the operation, the reply and the store after, as the map model of the statement gives them.
History part (Mode "hist"): every sequence of MaxSteps calls of HistKinds through ONE long-lived
prefix storage object (Fill of L-1 / L / L+1 / 2L+1 ... filler keys, L = 333 = the batch limit of the
repository's removers; Remove through the same and through a fresh object; Put before / after the
fillers; Iter), from a store with keys under and around the prefix; each TLC state is one call of one
history (the history is part of the state), the maximal histories are replayed call by call.
Walk part: seeded -simulate walks of 40 operations on one store (Fill and kept / fresh objects
included). Every step is performed on real leveldbstorage.PrefixStorage objects sharing one
leveldbstorage.Storage (goleveldb memory storage); the raw store is read back with goleveldb's
iterator after every step (fillers folded into runs [key, value, from, to] on both sides)."""
import os
import re
import time
from vlib import core

ON_STORE = {"Put", "Get", "Exists", "Delete", "Iter", "Batch", "Fill", "Remove", "Close"}


# ---------------------------------------------------------------- TLA+ values (ToString) -> Python
_TOK = re.compile(r'\s*(<<|>>|\[|\]|\{|\}|,|\|->|"(?:[^"\\]|\\.)*"|-?\d+|[A-Za-z_][A-Za-z0-9_]*)')


def parse_tla(text):
    """records -> dict, tuples / sets -> list, strings, integers, TRUE / FALSE"""
    toks, i, end = [], 0, len(text.rstrip())
    while i < end:
        m = _TOK.match(text, i)
        if not m:
            raise ValueError("cannot tokenise TLA+ value at %d: %s" % (i, text[i:i + 60]))
        toks.append(m.group(1))
        i = m.end()
    pos = [0]

    def val():
        t = toks[pos[0]]
        pos[0] += 1
        if t in ("<<", "{"):
            end = ">>" if t == "<<" else "}"
            out = []
            if toks[pos[0]] == end:
                pos[0] += 1
                return out
            while True:
                out.append(val())
                t2 = toks[pos[0]]
                pos[0] += 1
                if t2 == end:
                    return out
                if t2 != ",":
                    raise ValueError("expected , or %s" % end)
        if t == "[":
            out = {}
            while True:
                name = toks[pos[0]]
                if toks[pos[0] + 1] != "|->":
                    raise ValueError("expected |->")
                pos[0] += 2
                out[name] = val()
                t2 = toks[pos[0]]
                pos[0] += 1
                if t2 == "]":
                    return out
                if t2 != ",":
                    raise ValueError("expected , or ]")
        if t.startswith('"'):
            return re.sub(r"\\(.)", r"\1", t[1:-1])
        if t == "TRUE":
            return True
        if t == "FALSE":
            return False
        return int(t)

    v = val()
    if pos[0] != len(toks):
        raise ValueError("trailing text after TLA+ value")
    return v


def dump_steps(path, var="step"):
    """`step` of every state of a -dump file whose value is a ToString()ed TLA+ record"""
    pat = re.compile(r'^(?:/\\ )?' + re.escape(var) + r' = "(.*)"$')
    with open(path, errors="replace") as f:
        for line in f:
            m = pat.match(line.rstrip("\n"))
            if not m or not m.group(1):
                continue
            body = m.group(1).replace('\\"', '"').replace("\\\\", "\\")
            try:
                yield parse_tla(body)
            except (ValueError, IndexError) as e:
                raise core.MachineryError("cannot parse step value (%s): %s" % (e, body[:200]))


# ---------------------------------------------------------------- stores: [[key, value] | [key, value, from, to] ...]
def norm_kv(pairs):
    return sorted([list(e[0])] + list(e[1:]) for e in pairs)


def nkeys(pairs):
    return sum(abs(e[3] - e[2]) + 1 if len(e) == 4 else 1 for e in pairs)


def starts(k, p):
    return len(k) >= len(p) and list(k[:len(p)]) == list(p)


def kv_map(pairs):
    m = {}
    for e in pairs:
        m.setdefault(tuple(e[0]), []).append(tuple(e[1:]))
    return {k: sorted(v) for k, v in m.items()}


def kv_diff(want, got):
    w, g = kv_map(want), kv_map(got)
    return sorted(k for k in set(w) | set(g) if w.get(k) != g.get(k)), w, g


def short(v, n=700):
    s = str(v)
    return s if len(s) <= n else s[:n] + "...(%d characters)" % len(s)


def history_class(st):
    """what the object the call goes through did before, as far as the key of a violation names it:
    a Remove() of more than L keys (more than one round of the removers' batch limit)"""
    if st["op"].get("o") == "kept" and st.get("rm", -1) > st.get("L", 1 << 30):
        return ";same-object-removed(>L)"
    return ""


def size_class(st):
    """removals: how many keys the model removes, against L (Remove, RemoveByPrefix) or the call's own limit"""
    op = st["op"]
    a = op["a"]
    if a not in ("Remove", "RemoveByPrefix", "BatchRemove"):
        return ""
    n = nkeys(st["pre"]) - nkeys(st["kv"])
    if a == "BatchRemove":
        lim = op["lim"]
        if lim < 1 or n == 0:
            return ""
        return ";n<lim" if n < lim else ";n=lim" if n == lim else ";n=k*lim" if n % lim == 0 else ";n>lim"
    return ";removes>L" if n > st.get("L", 1 << 30) else ""


def judge(st, row):
    """-> (verdict, key, what); verdict in ok | soft | viol. A violation's key = what differs (call) +
    the size class of a removal + the history class of the object."""
    v, key, what = judge0(st, row)
    if v == "viol" and not key.startswith("panic("):
        key += size_class(st) + history_class(st)
    return v, key, short(what, 1500)


def judge0(st, row):
    op = st["op"]
    a = op["a"]
    want_kv, got_kv = norm_kv(st["kv"]), norm_kv(row["kv"])
    pre = {tuple(e[0]): e[1] for e in st["pre"]}
    if row.get("panic"):
        return "viol", "panic(%s)" % a, "%s panicked: %s" % (a, row["panic"][:300])
    diff, w, g = kv_diff(want_kv, got_kv)
    want_res, got_res = st["res"], row["res"]
    if a in ON_STORE:
        p = op["p"]
        closed = p in st["closed"] and op.get("o", "kept") == "kept"   # a fresh object is open
        foreign = [k for k in diff if not starts(k, p)]
        if closed:
            if foreign:
                return "viol", "closed-storage-changes-foreign-keys(%s)" % a, \
                    "%s on the closed prefix storage %s changed keys outside the prefix: %s (store before %s, after %s)" % (
                        a, p, [list(k) for k in foreign], st["pre"], got_kv)
            if a == "Iter" and isinstance(got_res, list):
                seen_foreign = [e for e in got_res if not starts(e[0], p)]
                if seen_foreign:
                    return "viol", "closed-storage-observes-foreign-keys(Iter)", \
                        "Iter(%s..%s) on the closed prefix storage %s visited %s" % (op["s"], op["l"], p, seen_foreign)
            if diff or got_res != want_res:
                return "soft", "closed-storage-soft(%s)" % a, ""
            return "ok", "", ""
        if foreign:
            return "viol", "foreign-key-changed(%s)" % a, \
                "%s through prefix %s changed keys outside it: %s (before %s, after %s, model %s)" % (
                    a, p, [list(k) for k in foreign], st["pre"], got_kv, want_kv)
        if a == "Iter":
            if not isinstance(got_res, list):
                return "viol", "reply(Iter)", "Iter through %s answered %r (%s), model %s" % (p, got_res, row.get("err"), want_res)
            for e in got_res:
                full = tuple(p + e[0])
                if pre.get(full) != e[1]:
                    return "viol", "foreign-key-observed(Iter)", \
                        "Iter(%s..%s,asc=%s) through %s handed the callback %s which is no entry under the prefix (store %s)" % (
                            op["s"], op["l"], op["asc"], p, e, st["pre"])
            if got_res != want_res:
                ws, gs = set(map(lambda e: tuple(e[0]), want_res)), set(map(lambda e: tuple(e[0]), got_res))
                kind = ("extra" if gs - ws else "missing" if ws - gs else
                        "extra" if nkeys(got_res) > nkeys(want_res) else "missing" if nkeys(got_res) < nkeys(want_res) else "order")
                return "viol", "iter-range(%s)" % kind, \
                    "Iter(%s..%s,asc=%s,stop=%s) through %s visited %s, model %s (store %s)" % (
                        op["s"], op["l"], op["asc"], op["stop"], p, got_res, want_res, st["pre"])
        if diff:
            kind = "not-deleted" if a == "Remove" and all(k in g for k in diff) else "own-key-wrong"
            return "viol", "%s(%s)" % (kind, a), "%s through %s: store after %s, model %s (before %s)" % (a, p, got_kv, want_kv, st["pre"])
        if got_res != want_res:
            return "viol", "reply(%s)" % a, "%s %s through %s answered %r (%s), model %r (store %s)" % (
                a, op.get("k"), p, got_res, row.get("err"), want_res, st["pre"])
        return "ok", "", ""
    # package-level operations on the shared store
    if a == "BatchRemove" and op["lim"] == 0:
        if diff or got_res != want_res:
            return "soft", "batch-remove-limit-0", ""
        return "ok", "", ""
    if diff:
        extra = [list(k) for k in diff if k in w and k not in g]
        left = [list(k) for k in diff if k in g and k not in w]
        kind = "deleted-outside" if extra else "not-deleted" if left else "partly-deleted" if a == "BatchRemove" else "value"
        arg = "prefix %s" % op.get("p") if a == "RemoveByPrefix" else "range %s..%s limit %s" % (op.get("s"), op.get("l"), op.get("lim"))
        return "viol", "%s(%s)" % (a, kind), "%s %s: deleted although outside %s, kept although inside %s (before %s)" % (
            a, arg, extra, left, st["pre"])
    if got_res != want_res:
        return "viol", "reply(%s)" % a, "%s answered %r (%s), model %r (before %s)" % (a, got_res, row.get("err"), want_res, st["pre"])
    return "ok", "", ""


def hist_sequences(ctx, cfg, timeout):
    """Mode "hist": one TLC state per call of a history (the history is part of the state). Returns the
    maximal histories with at least one Fill as lists of steps (the step of every prefix of the history)."""
    dump = os.path.join(ctx.work, "histdump")
    r = ctx.tlc("PrefixStorage", cfg, args=["-dump", dump], timeout=timeout)
    by_path = {}
    for st in dump_steps(dump + ".dump"):
        by_path[tuple(map(str, st["path"]))] = st
    os.remove(dump + ".dump")
    if not by_path:
        raise core.MachineryError("no history states dumped by %s" % cfg)
    depth = max(len(k) for k in by_path)
    seqs = []
    for k in sorted(by_path):
        if len(k) != depth:
            continue
        tags = by_path[k]["path"][1:]
        if not any(by_path[k[:j]]["op"]["a"] == "Fill" for j in range(2, depth + 1)):
            continue   # histories of small stores are the walks' part
        try:
            seqs.append((tags, [by_path[k[:j]] for j in range(2, depth + 1)]))
        except KeyError:
            raise core.MachineryError("history %s: a prefix of it was not dumped" % (k,))
    return r, seqs, depth - 1


def slim(st):
    """what the harness needs of a step"""
    out = {"op": st["op"]}
    for f in ("new", "single", "init"):
        if st.get(f):
            out[f] = st[f]
    if st.get("single") or st.get("init"):
        out["pre"] = st["pre"]
        out["closed"] = st["closed"]
    return out


def run(ctx):
    quick = ctx.tier == "quick"
    phase, t0 = {}, [time.time()]

    def lap(name):
        phase[name] = round(time.time() - t0[0], 1)
        t0[0] = time.time()

    cfg = "PrefixStorage_mc_quick.cfg" if quick else "PrefixStorage_mc_thorough.cfg"
    r, steps = ctx.tlc_dump_steps("PrefixStorage", cfg, timeout=2400)
    lap("tlc_cases")
    if not steps:
        raise core.MachineryError("no depth-1 states dumped")
    for s in steps:
        s["single"] = 1
    # cases that can only give soft differences go last: a runaway call there must not hide the others
    steps.sort(key=lambda s: 1 if (s["op"]["a"] == "BatchRemove" and s["op"]["lim"] == 0) else 0)
    nexh = len(steps)
    ctx.exhaustive = True
    # the implementation-level transcription including closed storages: a violation is a candidate only
    rc = ctx.tlc("PrefixStorage", "PrefixStorage_mc_closed.cfg", allow_violation=True, timeout=900, count=False)
    ctx.extra["model_candidate_ImplAgrees(closed storages)"] = (
        "violated: " + (rc.violated or "?") if rc.safety_violation else "holds")
    lap("tlc_closed")
    # every history of calls on one long-lived object, sizes around the removers' batch limit
    hcfg = "PrefixStorage_hist_quick.cfg" if quick else "PrefixStorage_hist_thorough.cfg"
    rh, seqs, hdepth = hist_sequences(ctx, hcfg, 3000)
    lap("tlc_hist")
    runs = []     # (offset, length, kind, label)
    for n_, (tags, sq) in enumerate(seqs):
        sq = [dict(st) for st in sq]
        sq[0]["init"] = 1
        sq[0]["new"] = 1     # a goleveldb store per history: the deleted versions of hundreds of fillers pile up otherwise
        runs.append((len(steps), len(sq), "history", tags))
        steps.extend(sq)
    _, behs = ctx.tlc_simulate("PrefixStorage", "PrefixStorage_sim.cfg", num=60 if quick else 800, depth=41)
    lap("tlc_walks")
    for b in behs:
        b[0]["new"] = 1
        runs.append((len(steps), len(b), "walk", None))
        steps.extend(b)
    ctx.rule = ("every (initial store, closed set, operation) of %s as one case + every history of %d calls of %s on one "
                "long-lived object (%d histories with a Fill) + %d -simulate walks of PrefixStorage_sim.cfg "
                "(one store per history / walk, judged up to the first difference); non-trivial = the store before or "
                "after the operation is not empty; distinct by (store before, closed, operation) resp. (history so far)"
                % (cfg, hdepth, hcfg, len(seqs), len(behs)))
    cases = os.path.join(ctx.work, "cases.ndjson")
    core.write_ndjson(cases, [slim(st) for st in steps])
    res = os.path.join(ctx.work, "res.ndjson")
    ctx.vh(["C25", "replay", "--in", cases, "--out", res], timeout=3000)
    rows = core.read_ndjson(res)
    lap("replay")
    hang = None
    if rows and rows[-1].get("hang"):
        # a call that did not return within the watchdog time: judge what was answered, then no verdict (exit 2)
        hang = steps[len(rows) - 1]
        rows = rows[:-1]
    elif len(rows) != len(steps):
        raise core.MachineryError("harness answered %d of %d steps" % (len(rows), len(steps)))
    soft = {}
    kinds = {}
    sizes = {}
    calls = 0

    def one(st, row, ctxinfo, canon):
        nonlocal calls
        calls += 1
        op = st["op"]
        kinds[op["a"]] = kinds.get(op["a"], 0) + 1
        if op["a"] in ("Remove", "RemoveByPrefix", "BatchRemove", "Fill"):
            n_ = op["n"] if op["a"] == "Fill" else nkeys(st["pre"]) - nkeys(st["kv"])
            L = st.get("L", 333)
            cl = ("0" if n_ == 0 else "<L" if n_ < L else "=L" if n_ == L else "=k*L" if n_ % L == 0 else "L<..<2L" if n_ < 2 * L else ">2L")
            sizes.setdefault(op["a"], {})
            sizes[op["a"]][cl] = sizes[op["a"]].get(cl, 0) + 1
        ctx.case(canon, nontrivial=bool(st["pre"]) or bool(st["kv"]),
                 sample={"op": op, "pre": st["pre"], "closed": st["closed"], "reply": row["res"], "kv": row["kv"]})
        v, key, what = judge(st, row)
        if v == "soft":
            soft[key] = soft.get(key, 0) + 1
        elif v == "viol":
            ctx.violation(key, what, {"step": st, "result": row, "context": ctxinfo})
        return v

    for i in range(min(nexh, len(rows))):
        one(steps[i], rows[i], "independent case", [steps[i]["pre"], steps[i]["closed"], steps[i]["op"]])
    ctx.traces += min(nexh, len(rows))
    cut = {"history": 0, "walk": 0}
    done = {"history": 0, "walk": 0}
    seen_hist = set()
    for (off, ln, kind, tags) in runs:
        if off + ln > len(rows):
            break
        ctx.traces += 1
        done[kind] += 1
        for j in range(ln):
            st = steps[off + j]
            if kind == "history":
                hk = tuple(map(str, st["path"]))
                if hk in seen_hist:
                    # this prefix of the history was judged with an earlier history (same calls, same replies expected):
                    # only a difference is news
                    v, key, what = judge(st, rows[off + j])
                    if v == "ok":
                        continue
                seen_hist.add(hk)
                canon = ["history", st["path"]]
            else:
                canon = [st["pre"], st["closed"], st["op"]]
            info = {"kind": kind, "init": steps[off]["pre"], "walk_prefix": [s_["op"] for s_ in steps[off:off + j]]}
            if tags is not None:
                info["history"] = tags
            v = one(st, rows[off + j], info, canon)
            if v != "ok":
                cut[kind] += 1
                break   # the real store and the model have parted: the rest says nothing
    if hang is not None and not ctx.viol:
        raise core.MachineryError("the call %s (store before %s) did not return within the watchdog time; %d of %d steps answered"
                                  % (hang["op"], hang["pre"], len(rows), len(steps)))
    lap("judge")
    ctx.extra["phase_s"] = phase
    ctx.extra["real_calls"] = len(rows)
    ctx.extra["calls_judged_as_cases"] = calls
    ctx.extra["independent_cases"] = nexh
    ctx.extra["histories"] = done["history"]
    ctx.extra["history_length"] = hdepth
    ctx.extra["history_states"] = rh.distinct
    ctx.extra["walks"] = done["walk"]
    ctx.extra["cut_at_first_difference"] = cut
    ctx.extra["operations_by_kind"] = kinds
    ctx.extra["removal_and_fill_sizes_against_L"] = sizes
    ctx.extra["soft_differences_not_alarmed"] = soft
    ctx.assumptions = [
        "keys over the bytes {00,01,ff}; prefixes 01, 01 00, 01 ff, ff, ff ff (+ 00, 00 01 in walks): nested, sibling, all-0xff",
        "filler keys prefix ++ {02 hi lo}: 02 occurs in no other key, so all fillers of a prefix lie on one side of every "
        "bound the model forms (FillersUniform, checked by TLC) and the model keeps them as one run",
        "L = 333 (the batch limit the repository's removers pass to BatchRemove); sizes L-1, L, L+1, 2L+1 (quick) + 2L, 3L+2 (thorough)",
        "a key equal to a prefix counts as under it (it starts with it)",
        "empty user keys and empty non-nil range bounds are not generated (the code answers ErrClosed for them)",
        "Batch / Fill apply a batch made by NewBatch() of the same prefix storage object",
        "on a closed prefix storage only observing / changing keys outside the former prefix is alarmed; other deviations "
        "from 'answers closed, does nothing' are counted in soft_differences_not_alarmed",
        "BatchRemove with limit 0 (removes nothing, returns 0) is counted in soft_differences_not_alarmed: the statement is "
        "read for limits >= 1",
        "goleveldb's own Get/Put/iterator are trusted (they read the store back)",
    ]


def replay(ctx, path):
    """re-run the failing step of a replay file (with the operations that led to it, if it came from a walk / history)"""
    import json
    case = json.load(open(path))["case"]
    st = case["step"]
    steps = []
    c = case.get("context")
    if isinstance(c, dict) and not st.get("single"):
        for op in c.get("walk_prefix", []):
            steps.append({"op": op, "pre": [], "closed": [], "res": None, "kv": []})
        st = dict(st)
        st.pop("init", None)
    steps.append(st)
    steps[0] = dict(steps[0])
    steps[0]["new"] = 1
    if isinstance(c, dict) and not st.get("single"):
        steps[0]["init"] = 1
        steps[0]["pre0"] = c.get("init", [])
    out = []
    for s_ in steps:
        o = slim(s_)
        if "pre0" in s_:
            o["pre"], o["closed"] = s_["pre0"], []
        out.append(o)
    cases, res = os.path.join(ctx.work, "cases.ndjson"), os.path.join(ctx.work, "res.ndjson")
    core.write_ndjson(cases, out)
    ctx.vh(["C25", "replay", "--in", cases, "--out", res])
    rows = core.read_ndjson(res)
    if len(rows) != len(steps) or rows[-1].get("hang"):
        raise core.MachineryError("harness answered %d of %d steps" % (len(rows), len(steps)))
    ctx.traces += 1
    ctx.case(["replay", st["pre"], st["closed"], st["op"]], nontrivial=True, sample={"step": st, "result": rows[-1]})
    v, key, what = judge(st, rows[-1])
    if v == "viol":
        ctx.violation(key, what, {"step": st, "result": rows[-1], "context": c})
