"""C38 - the local node proposes at most one proposal per position.
Spec: ProposalMaker.tla (Make/PreferEmpty over the proposal pool; with the maker's lock every
call is atomic - the model without the lock is the candidate generator) + ProposalMakerTrace.tla.

Binding B: a real isaac.ProposalMaker over a real TempPool (getOperations = the real
OperationHashes; another goroutine keeps adding operations, every third with the fact of an
earlier one) is called from 4-8 goroutines for 2-4 positions per history (refused-old, normal,
other-previous-block, unreachable-height positions); TLC validates the call/return log: every
return for a position is the same proposal with the same signature, far positions get empty
proposals, old ones are refused, operations of a returned proposal have distinct hashes and
distinct facts. Verdicts from the returned proposals only.
"""
import os
import re
import time

from vlib import core

KEYS = {
    "OnePerPosition": "two-proposals-for-one-position",
    "SameSignature": "proposal-signed-twice",
    "RefusedOnlyOld": "call-failed",
    "OldRefused": "too-old-position-served",
    "FarIsEmpty": "unreachable-position-with-operations",
    "DistinctOperations": "duplicate-operation-hash",
    "DistinctFacts": "=C22:stale-fact-index",
}


def histories(events):
    out = []
    for i, e in enumerate(events):
        if e["a"] == "Reset":
            out.append((i + 1, []))
        if out:
            out[-1][1].append(e)
    return out


def short(evs, upto, n=14):
    r = []
    for e in evs[:upto + 1]:
        if e["a"] == "Call":
            r.append("%d:%s(%s)" % (e["id"], e["op"], e["pos"]))
        elif e["a"] == "Ret":
            r.append("%d:->%s" % (e["id"], e["err"] or "%s/%dops" % (e["pr"][:6], e["nops"])))
    return r[-n:]


def run(ctx):
    quick = ctx.tier == "quick"
    phase = ctx.extra.setdefault("phase_s", {})
    ctx.rule = ("histories: 4-8 goroutines x 1-3 Make/PreferEmpty calls over 2-4 positions drawn from 8 (1 too old, 4 normal, 3 that "
                "must get an empty proposal) while another goroutine adds up to 30 operations (1/3 with a repeated fact), "
                "OperationHashes limit 3-8. non-trivial = a position asked at least twice; distinct by event sequence")
    t0 = time.time()
    ctx.tlc("ProposalMaker", "ProposalMaker_mc_quick.cfg" if quick else "ProposalMaker_mc_thorough.cfg", timeout=1200)
    r = ctx.tlc("ProposalMaker", "ProposalMaker_nolock.cfg", allow_violation=True, count=False, timeout=600)
    ctx.extra["model_without_lock_violates"] = r.violated
    phase["mc"] = round(time.time() - t0, 1)

    t0 = time.time()
    tr = os.path.join(ctx.work, "trace.ndjson")
    ctx.vh(["C38", "record", "--num", 400 if quick else 5000, "--out", tr], timeout=2400)
    events = core.read_ndjson(tr)
    hs = histories(events)
    if not hs:
        raise core.MachineryError("the driver recorded nothing")
    phase["record"] = round(time.time() - t0, 1)
    t0 = time.time()
    ok, res, hw = ctx.tlc_validate_trace("ProposalMakerTrace", "ProposalMakerTrace.cfg", tr, timeout=2400)
    if not ok:
        raise core.MachineryError("the trace spec consumes every log; TLC stopped at line %s:\n%s" % (hw, res.out[-2000:]))
    phase["validate"] = round(time.time() - t0, 1)
    starts = [h[0] for h in hs]
    seen = set()
    for m in re.finditer(r'<<\s*"MISMATCH",\s*"([^"]*)",\s*(\d+),', res.out):
        cls, line = m.group(1), int(m.group(2))
        if (cls, line) in seen:
            continue
        seen.add((cls, line))
        hi = max(i for i, s in enumerate(starts) if s <= line)
        first, evs = hs[hi]
        idx = line - first
        e = evs[idx]
        key = KEYS.get(cls, cls)
        if cls in ("RefusedOnlyOld", "OldRefused", "FarIsEmpty"):
            # what the maker does with positions it cannot build on is not part of the statement: reported, no verdict
            ctx.extra.setdefault("beyond_statement", {})
            ctx.extra["beyond_statement"][cls] = ctx.extra["beyond_statement"].get(cls, 0) + 1
            continue
        what = {
            "OnePerPosition": "position %s: proposal %s returned after another proposal for it" % (e["pos"], e["pr"]),
            "SameSignature": "position %s: proposal %s returned with another signature" % (e["pos"], e["pr"]),
            "DistinctFacts": "proposal %s lists two operations with one fact (inherited from TempPool.OperationHashes, property C22)" % e["pr"],
            "DistinctOperations": "proposal %s lists an operation hash twice" % e["pr"],
            "FarIsEmpty": "position %s cannot be built on, yet its proposal has %s operations" % (e["pos"], e["nops"]),
            "OldRefused": "position %s is below the last block - 1, yet a proposal was returned" % e["pos"],
        }.get(cls, "%s at position %s: %s" % (cls, e["pos"], e["err"]))
        ctx.violation(key, "%s; history: %s" % (what, " ".join(short(evs, idx))),
                      {"class": cls, "first_line": first, "index": idx, "events": evs[:idx + 1]})
    nontriv = 0
    withops = 0
    for (first, evs) in hs:
        canon = [[e["a"], e.get("op"), e.get("pos"), e.get("nops"), e.get("err")] for e in evs[1:]]
        pos = [e["pos"] for e in evs if e["a"] == "Call"]
        nt = len(pos) != len(set(pos))
        nontriv += 1 if nt else 0
        withops += 1 if any(e["a"] == "Ret" and e["nops"] > 0 for e in evs) else 0
        ctx.case(canon, nontrivial=nt, sample=short(evs, len(evs) - 1, 24))
    ctx.traces += len(hs)
    ctx.extra["histories"] = {"validated": len(hs), "position_asked_twice": nontriv, "with_operations_in_a_proposal": withops}
    if withops < len(hs) // 10:
        raise core.MachineryError("hardly any proposal carried operations (%d of %d histories)" % (withops, len(hs)))
    ctx.extra["model_only_counterexamples"] = (["OnePerPosition on the model without ProposalMaker.l (lookup and store interleave)"]
                                               if r.violated and not ctx.viol else [])
    ctx.exhaustive = False
    ctx.assumptions = [
        "operations are DummyOperations of the repository's test fixtures (random operation hash, shared facts)",
        "lastBlockMap is fixed during a history (height 40)",
        "a duplicate fact inside a proposal is TempPool.OperationHashes' defect (property C22) and is reported under C38:=C22:stale-fact-index",
    ]
